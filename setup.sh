#!/bin/sh
# Nothing to compile: verify the tools the checks need and create output directories.
set -e
cd "$(dirname "$0")"
mkdir -p evidence replays
command -v java >/dev/null
test -f /opt/veriftools/tla/tla2tools.jar
test -x /venv/bin/python
PYTHONPATH=/verif/shim:/repo/src PYTHONDONTWRITEBYTECODE=1 /venv/bin/python -c "import srctools, sys; sys.exit(0 if srctools.__file__.startswith('/repo/src') else 2)"
echo setup ok
