"""Sub-check used by C11: the DeferredWrites model (binformat), edge replay + random histories."""
from __future__ import annotations

import json

from vlib import core
from vlib.tlc import run_tlc


def collect(tier: str, seed: int, work: core.Work) -> dict:
    cov = {'states': 0, 'transitions': 0, 'models': {}}
    small = tier != 'thorough'      # quick: files of <= 2 cells (37k transitions); thorough: <= 3 (350k) + design run with <= 5
    for cfg in (['Deferred_s_mc.cfg'] if small else ['Deferred_q_mc.cfg', 'Deferred_mc.cfg']):
        r = run_tlc('Deferred', cfg, timeout=900)
        core.require_mc(r, cfg)
        cov['models'][cfg] = {'generated': r.generated, 'distinct': r.distinct, 'depth': r.depth}
        cov['states'] += r.distinct
        cov['transitions'] += r.generated
    edges, r = core.dump_edges('Deferred', 'Deferred_s_edges.cfg' if small else 'Deferred_q_edges.cfg')
    ops: dict = {}
    for e in edges:
        ops[e['a']['op']] = ops.get(e['a']['op'], 0) + 1
    if not {'body', 'defer', 'set', 'pos', 'write'} <= set(ops):
        raise core.MachineryError(f'Deferred: actions never taken: {ops}')
    ef = work.path('deferred_edges.json')
    ef.write_text(json.dumps(edges))
    env = {'VERIF_SEED': seed, 'VERIF_TIER': tier}
    o1 = work.path('deferred_edges.ndjson')
    core.run_driver('deferred_driver.py', ['edges', ef, o1], env=env)
    o2 = work.path('deferred_random.ndjson')
    core.run_driver('deferred_driver.py', ['random', o2], env=env)
    sigs, total, samples = [], 0, []
    for p in (o1, o2):
        mism, st = core.validate_records('DeferredTrace', 'DeferredTrace.cfg', p, work=work)
        total += st['records']
        cov['states'] += st['states']
        cov['transitions'] += st['transitions']
        for m in mism:
            sig = dict(m['rec'].get('sig', {}))
            sig.update(clause=m['clause'], expected=m['exp'], record=m['rec'])
            # DeferredWrites is shared writer machinery: C11 judges the writers by what the readers
            # recover; the helper's own step semantics are growth
            sig['drift'] = 'Deferred'
            sigs.append(sig)
        rs = core.read_ndjson(p)
        samples.append({k: rs[len(rs) // 2][k] for k in ('a', 'res', 'hist')})
    cov['deferred_actions'] = ops
    cov['deferred_model_edges'] = len(edges)
    cov['deferred_records'] = total
    return {'cov': cov, 'sigs': sigs, 'records': total, 'samples': samples}
