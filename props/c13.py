"""C13 - VPK archives return exactly what was last written, across reopen."""
from __future__ import annotations

import concurrent.futures as cf
import json
import time

from vlib import core
from vlib.tlc import MachineryError, run_tlc

PROP = 'C13'

MANIFEST = dict(
    technique='TLA+ model (Vpk: directory tree, preload / footer / append-only numbered archives, AddFile, Write, Del, '
              'NewFile, WriteDir, Reopen(mode)) checked by TLC; every model transition covered by walks on real VPKs; '
              'TLC-simulated and seeded random histories; implementation records validated by TLC (VpkTrace)',
    category='model_checking',
    text='TLC exhausts the VPK design for six placement configurations (preload limit None / 0 / 2 / 1024 / 70000, '
         'single-file VPK; archive files named pak01_dir.vpk, _dir.vpk (empty prefix), x_dir_dir.vpk, foo.vpk, upper-case variants; content sizes around the limit and around the 16-bit preload length): every file reads back '
         'what was last written and verifies, in the object and in what a fresh reader of the _dir file sees, archives '
         'are append-only, read-only objects reject every mutation, failed calls change nothing. Every transition of '
         'the bounded models is executed on a real VPK in a temporary directory (one covering walk per configuration; '
         'states the code cannot reach by itself are put on disk by the harness\'s own encoder); after every call the '
         'in-memory tree, the footer, the numbered archives and the _dir file (decoded by an independent 40-line decoder '
         'and a byte matcher) are judged as a READER sees them - exactly the right names, every file reads back the bytes '
         'last written and its CRC, the written region lies inside its archive and cuts into no other file, the documented '
         'dir_data_limit / arch_index rules; offsets, block order and dead space are the writer\'s choice - and filenames / read / verify / the three name '
         'spellings / a fresh read-only VPK must answer what the specification reads out of that state. TLC-simulated '
         'behaviours with three names and contents up to 300000 bytes, seeded random histories in all modes, and '
         '_get_file_parts against a TLA+ definition of posix split/normpath for all short strings are validated the same way.',
    design_ref='4 (C13)',
    note='VPK version 1 only (the code cannot write version 2). Contents are identified by byte equality with what the '
         'harness supplied; CRC collisions are not modelled. Name spellings are concretised from a table of ASCII names '
         'with empty folder / name / extension parts; a name that is a single space is excluded (the format itself '
         'stores the empty string that way).',
)

CONFIGS = {
    # fname must be the FName of specs/Vpk_<id>_edges.cfg
    'L2': {'sz': [2, 3, 4], 'limit': 2, 'fname': 'pak01_dir.vpk'},
    'L0': {'sz': [1, 2, 3], 'limit': 0, 'fname': '_dir.vpk'},                   # empty prefix
    'LN': {'sz': [1, 65535, 65536], 'limit': -1, 'fname': 'x_dir_dir.vpk'},
    'S': {'sz': [1, 65535, 65536], 'limit': 2, 'fname': 'foo.vpk'},              # single file
    'LK': {'sz': [1024, 1025, 70000], 'limit': 1024, 'fname': 'pak01_dir.vpk'},
    'LH': {'sz': [65535, 65536, 300000], 'limit': 70000, 'fname': '_dir.vpk'},
}
SIMS = {'K': {'sz': [1024, 1025, 70000], 'limit': 1024, 'fname': 'x_dir_dir.vpk'},
        'H': {'sz': [65535, 65536, 300000], 'limit': 70000, 'fname': '_dir.vpk'}}
WANT_OPS = {'reopen', 'newfile', 'addfile', 'write', 'del', 'writedir'}


def _hist(recs: list, idx: int) -> list:
    """The calls since the last fresh start that lead to record idx (for the replay file)."""
    j = idx
    while recs[j].get('i', 1) > 1:
        j -= 1
    return [{'a': r['a'], 'synth': r.get('synth') or {}} for r in recs[j:idx + 1]]


def sig_of(m: dict, recs: list | None = None) -> dict:
    rec = m['rec']
    sig = dict(rec.get('sig', {}))
    sig['clause'] = m['clause']
    sig['expected'] = m['exp']
    if rec.get('k') == 'parts':
        sig['record'] = {'k': 'parts', 'form': rec['form'], 'v': rec['v'], 'got': rec['res']}
    else:
        sig['record'] = {'k': 'step', 'cfg': rec['cfg'], 'a': rec['a'], 'res': rec['res'], 'pre': rec['pre'],
                         'post': rec['post'], 'obs': rec['obs'],
                         'hist': _hist(recs, m['index']) if recs is not None else [{'a': rec['a'], 'synth': {}}]}
    return sig


def _edges_job(name: str, cfg: dict, work: core.Work, sample: int, seed: int, tier: str, names=('n1',)):
    edges, r = core.dump_edges('Vpk', f'Vpk_{name}_edges.cfg', timeout=1800)
    ops = {}
    for e in edges:
        k = e['a']['op'] + ':' + e['a']['res']
        ops[k] = ops.get(k, 0) + 1
    ef = work.path(f'edges_{name}.json')
    ef.write_text(json.dumps(edges))
    cf_ = work.path(f'cfg_{name}.json')
    cf_.write_text(json.dumps(dict(cfg, narch=2, names=list(names))))
    out = work.path(f'walk_{name}.ndjson')
    st = json.loads(core.run_driver('c13_driver.py', ['walk', ef, cf_, out, sample], timeout=2400,
                                    env={'VERIF_SEED': seed, 'VERIF_TIER': tier}).strip().splitlines()[-1])
    ef.unlink()
    return name, r, ops, st, out


def _sim_job(name: str, cfg: dict, work: core.Work, num: int, seed: int, tier: str):
    r = run_tlc('Vpk', f'Vpk_sim{name}.cfg', workers=1, simulate=f'num={num}', depth=14, seed=seed + 1, timeout=900)
    if not r.ok:
        raise MachineryError(f'simulation of Vpk_sim{name}.cfg: {r.errors}')
    behs = []
    last = None
    for p in r.prints:
        if isinstance(p, dict) and p.get('tag') == 'EDGE':
            if last is None or p['s'] != last:
                behs.append([])
            behs[-1].append(p['a'])
            last = p['t']
    behs = [b for b in behs if b]
    if not behs:
        raise MachineryError('TLC simulation produced no behaviour')
    bf = work.path(f'sim_{name}.json')
    bf.write_text(json.dumps(behs))
    cf_ = work.path(f'simcfg_{name}.json')
    cf_.write_text(json.dumps(dict(cfg, narch=2, names=['n1', 'n2', 'n3'])))
    out = work.path(f'sim_{name}.ndjson')
    core.run_driver('c13_driver.py', ['sim', bf, cf_, out], timeout=1800, env={'VERIF_SEED': seed, 'VERIF_TIER': tier})
    return name, len(behs), out


def run(tier: str, seed: int) -> int:
    t0 = time.time()
    work = core.Work()
    quick = tier == 'quick'
    try:
        cov = {'states': 0, 'transitions': 0, 'models': {}}
        pool = cf.ThreadPoolExecutor(max_workers=10)
        # 1. the design with two names (exhaustive), in the background
        mc_cfgs = ['Vpk_mc.cfg'] if quick else ['Vpk_mc.cfg', 'Vpk_mc_big.cfg', 'Vpk_mcS_big.cfg']
        mc_futs = {c: pool.submit(run_tlc, 'Vpk', c, workers=8, timeout=2400) for c in mc_cfgs}
        # 2. every transition of the one-name models, covered by walks on real archives
        sample = 2500 if quick else 0
        ejobs = [pool.submit(_edges_job, n, c, work, sample, seed, tier) for n, c in CONFIGS.items()]
        if not quick:
            # two names (contents 2 and 3, archive None / 0): a seeded sample of the 116k transitions
            ejobs.append(pool.submit(_edges_job, 'L2n2', CONFIGS['L2'], work, 20000, seed, tier, ('n1', 'n2')))
        # 3. TLC-simulated behaviours with three names and large contents; seeded random histories
        sjobs = [pool.submit(_sim_job, n, c, work, 40 if quick else 1500, seed, tier) for n, c in SIMS.items()]
        rnd_out = work.path('random.ndjson')
        rjob = pool.submit(core.run_driver, 'c13_driver.py', ['random', rnd_out], timeout=1800,
                           env={'VERIF_SEED': seed, 'VERIF_TIER': tier})
        recs = []
        model_ops: dict = {}
        walks = {}
        edge_total = 0
        for j in ejobs:
            name, r, ops, st, out = j.result()
            cov['models'][f'Vpk_{name}_edges.cfg'] = {'generated': r.generated, 'distinct': r.distinct, 'depth': r.depth}
            cov['states'] += r.distinct
            cov['transitions'] += r.generated
            edge_total += st['edges']
            walks[name] = st
            goal = st['edges'] if (not quick and name != 'L2n2') else min(st['edges'], 20000 if name == 'L2n2' else sample)
            if st['covered'] + st.get('unreachable', 0) != goal:
                raise MachineryError(f'coverage handshake {name}: covered {st["covered"]} + unreachable '
                                     f'{st.get("unreachable", 0)} != {goal} transitions to cover')
            for k, v in ops.items():
                model_ops[k] = model_ops.get(k, 0) + v
            recs.append(out)
        missing = WANT_OPS - {k.split(':')[0] for k in model_ops}
        if missing:
            raise MachineryError(f'vacuous model: actions never taken: {sorted(missing)}')
        sims = {}
        for j in sjobs:
            name, nb, out = j.result()
            sims[name] = nb
            recs.append(out)
        rjob.result()
        recs.append(rnd_out)
        # 4. TLC validates every record
        allsig = []
        total = 0
        samples = []
        impl_ops: dict = {}
        # one file, so that TLC is started 16 times and not 16 times per driver
        merged = work.path('all.ndjson')
        with open(merged, 'w', encoding='utf-8') as mf:
            for p in recs:
                with open(p, encoding='utf-8') as f:
                    for ln in f:
                        mf.write(ln)
                p.unlink()
        mism, st = core.validate_records('VpkTrace', 'VpkTrace.cfg', merged, work=work, timeout=2400)
        rs = core.read_ndjson(merged)
        allsig += [sig_of(m, rs) for m in mism]
        total += st['records']
        cov['states'] += st['states']
        cov['transitions'] += st['transitions']
        hows: dict = {}
        for r in rs:
            if r['k'] == 'step':
                k = r['a']['op'] + ':' + r['res']
                impl_ops[k] = impl_ops.get(k, 0) + 1
                hows[r['how']] = hows.get(r['how'], 0) + 1
            else:
                impl_ops['parts'] = impl_ops.get('parts', 0) + 1
        cov['records_by_source'] = hows
        for j in (len(rs) // 7, len(rs) // 3, len(rs) // 2, len(rs) - 1):
            samples.append({k: v for k, v in rs[j].items() if k in ('how', 'cfg', 'a', 'res', 'post', 'form', 'v')})
        del rs
        merged.unlink()
        for c, fut in mc_futs.items():
            r = fut.result()
            core.require_mc(r, c)
            cov['models'][c] = {'generated': r.generated, 'distinct': r.distinct, 'depth': r.depth}
            cov['states'] += r.distinct
            cov['transitions'] += r.generated
        pool.shutdown()
        cov['model_edges'] = edge_total
        cov['edges_replayed'] = sum(w['covered'] for w in walks.values())
        cov['walks'] = walks
        cov['simulated_behaviours'] = sims
        cov['actions_covered'] = model_ops
        cov['impl_calls_observed'] = impl_ops
        cov['traces_validated_against_impl'] = total
        cov['records_validated'] = total
        cov['mismatches'] = len(allsig)
        cov['samples'] = samples[:5]
        cov['exhaustive'] = not quick
        cov['rule'] = ('one covering walk per placement configuration over the transitions of the one-name model (a seeded '
                       'sample of 2500 transitions per configuration in the quick tier, all in the thorough tier plus 20000 of the two-name model; transitions '
                       'only reachable through steps the code does not follow are entered from states written by the '
                       'harness encoder, the rest is reported as unreachable); TLC-simulated behaviours (3 names, depth 14); '
                       'seeded random histories (2-4 names, sizes to 300 KiB, all limits, single and directory form); '
                       '_get_file_parts for every string of length <= 4 over {a . /} in the three spellings')
        known, new = core.classify(PROP, allsig)
        if not new:
            missing = WANT_OPS - {k.split(':')[0] for k in impl_ops}
            if missing or impl_ops.get('parts', 0) < 654:      # 121 strings + 169 pairs + 364 triples
                raise MachineryError(f'vacuous replay: calls never made: {sorted(missing)}')
        return core.finish(PROP, tier=tier, seed=seed, t0=t0, coverage=cov, known=known, new=new,
                           assumptions=['pure-Python srctools from /repo/src',
                                        'contents are identified by byte equality; CRC32 collisions between the supplied contents do not occur',
                                        'VPK version 1',
                                        'TLC 1.8 evaluates VpkOps correctly'])
    finally:
        work.cleanup()


def replay(path: str) -> int:
    work = core.Work()
    try:
        out = work.path('replay.ndjson')
        core.run_driver('c13_driver.py', ['replay', path, out])
        mism, _ = core.validate_records('VpkTrace', 'VpkTrace.cfg', out, work=work, shards=1)
        rs = core.read_ndjson(out)
        known, new = core.classify(PROP, [sig_of(m, rs) for m in mism])
        for s in new:
            print(f'VIOLATION property={PROP} replay={path} clause={s["clause"]}')
        if not new:
            print(f'OK replay={path}: no violation reproduced ({len(mism)} known)')
        return 1 if new else 0
    finally:
        work.cleanup()
