"""C10 - saving an unmodified BSP is lossless whichever lazily parsed lump views were looked at."""
from __future__ import annotations

import concurrent.futures as cf
import json
import os
import time

from vlib import core
from vlib.tlc import run_tlc

PROP = 'C10'

MANIFEST = dict(
    technique='TLA+ model (BspLazy) of raw lumps, parsed-view cache, Access with reader dependencies and save() as pop/write '
              'steps in LUMP_REBUILD_ORDER, with constants measured from the code on every run; TLC-selected access '
              'sequences replayed on real and synthesised BSP files; every logged save() validated by TLC (BspLazyTrace)',
    category='model_checking',
    text='The harness wraps ParsedLump.__get__/__set__ and BSP._save_funcs from its own process and measures, per test '
         'file, which views each reader and writer touches, which lumps a view empties, which lumps a writer sets and the '
         'rebuild order; these are the constants of the BspLazy specification. TLC checks on that model that after save() '
         'no lump is lost, the cache is empty, untouched lumps are unchanged, the cache depends only on the set of views '
         'asked for, and reports every deviation from the ordering conditions that make this true. TLC then enumerates the '
         'transition graph of the user phase (5440 distinct cache states); all single accesses, ordered pairs, shortest paths '
         'into distinct states and seeded walks are executed on tests/test_vec/rot_main.bsp and on BSPs synthesised by an '
         'independent encoder for every header layout (v19, v20, v21, L4D2 order, INFRA, Chaos v25, VitaminSource), with '
         'and without LZMA-compressed lumps and game lumps, and with header version words outside VERSIONS (upper 16 bits set, '
         'unknown small numbers): save; decode the written file with the independent decoder and compare magic, version word, map '
         'revision, per-lump version/compressed flag, game-lump flags/versions and untouched lump bytes with the INPUT file as '
         'decoded by the same decoder (not reader against reader); re-read, compare header, lump versions/flags, raw bytes and '
         'a structural projection of all 21 views with the original, save the same object again, save the result again, '
         'repeat the cycle. Each logged save() must be exactly the pop/access/write steps of the model.',
    design_ref='4 (C10)',
    note='Trusts TLC, the projection (vlib/bsplib.py) and the independent BSP synthesiser (vlib/bspsynth.py). LZMA is an '
         'opaque codec: compressed lumps are compared after decompression by the reader under test against the bytes the '
         'synthesiser compressed. Pure-Python tree only.',
)

ASSUMPTIONS = ['pure-Python srctools from /repo/src (Cython accelerators cannot be built here)',
               'the synthesised BSPs (vlib/bspsynth.py) are well-formed files of their layout',
               'parsed equality is judged on the structural projection of vlib/bsplib.py (cross references expanded, '
               'entity key order ignored)',
               'TLC 1.8 evaluates BspLazyOps correctly']


def sig_of(m: dict) -> dict:
    rec = m['rec']
    sig = dict(rec.get('sig', {}))
    sig['clause'] = m['clause']
    exp = m['exp'] if isinstance(m['exp'], dict) else {}
    sig['item'] = exp.get('item', '')
    sig['field'] = exp.get('field', '')
    sig['expected'] = m['exp']
    sig['record'] = {k: v for k, v in rec.items() if k not in ('sig', 'ev')}
    return sig


def diagnose(work: core.Work, gname: str, kpath, cov: dict) -> tuple[list, object]:
    """TLC evaluates the design conditions and the outcome of save() after every single access and every
    pair on the measured relations, and prints every deviation.  Returns their signatures and the constants
    file for the later runs, in which the reported deviations are excused (each one is already reported here,
    as known finding or as violation): the large runs then show that nothing ELSE goes wrong."""
    K = json.loads(kpath.read_text())
    K['excusedLumps'], K['excusedViews'] = [], []
    k0 = work.path(f'{gname}_diag.json')
    k0.write_text(json.dumps(K))
    r = run_tlc('BspLazy', 'BspLazy_diag.cfg', workers=1, heap='2g', env={'BSPLAZY_CONST': k0}, timeout=300)
    core.require_mc(r, f'BspLazy_diag.cfg[{gname}]')
    if not any(isinstance(p, dict) and p.get('tag') == 'DIAGDONE' for p in r.prints):
        raise core.MachineryError(f'diagnosis of {gname} did not complete')
    diags = [p for p in r.prints if isinstance(p, dict) and p.get('tag') == 'DIAG']
    sigs = [{'kind': 'model', 'action': 'save', 'clause': d['clause'], 'item': d['item'], 'field': d.get('dep', ''),
             'group': gname, 'witness': d.get('witness')} for d in diags]
    K['excusedLumps'] = sorted({s['item'] for s in sigs if s['clause'] == 'model.lossless'})
    K['excusedViews'] = sorted({s['item'] for s in sigs if s['clause'] == 'model.cacheEmpty'})
    k1 = work.path(f'{gname}_mc.json')
    k1.write_text(json.dumps(K))
    cov['model_deviations'][gname] = [[d['clause'], d['item'], d.get('dep', '')] for d in diags]
    cov['excused_in_mc'][gname] = {'lumps': K['excusedLumps'], 'views': K['excusedViews']}
    return sigs, k1


def validate(rec_path, kpath, work: core.Work, shards: int = 16) -> tuple[list, dict]:
    """Like core.validate_records, with the constants file of the group in the environment of every
    TLC shard (so the groups can be validated concurrently)."""
    with open(rec_path, encoding='utf-8') as f:
        lines = [ln for ln in f if ln.strip()]
    total = len(lines)
    if total == 0:
        raise core.MachineryError(f'no records to validate in {rec_path}')
    shards = max(1, min(shards, (total + 99) // 100))
    per = (total + shards - 1) // shards
    jobs = []
    for s in range(shards):
        chunk = lines[s * per:(s + 1) * per]
        if chunk:
            p = work.path(f'{rec_path.stem}.shard{s}.ndjson')
            p.write_text(''.join(chunk), encoding='utf-8')
            jobs.append((s * per, p, len(chunk)))

    def one(job):
        base, p, n = job
        return base, n, run_tlc('BspLazyTrace', 'BspLazyTrace.cfg', workers=1, heap='2g', timeout=1800,
                                env={'TRACE_FILE': str(p), 'BSPLAZY_CONST': str(kpath)})
    mism = []
    stats = {'states': 0, 'transitions': 0, 'records': total}
    with cf.ThreadPoolExecutor(max_workers=len(jobs)) as ex:
        for base, n, res in ex.map(one, jobs):
            if not res.ok:
                raise core.MachineryError(f'record validation did not consume all records: {res.errors}\n{res.raw[-3000:]}')
            if res.distinct != n + 1:
                raise core.MachineryError(f'BspLazyTrace: expected {n + 1} states, TLC found {res.distinct}')
            stats['states'] += res.distinct
            stats['transitions'] += res.generated
            for pr in res.prints:
                if isinstance(pr, dict) and pr.get('tag') == 'MISMATCH':
                    idx = base + pr['i'] - 1
                    mism.append({'index': idx, 'rec': json.loads(lines[idx]), 'clause': pr.get('clause'), 'exp': pr.get('exp')})
    mism.sort(key=lambda m: (m['index'], m['clause'], json.dumps(m['exp'], sort_keys=True)))
    return mism, stats


def run(tier: str, seed: int) -> int:
    t0 = time.time()
    work = core.Work()
    marks = []

    def mark(name: str) -> None:
        marks.append((name, round(time.time() - t0, 1)))
    try:
        cov = {'states': 0, 'transitions': 0, 'models': {}, 'model_deviations': {}, 'excused_in_mc': {}}
        env = {'VERIF_SEED': seed, 'VERIF_TIER': tier}
        # 1. test files + measured constants
        st = json.loads(core.run_driver('c10_driver.py', ['prepare', work.dir, tier], env=env).strip().splitlines()[-1])
        man = json.loads(work.path('manifest.json').read_text())
        groups = man['groups']
        cov['files'] = st['files']
        cov['constant_groups'] = {g['name']: g['files'] for g in groups}
        if st['files'] < 18 or not groups:
            raise core.MachineryError(f'prepare produced {st}')
        ref = groups[0]['name']     # the fully populated standard layouts
        mark('prepare')
        # 2. diagnosis of the measured relations of every distinct constant set
        model_sigs = []
        kfiles = {}
        pool = cf.ThreadPoolExecutor(max_workers=20)
        # (the transition graph of the user phase does not depend on what the diagnosis excuses: start it now)
        measured = [g['name'] for g in groups if not g.get('stub')]
        edges_job = None
        if measured:
            kref = work.path('ref_edges.json')
            Kr = json.loads(work.path(measured[0] + '.json').read_text())
            Kr['excusedLumps'], Kr['excusedViews'] = [], []
            kref.write_text(json.dumps(Kr))
            edges_job = pool.submit(run_tlc, 'BspLazy', 'BspLazy_edges.cfg', workers=1, env={'BSPLAZY_CONST': kref}, timeout=900)
        real_groups = [g for g in groups if not g.get('stub')]
        for g in groups:
            if g.get('stub'):       # the code could not be measured on these files: nothing to model, the scenarios report it
                K = json.loads(work.path(g['name'] + '.json').read_text())
                K['excusedLumps'], K['excusedViews'] = [], []
                kfiles[g['name']] = work.path(g['name'] + '_mc.json')
                kfiles[g['name']].write_text(json.dumps(K))
        if not real_groups:
            real_groups, ref = [], None
        elif groups[0].get('stub'):
            ref = real_groups[0]['name']
        for g, (sigs, k1) in zip(real_groups, pool.map(lambda g: diagnose(work, g['name'], work.path(g['name'] + '.json'), cov),
                                                       real_groups)):
            model_sigs += sigs
            kfiles[g['name']] = k1
        mark('diagnose')
        # 3. concurrently: model checking, the transition graph of the user phase -> replay on the files
        mc_jobs = []
        for g in real_groups:
            if g['name'] == ref:
                cfgs = ['BspLazy_mc.cfg'] if tier != 'thorough' else ['BspLazy_mc.cfg', 'BspLazy_all.cfg', 'BspLazy_full.cfg']
            else:
                cfgs = ['BspLazy_mc.cfg'] if tier == 'thorough' else []
            for cfg in cfgs:
                mc_jobs.append((cfg, g['name'], pool.submit(run_tlc, 'BspLazy', cfg, env={'BSPLAZY_CONST': kfiles[g['name']]},
                                                            workers=8, timeout=2400)))
        if edges_job is not None:
            r = edges_job.result()
            core.require_mc(r, 'BspLazy_edges.cfg')
            edges = [p for p in r.prints if isinstance(p, dict) and p.get('tag') == 'EDGE']
            if len(edges) != r.generated - 1 or not edges:
                raise core.MachineryError(f'BspLazy_edges.cfg: {len(edges)} edges printed for {r.generated} generated states')
            cov['model_cache_states'] = r.distinct
            cov['states'] += r.distinct
            cov['transitions'] += r.generated
            accessed = {e['a']['v'] for e in edges}
            if len(accessed) != 21:
                raise core.MachineryError(f'vacuous model: views never accessed: {accessed}')
        else:
            # the code under test could not read/save a single file: there are no relations to build a model from;
            # every view is requested once and every scenario reports the failure
            views = json.loads(work.path(groups[0]['name'] + '.json').read_text())['views']
            edges = [{'tag': 'EDGE', 's': [], 'a': {'op': 'access', 'v': v}, 't': [v]} for v in views]
            cov['edges_fallback'] = True
        cov['model_edges'] = len(edges)
        ef = work.path('edges.json')
        ef.write_text(json.dumps(edges))
        mark('edges')
        # 4. replay on the files, one driver process per (file, part)
        njobs = sum(spec['parts'] for spec in man['files'])
        outs = [work.path(f'run{n}.ndjson') for n in range(njobs)]

        def one(n: int) -> dict:
            out = core.run_driver('c10_driver.py', ['run', work.dir, n, ef, outs[n]], env=env, timeout=3000)
            return json.loads(out.strip().splitlines()[-1])
        scen = 0
        seen_files = set()
        slow = []
        for stt in pool.map(one, range(njobs)):
            scen += stt['scenarios']
            seen_files.add(stt['file'])
            slow.append((stt['wall_s'], stt['file'], stt['part'], stt['scenarios']))
        cov['slowest_jobs'] = sorted(slow, reverse=True)[:4]
        if len(seen_files) != st['files']:
            raise core.MachineryError(f'files without scenarios: {st["files"] - len(seen_files)}')
        cov['scenarios'] = scen
        mark('replay')
        # 5. TLC validates every record against the constants measured on its own file
        by_group: dict = {g['name']: [] for g in groups}
        samples = []
        srcs: dict = {}
        for p in outs:
            recs = core.read_ndjson(p)
            if not recs:
                raise core.MachineryError(f'no records in {p}')
            for rec in recs:
                by_group[rec['group']].append(rec)
                srcs[rec['sig']['src']] = srcs.get(rec['sig']['src'], 0) + 1
            mid = recs[len(recs) // 2]
            samples.append({'file': mid['file'], 'acc': mid['acc'], 'cacheAfterAccess': mid['cacheAfterAccess'],
                            'pops': [e[1] for e in mid['ev'] if e[0] == 'pop'], 'changed': mid['changed'],
                            'viewDiff': mid['viewDiff'][:4]})
        for need in ('none', 'single') if cov.get('edges_fallback') else ('none', 'single', 'pair', 'state', 'walk'):
            if not srcs.get(need):
                raise core.MachineryError(f'no scenario of kind {need} was executed')
        vjobs = []
        for gname, recs in by_group.items():
            if not recs:
                raise core.MachineryError(f'no scenario for constant group {gname}')
            rp = work.path(f'recs_{gname}.ndjson')
            with open(rp, 'w') as f:
                for rec in recs:
                    f.write(json.dumps(rec, separators=(',', ':')) + '\n')
            vjobs.append(pool.submit(validate, rp, kfiles[gname], work))
        allm = []
        total = 0
        for fut in vjobs:
            mism, stv = fut.result()
            allm += mism
            total += stv['records']
            cov['states'] += stv['states']
            cov['transitions'] += stv['transitions']
        mark('validate')
        for cfg, gname, fut in mc_jobs:
            r = fut.result()
            if not r.ok and r.violated:
                # the design conditions fail on the measured relations in a way the diagnosis did not already
                # report and excuse: a violation, with TLC's counterexample in the evidence
                for name in sorted(set(r.violated)):
                    model_sigs.append({'kind': 'model', 'action': 'save', 'clause': 'model.mc', 'item': name or 'property',
                                       'field': cfg, 'group': gname, 'trace': r.raw[-6000:]})
                continue
            core.require_mc(r, f'{cfg}[{gname}]')
            cov['models'][f'{cfg}[{gname}]'] = {'generated': r.generated, 'distinct': r.distinct, 'depth': r.depth}
            cov['states'] += r.distinct
            cov['transitions'] += r.generated
        pool.shutdown()
        mark('mc')
        cov['stage_s'] = marks
        cov['traces_validated_against_impl'] = total
        cov['records_validated'] = total
        cov['scenario_kinds'] = srcs
        cov['mismatches'] = len(allm) + len(model_sigs)
        cov['samples'] = samples[:6]
        cov['exhaustive'] = tier == 'thorough'
        cov['rule'] = ('model: all histories of <= 3 distinct accesses with 2 save cycles (quick) / all closed cache states and '
                       'all 2^21 access sets (thorough) on the measured constants; files: every single access, ordered pairs, '
                       'shortest paths into distinct cache states (thorough: all 5440 on v20, l4d2, chaos, vitamin, 1200 sampled on '
                       'the other uncompressed files) and seeded walks, on every layout x compression')
        sigs = model_sigs + [sig_of(m) for m in allm]
        dump = os.environ.get('C10_DUMP')
        if dump:
            with open(dump, 'w') as f:
                json.dump([{k: v for k, v in s.items() if k != 'record'} | {'acc': s.get('record', {}).get('acc'),
                                                                            'file': s.get('record', {}).get('file')}
                           for s in sigs], f)
        known, new = core.classify(PROP, sigs)
        return core.finish(PROP, tier=tier, seed=seed, t0=t0, coverage=cov, known=known, new=new, assumptions=ASSUMPTIONS)
    finally:
        work.cleanup()


def replay(path: str) -> int:
    """Rebuild the file of a replay record, run its access sequence on the current tree, let TLC judge it again."""
    work = core.Work()
    try:
        rp = json.loads(open(path).read())
        if rp.get('kind') == 'model':
            print(f'replay of a model-level deviation: re-run ./check {PROP} (the constants are measured from the code)')
            return run('quick', 0)
        out = work.path('replay.ndjson')
        core.run_driver('c10_driver.py', ['replay', path, work.dir, out])
        K = json.loads(work.path('K.json').read_text())
        K['excusedLumps'], K['excusedViews'] = [], []
        kp = work.path('Kx.json')
        kp.write_text(json.dumps(K))
        mism, _ = validate(out, kp, work, shards=1)
        known, new = core.classify(PROP, [sig_of(m) for m in mism])
        for s in new:
            print(f'VIOLATION property={PROP} replay={path} clause={s["clause"]} item={s["item"]} field={s["field"]}')
        if not new:
            print(f'OK replay={path}: no violation reproduced ({len(mism)} known)')
        return 1 if new else 0
    finally:
        work.cleanup()
