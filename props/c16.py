"""C16 - FGD definitions survive text export, the binary database, and lazy loading."""
from __future__ import annotations

import concurrent.futures as cf
import itertools
import json
import os
import time
from pathlib import Path

from vlib import core
from vlib.tlc import MachineryError, run_tlc

PROP = 'C16'

MANIFEST = dict(
    technique='TLA+ models FgdDb (lazy binary database) and FgdDoc (text format: exact export text, read-back, long-string splitting, binary decay) checked by TLC; model transitions and TLC-simulated query orders replayed on real EngineDB objects; implementation records validated by TLC (FgdDbTrace, FgdDocTrace)',
    category='model_checking',
    text='TLC exhausts the lazy-database design on small block layouts (mutually dependent blocks, in-block and chained bases, an overriding second database) with parse-once, stable-identity and same-as-full-load invariants, and checks the same invariants along simulated query orders over the block structure read from the real fgd.lzma; every transition / behaviour is replayed through engine_def()/engine_dbase() on freshly unserialised databases (the small layouts serialised by the real serialise()) and each step - which objects are created in which order, identities, resolved bases, definition hashes, full state snapshots - must be the step FgdDbOps takes. For the text format TLC enumerates ~27k (definition, options) feature combinations and all strings <= 7 over an escape-relevant alphabet for the long-string law; every combination is built through the API, exported, parsed and re-exported, and TLC requires the text to equal ExportLines line by line, the parsed definition to equal ExportParse field by field, and the second text to equal the first; the same for seeded random definitions, _write_longstring at LIMIT=1000, the whole bundled database as one file (order, concatenation, per-entity text and definition) and the binary serialise/unserialise round trip.',
    design_ref='4 (C16)',
    note='Trusts TLC, the projection (proj_ent, identity tokens from wrapping ent_unserialise) and the real Tokenizer (C03). Alphabet without \\v \\b \\a. The autovis() helper (a parse-time convenience that turns into @AutoVisgroup entries) and snippets are not covered. Pure-Python tree only.',
)

STACK = '-Xss512m -XX:ParallelGCThreads=3 -XX:CICompilerCount=2'


# ------------------------------------------------------------------ classification of TLC's mismatches
def _text_cause(exp_line: str, got_line: str) -> str:
    """Which documented deviation(s) of the writer turn the expected line into the written one."""
    trans = [
        ('empty_string', lambda e: e.replace(' : ""', ' : ').replace(': ""', ': ')),
        ('unescaped', lambda e: e.replace('\\', '').replace("''", '"')),
    ]
    norm_got = {False: got_line, True: got_line.replace('\\', '').replace("''", '"')}
    for n in range(0, len(trans) + 1):
        for combo in itertools.combinations(trans, n):
            e = exp_line
            for _, fn in combo:
                e = fn(e)
            if e == norm_got[any(name == 'unescaped' for name, _ in combo)]:
                return '+'.join(name for name, _ in combo) or 'none'
    return 'other'


SPECIAL = set('"\\\n\t\r\f\'')


def _ent_triggers(orig: dict, cs: bool) -> list[str]:
    """Features of a definition that are known to make the written text unreadable or misread."""
    trig = set()
    for kv in orig['kvs']:
        flags = kv['type'] == 'flags' and not kv['custom']
        boolean = kv['type'] == 'boolean' and not kv['custom']
        if not flags and kv['disp'] == '' and kv['desc'] == '' and (kv['def'] == '' and not boolean):
            trig.add('empty_string')      # "name(type) : " with nothing after it
        if kv['def'] and set(kv['def']) & {'"', '\\'}:
            trig.add('unescaped')
        for it in kv['list']:
            if not flags and it['n'] == '':
                trig.add('empty_string')
            if 'v' in it and set(it['v']) & {'"', '\\'}:
                trig.add('unescaped')
    if any(r['type'] in ('SOUNDSCRIPT', 'PARTICLE_FILE') for r in orig['res']):
        trig.add('resource_keyword')
    return sorted(trig)


def sig_of(m: dict) -> dict:
    rec = m['rec']
    sig = dict(rec.get('sig', {}))
    clause = m['clause']
    sig['clause'] = clause
    exp = m['exp']
    if isinstance(exp, str):
        try:
            exp = json.loads(exp)
        except ValueError:
            pass
    sig['expected'] = exp
    cause = ''
    if rec.get('k') == 'ent':
        trig = _ent_triggers(rec['orig'], rec['opts']['cs'])
        if clause == 'doc.text' and isinstance(exp, dict):
            got = rec['lines'][exp['line'] - 1] if exp['line'] <= len(rec['lines']) else '<end>'
            cause = _text_cause(exp['text'], got)
            sig['got'] = got
        elif clause == 'doc.export':
            cause = '+'.join(t for t in trig if t == 'resource_keyword') or 'none'
        elif clause in ('doc.parse', 'doc.reexport') or clause.startswith('doc.parsed'):
            # a parse that fails or goes astray: attributed to the triggers the definition carries
            cause = '+'.join(t for t in trig if t != 'resource_keyword') or 'none'
    elif rec.get('k') == 'long':
        text = rec['text']
        if text == '':
            cause = 'empty_string'
        else:
            # does a section written by the code end in an odd run of backslashes (an escape cut in two)?
            cut = False
            for sec in rec['secs'][:-1]:
                run = len(sec) - len(sec.rstrip('\\'))
                if run % 2 == 1:
                    cut = True
            cause = 'escape_cut' if cut else 'none'
    elif rec.get('k') == 'file':
        if clause == 'file.parse':
            near = rec.get('near') or ['']
            cause = 'empty_string' if near and near[0].rstrip(' ').endswith(') :') else 'none'
    elif rec.get('k') == 'bin':
        cause = rec.get('sig', {}).get('src', '')
    sig['cause'] = cause
    sig['group'] = '.'.join(clause.split('.')[:2])
    keep = {k: v for k, v in rec.items() if k not in ('sig', 'parsed', 'got', 'snap', 'defs', 'order')}
    if 'lines' in keep and len(keep['lines']) > 60:
        keep['lines'] = keep['lines'][:60]
    sig['record'] = keep
    return sig


# ------------------------------------------------------------------ TLC helpers
class Env:
    """JVM stack for the recursive operators and the constants file, for every TLC started below."""
    def __init__(self, **extra) -> None:
        self.extra = {'JDK_JAVA_OPTIONS': STACK, **{k: str(v) for k, v in extra.items()}}
        self.old: dict = {}

    def __enter__(self):
        for k, v in self.extra.items():
            self.old[k] = os.environ.get(k)
            os.environ[k] = v
        return self

    def __exit__(self, *a):
        for k, v in self.old.items():
            if v is None:
                os.environ.pop(k, None)
            else:
                os.environ[k] = v


def validate_traces(path, work: core.Work, cov: dict, parts: int = 12) -> list:
    """FgdDbTrace keeps state along a trace, so the file is cut at 'open' records only."""
    lines = [ln for ln in open(path, encoding='utf-8') if ln.strip()]
    if not lines:
        raise MachineryError(f'no records in {path}')
    starts = [i for i, ln in enumerate(lines) if ln.startswith('{"k":"open"')]
    if not starts or starts[0] != 0:
        raise MachineryError(f'{path} does not start with an open record')
    per = max(1, (len(starts) + parts - 1) // parts)
    cuts = [starts[i] for i in range(0, len(starts), per)] + [len(lines)]
    files = []
    for n, (a, b) in enumerate(zip(cuts, cuts[1:])):
        p = work.path(f'{Path(path).stem}.part{n}.ndjson')
        p.write_text(''.join(lines[a:b]), encoding='utf-8')
        files.append((a, p))

    def one(job):
        base, p = job
        mism, st = core.validate_records('FgdDbTrace', 'FgdDbTrace.cfg', p, work=work, shards=1)
        for m in mism:
            m['index'] += base
        return mism, st
    out = []
    with cf.ThreadPoolExecutor(max_workers=min(12, len(files))) as ex:
        for mism, st in ex.map(one, files):
            out += mism
            cov['states'] += st['states']
            cov['transitions'] += st['transitions']
            cov['records_validated'] += st['records']
    return out


def validate_doc(path, work: core.Work, cov: dict) -> list:
    mism, st = core.validate_records('FgdDocTrace', 'FgdDocTrace.cfg', path, work=work)
    cov['states'] += st['states']
    cov['transitions'] += st['transitions']
    cov['records_validated'] += st['records']
    return mism


def sample(path) -> dict:
    rs = core.read_ndjson(path)
    r = rs[len(rs) // 2]
    out = {}
    for k, v in r.items():
        if k in ('snap', 'defs', 'order', 'parsed', 'got', 'model_dbs', 'dbs'):
            continue
        if k == 'lines':
            v = v[:12]
        if k == 'orig':
            v = {kk: vv for kk, vv in v.items() if kk in ('cls', 'kind', 'bases', 'alias')}
        if k in ('text', 'back') and isinstance(v, str):
            v = v[:80]
        if k == 'secs':
            v = [s[:40] for s in v]
        out[k] = v
    return out


def run(tier: str, seed: int) -> int:
    t0 = time.time()
    work = core.Work()
    thorough = tier == 'thorough'
    env = {'VERIF_SEED': seed, 'VERIF_TIER': tier}
    try:
        cov = {'states': 0, 'transitions': 0, 'records_validated': 0, 'models': {}, 'samples': [], 'timing_s': {}}
        allm: list = []
        last = [time.time()]

        def lap(name: str) -> None:
            now = time.time()
            cov['timing_s'][name] = round(cov['timing_s'].get(name, 0) + now - last[0], 1)
            last[0] = now
        # ---- 0. constants of the run: the real database's block structure
        real = work.path('real_db.json')
        info = json.loads(core.run_driver('c16_driver.py', ['dbdesc', real], env=env).strip().splitlines()[-1])
        cov['bundled_database'] = info
        # development aid: C16_STAGES=db,doc,beyond restricts a run to some stages (default: all)
        stages = set((os.environ.get('C16_STAGES') or 'db,doc,beyond').split(','))
        traces = 0
        with Env(FGD_DB_FILE=real):
          if 'db' in stages:
              # ---- 1. the lazy database design: exhaustive on small layouts, every edge replayed
              actions: dict = {}
              for name in ('Cyc', 'Chain', 'Two'):
                  cfg = f'FgdDb{name}_edges.cfg'
                  r = run_tlc('FgdDb', cfg, workers=1)
                  core.require_mc(r, cfg)
                  edges = [p for p in r.prints if isinstance(p, dict) and p.get('tag') == 'EDGE']
                  dbs = [p for p in r.prints if isinstance(p, dict) and p.get('tag') == 'DBS']
                  if len(edges) != r.generated - 1 or len(dbs) != 1:
                      raise MachineryError(f'{cfg}: {len(edges)} edges for {r.generated} generated states')
                  for e in edges:
                      actions[e['a']['op']] = actions.get(e['a']['op'], 0) + 1
                  cov['models'][cfg] = {'generated': r.generated, 'distinct': r.distinct, 'depth': r.depth}
                  cov['states'] += r.distinct
                  cov['transitions'] += r.generated
                  ef = work.path(cfg + '.json')
                  ef.write_text(json.dumps({'dbs': dbs[0]['dbs'], 'edges': edges}))
                  out = work.path(cfg + '.ndjson')
                  st = json.loads(core.run_driver('c16_driver.py', ['dbedges', ef, out], env=env).strip().splitlines()[-1])
                  cov['edges_replayed'] = cov.get('edges_replayed', 0) + st['edges_replayed']
                  allm += validate_traces(out, work, cov, parts=4)
                  cov['samples'].append(sample(out))
              lap('db_edges')
              if not {'query', 'missing', 'loadall'} <= set(actions):
                  raise MachineryError(f'vacuous FgdDb model: actions taken {actions}')
              cov['actions_covered'] = actions
              # ---- 2. TLC-simulated query orders over the real block structure
              nbeh = 48 if thorough else 10
              r = run_tlc('FgdDbSim', 'FgdDbSim.cfg', workers=4, simulate=f'num={nbeh}', depth=31, seed=seed + 1,
                          timeout=1200)
              core.require_mc(r, 'FgdDbSim.cfg')
              behs = [p['h'] for p in r.prints if isinstance(p, dict) and p.get('tag') == 'BEH']
              if len(behs) < nbeh // 2:
                  raise MachineryError(f'simulation produced {len(behs)} behaviours')
              ops = {a['op'] for h in behs for a in h}
              if not {'query', 'missing'} <= ops:
                  raise MachineryError(f'simulated behaviours lack actions: {ops}')
              lap('db_sim_tlc')
              cov['simulated_behaviours'] = len(behs)
              cov['transitions'] += sum(len(h) for h in behs)
              cov['states'] += sum(len(h) for h in behs)
              bf = work.path('behs.json')
              bf.write_text(json.dumps(behs))
              out = work.path('dbsim.ndjson')
              core.run_driver('c16_driver.py', ['dbsim', bf, out], env=env)
              allm += validate_traces(out, work, cov)
              cov['samples'].append(sample(out))
              lap('db_sim_replay')
              out = work.path('dbsingles.ndjson')
              st = json.loads(core.run_driver('c16_driver.py', ['dbsingles', real, out], env=env).strip().splitlines()[-1])
              cov['single_query_databases'] = st['singles']
              allm += validate_traces(out, work, cov)
              traces += cov.get('edges_replayed', 0) + len(behs) + st['singles']
              lap('db_singles')
          if 'doc' in stages:
              # ---- 3. the text format: design theorems, every enumerated case through the real code
              tcfg = 'FgdDoc_text_mc.cfg' if thorough else 'FgdDoc_text6_mc.cfg'
              r = run_tlc('FgdDoc', tcfg, workers=8)
              core.require_mc(r, tcfg)
              cov['models'][tcfg] = {'generated': r.generated, 'distinct': r.distinct, 'depth': r.depth}
              cov['states'] += r.distinct
              cov['transitions'] += r.generated
              lap('doc_text_mc')
              ncases = 0
              for sl in ('res', 'io', 'header', 'kv'):
                  cfg = f'FgdDoc_{sl}_edges.cfg'
                  r = run_tlc('FgdDoc', cfg, workers=8)
                  core.require_mc(r, cfg)
                  cases = [p for p in r.prints if isinstance(p, dict) and p.get('tag') == 'CASE']
                  if len(cases) * 4 != r.distinct:    # built, exported, parsed, reexported per case
                      raise MachineryError(f'{cfg}: {len(cases)} cases printed for {r.distinct} states')
                  cov['models'][cfg] = {'generated': r.generated, 'distinct': r.distinct, 'depth': r.depth, 'cases': len(cases)}
                  cov['states'] += r.distinct
                  cov['transitions'] += r.generated
                  if not thorough and sl == 'kv':
                      # quick: every third case of the largest family (seed-rotated); thorough: all
                      cases = cases[seed % 3::3]
                  if not thorough and sl == 'header':
                      cases = cases[seed % 2::2]
                  cf_ = work.path(f'cases_{sl}.json')
                  cf_.write_text(json.dumps(cases))
                  out = work.path(f'cases_{sl}.ndjson')
                  st = json.loads(core.run_driver('c16_driver.py', ['doccases', cf_, out], env=env).strip().splitlines()[-1])
                  if st['cases'] != len(cases):
                      raise MachineryError(f'{cfg}: driver ran {st["cases"]} of {len(cases)} cases')
                  ncases += st['cases']
                  allm += validate_doc(out, work, cov)
                  cov['samples'].append(sample(out))
                  lap('doc_cases_' + sl)
              cov['cases_replayed'] = ncases
              traces += ncases
          if 'beyond' in stages:
              # ---- 4. beyond the bounds: random definitions, long strings, the bundled database, binary
              for mode in ('docrandom', 'long', 'bundled', 'binary'):
                  out = work.path(mode + '.ndjson')
                  st = json.loads(core.run_driver('c16_driver.py', [mode, out], env=env).strip().splitlines()[-1])
                  cov[mode + '_records'] = st['records']
                  allm += validate_doc(out, work, cov)
                  cov['samples'].append(sample(out))
                  traces += st['records']
                  lap(mode)
        cov['traces_validated_against_impl'] = traces
        cov['mismatches'] = len(allm)
        cov['exhaustive'] = True
        cov['rule'] = ('every transition of the three small FgdDb layouts replayed by its shortest path on databases written '
                       'by the real serialise(); TLC-simulated query orders (depth 30) and single queries on the real fgd.lzma; '
                       'every (definition, options) case of the four FgdDoc families (quick: a third of the keyvalue family); '
                       'seeded random definitions, long strings at LIMIT=1000, the bundled database as one file, binary round trip')
        sigs = [sig_of(m) for m in allm]
        known, new = core.classify(PROP, sigs)
        return core.finish(PROP, tier=tier, seed=seed, t0=t0, coverage=cov, known=known, new=new,
                           assumptions=['pure-Python srctools from /repo/src (Cython accelerators cannot be built here)',
                                        'identity of definition objects observed by wrapping _engine_db.ent_unserialise from the harness process',
                                        'the real Tokenizer is used to parse (its own correctness is C03)',
                                        'TLC 1.8 evaluates FgdDbOps / FgdDocOps correctly (string operators \\o, Len, SubSeq on strings)'])
    finally:
        work.cleanup()


def replay(path: str) -> int:
    work = core.Work()
    try:
        rp = json.load(open(path))
        rec = rp['record']
        out = work.path('replay.ndjson')
        cov = {'states': 0, 'transitions': 0, 'records_validated': 0}
        if rec.get('k') in ('step', 'open'):
            real = work.path('real_db.json')
            core.run_driver('c16_driver.py', ['dbdesc', real])
            core.run_driver('c16_driver.py', ['dbreplay', path, out])
            with Env(FGD_DB_FILE=real):
                mism = validate_traces(out, work, cov, parts=1)
        else:
            core.run_driver('c16_driver.py', ['docreplay', path, out])
            with Env():
                mism = validate_doc(out, work, cov)
        known, new = core.classify(PROP, [sig_of(m) for m in mism])
        for s in new:
            print(f'VIOLATION property={PROP} replay={path} clause={s["clause"]}')
        if not new:
            print(f'OK replay={path}: no violation reproduced ({len(mism)} known)')
        return 1 if new else 0
    finally:
        work.cleanup()
