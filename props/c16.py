"""C16 - FGD definitions survive text export, the binary database, and lazy loading."""
from __future__ import annotations

import concurrent.futures as cf
import itertools
import re
import json
import os
import time
from pathlib import Path

from vlib import core
from vlib.tlc import MachineryError, run_tlc

PROP = 'C16'

MANIFEST = dict(
    technique='TLA+ models FgdDb (lazy binary database) and FgdDoc (text format: exact export text, read-back, long-string splitting, binary decay) checked by TLC; model transitions and TLC-simulated query orders replayed on real EngineDB objects; implementation records validated by TLC (FgdDbTrace, FgdDocTrace)',
    category='model_checking',
    text='TLC exhausts the lazy-database design on small block layouts (mutually dependent blocks, in-block and chained bases, an overriding second database) with parse-once, stable-identity and same-as-full-load invariants, and checks the same invariants along simulated query orders over the block structure read from the real fgd.lzma; every transition / behaviour is replayed through engine_def()/engine_dbase() on freshly unserialised databases (the small layouts serialised by the real serialise()) and each step - which objects are created in which order, identities, resolved bases, definition hashes, full state snapshots - must be the step FgdDbOps takes. For the text format TLC enumerates ~28.5k (definition, options) feature combinations (including number-like defaults and choice values: which may be written without quotes) and all strings <= 7 over an escape-relevant alphabet for the long-string law; every combination is built through the API, exported, parsed and re-exported, and TLC requires the text to equal ExportLines line by line, the parsed definition to equal ExportParse field by field, and the second text to equal the first; the same for seeded random definitions, _write_longstring at LIMIT=1000, the whole bundled database as one file (order, concatenation, per-entity text and definition) and the binary serialise/unserialise round trip: ~890 enumerated engine-format definitions (empty / non-empty caption and default, flags, every value type, mixed-case keys, I/O, unset / empty / tagged resources) compared after lazy and whole loading with the ORIGINAL definitions up to BinDecay, what the format cannot hold refused, every entity present.',
    design_ref='4 (C16)',
    note='Trusts TLC, the projection (proj_ent, identity tokens from wrapping ent_unserialise) and the real Tokenizer (C03). Alphabet without \\v \\b \\a. The autovis() helper (a parse-time convenience that turns into @AutoVisgroup entries) and snippets are not covered. Pure-Python tree only.',
)

STACK = '-Xss512m -XX:ParallelGCThreads=3 -XX:CICompilerCount=2'


# ------------------------------------------------------------------ classification of TLC's mismatches
def _text_cause(exp_line: str, got_line: str) -> str:
    """Which documented deviation(s) of the writer turn the expected line into the written one."""
    trans = [
        ('empty_string', lambda e: e.replace(' : ""', ' : ').replace(': ""', ': ')),
        ('unescaped', lambda e: e.replace('\\', '').replace("''", '"')),
        # a choice value the specification quotes, written bare (blanks around it are lost on the way)
        ('choice_bare', lambda e: re.sub(r'^\t\t"(?:\\[tnrf]|\s)*([^"]*?)(?:\\[tnrf]|\s)*":', r'\t\t\1:', e)),
    ]
    norm_got = {False: re.sub(r'^\t\t\s*(\S*)\s*:', r'\t\t\1:', got_line) if got_line.startswith('\t\t') else got_line,
                True: got_line.replace('\\', '').replace("''", '"')}
    for n in range(0, len(trans) + 1):
        for combo in itertools.combinations(trans, n):
            e = exp_line
            for _, fn in combo:
                e = fn(e)
            if e == norm_got[any(name == 'unescaped' for name, _ in combo)]:
                return '+'.join(name for name, _ in combo) or 'none'
    return 'other'


def _floatable(v: str) -> bool:
    try:
        float(v)
    except ValueError:
        return False
    return True


SPECIAL = set('"\\\n\t\r\f\'')


def _ent_triggers(orig: dict, cs: bool) -> list[str]:
    """Features of a definition that are known to make the written text unreadable or misread."""
    trig = set()
    for kv in orig['kvs']:
        flags = kv['type'] == 'flags' and not kv['custom']
        boolean = kv['type'] == 'boolean' and not kv['custom']
        if not flags and kv['disp'] == '' and kv['desc'] == '' and (kv['def'] == '' and not boolean):
            trig.add('empty_string')      # "name(type) : " with nothing after it
        if kv['def'] and set(kv['def']) & {'"', '\\'}:
            trig.add('unescaped')
        for it in kv['list']:
            if not flags and it['n'] == '':
                trig.add('empty_string')
            if 'v' in it and set(it['v']) & {'"', '\\'}:
                trig.add('unescaped')
            if 'v' in it and _floatable(it['v']) and (it['v'] != it['v'].strip() or '+' in it['v']):
                trig.add('choice_bare')     # written without quotes although the token cannot carry it
    if not cs:
        texts = [orig['desc']] + [t for kv in orig['kvs'] for t in (kv['disp'], kv['def'], kv['desc'])] \
            + [it['n'] for kv in orig['kvs'] for it in kv['list']] + [io_['desc'] for io_ in orig['ins'] + orig['outs']]
        if any('\\' in t for t in texts):
            trig.add('plain_backslash')     # the original syntax has no escape for a backslash
    if any(r['type'] in ('SOUNDSCRIPT', 'PARTICLE_FILE') for r in orig['res']):
        trig.add('resource_keyword')
    return sorted(trig)


def sig_of(m: dict) -> dict:
    rec = m['rec']
    sig = dict(rec.get('sig', {}))
    clause = m['clause']
    sig['clause'] = clause
    exp = m['exp']
    if isinstance(exp, str):
        try:
            exp = json.loads(exp)
        except ValueError:
            pass
    sig['expected'] = exp
    cause = ''
    if rec.get('k') == 'ent':
        trig = _ent_triggers(rec['orig'], rec['opts']['cs'])
        if clause == 'doc.text' and isinstance(exp, dict):
            got = rec['lines'][exp['line'] - 1] if exp['line'] <= len(rec['lines']) else '<end>'
            cause = _text_cause(exp['text'], got)
            sig['got'] = got
        elif clause == 'doc.export':
            cause = '+'.join(t for t in trig if t == 'resource_keyword') or 'none'
        elif clause in ('doc.parse', 'doc.reexport') or clause.startswith('doc.parsed'):
            # a parse that fails or goes astray: attributed to the triggers the definition carries
            cause = '+'.join(t for t in trig if t != 'resource_keyword') or 'none'
    elif rec.get('k') == 'long':
        text = rec['text']
        if text == '':
            cause = 'empty_string'
        else:
            # does a section written by the code end in an odd run of backslashes (an escape cut in two)?
            cut = False
            for sec in rec['secs'][:-1]:
                run = len(sec) - len(sec.rstrip('\\'))
                if run % 2 == 1:
                    cut = True
            cause = 'escape_cut' if cut else 'none'
    elif rec.get('k') == 'file':
        if clause == 'file.parse':
            near = rec.get('near') or ['']
            cause = 'empty_string' if near and near[0].rstrip(' ').endswith(') :') else 'none'
        elif rec.get('step') == 'generations' and rec.get('mode') == 'names':
            cause = 'bases_by_name'
    elif rec.get('k') == 'bin':
        cause = rec.get('sig', {}).get('src', '')
    elif rec.get('k') == 'binset':
        # entities handed to serialise() that are simply not in the database that comes back
        cause = 'overflow_dropped' if clause == 'bin.classes' and not rec.get('err') and set(rec['got']) < set(rec['want']) else 'none'
    sig['cause'] = cause
    sig['group'] = '.'.join(clause.split('.')[:2])
    keep = {k: v for k, v in rec.items() if k not in ('sig', 'parsed', 'got', 'snap', 'defs', 'order', 'blocks1', 'blocks2')}
    if 'lines' in keep and len(keep['lines']) > 60:
        keep['lines'] = keep['lines'][:60]
    sig['record'] = keep
    return sig


# ------------------------------------------------------------------ TLC helpers
class Env:
    """JVM stack for the recursive operators and the constants file, for every TLC started below."""
    def __init__(self, **extra) -> None:
        self.extra = {'JDK_JAVA_OPTIONS': STACK, **{k: str(v) for k, v in extra.items()}}
        self.old: dict = {}

    def __enter__(self):
        for k, v in self.extra.items():
            self.old[k] = os.environ.get(k)
            os.environ[k] = v
        return self

    def __exit__(self, *a):
        for k, v in self.old.items():
            if v is None:
                os.environ.pop(k, None)
            else:
                os.environ[k] = v


def validate_traces(path, work: core.Work, cov: dict, parts: int = 12) -> list:
    """FgdDbTrace keeps state along a trace, so the file is cut at 'open' records only."""
    lines = [ln for ln in open(path, encoding='utf-8') if ln.strip()]
    if not lines:
        raise MachineryError(f'no records in {path}')
    starts = [i for i, ln in enumerate(lines) if ln.startswith('{"k":"open"')]
    if not starts or starts[0] != 0:
        raise MachineryError(f'{path} does not start with an open record')
    per = max(1, (len(starts) + parts - 1) // parts)
    cuts = [starts[i] for i in range(0, len(starts), per)] + [len(lines)]
    files = []
    for n, (a, b) in enumerate(zip(cuts, cuts[1:])):
        p = work.path(f'{Path(path).stem}.part{n}.ndjson')
        p.write_text(''.join(lines[a:b]), encoding='utf-8')
        files.append((a, p))

    def one(job):
        base, p = job
        mism, st = core.validate_records('FgdDbTrace', 'FgdDbTrace.cfg', p, work=work, shards=1)
        for m in mism:
            m['index'] += base
        return mism, st
    out = []
    with cf.ThreadPoolExecutor(max_workers=min(12, len(files))) as ex:
        for mism, st in ex.map(one, files):
            out += mism
            cov['states'] += st['states']
            cov['transitions'] += st['transitions']
            cov['records_validated'] += st['records']
    return out


def validate_doc(path, work: core.Work, cov: dict) -> list:
    mism, st = core.validate_records('FgdDocTrace', 'FgdDocTrace.cfg', path, work=work)
    cov['states'] += st['states']
    cov['transitions'] += st['transitions']
    cov['records_validated'] += st['records']
    return mism


def sample(path) -> dict:
    rs = core.read_ndjson(path)
    r = rs[len(rs) // 2]
    out = {}
    for k, v in r.items():
        if k in ('snap', 'defs', 'order', 'parsed', 'got', 'model_dbs', 'dbs', 'blocks1', 'blocks2'):
            continue
        if k == 'lines':
            v = v[:12]
        if k == 'orig':
            v = {kk: vv for kk, vv in v.items() if kk in ('cls', 'kind', 'bases', 'alias')}
        if k in ('text', 'back') and isinstance(v, str):
            v = v[:80]
        if k == 'secs':
            v = [s[:40] for s in v]
        out[k] = v
    return out


def run(tier: str, seed: int) -> int:
    """The stages are independent of one another (each starts its own driver and TLC processes),
    so they run side by side; TLC still produces every verdict."""
    t0 = time.time()
    work = core.Work()
    thorough = tier == 'thorough'
    env = {'VERIF_SEED': seed, 'VERIF_TIER': tier}

    def new_cov() -> dict:
        return {'states': 0, 'transitions': 0, 'records_validated': 0, 'models': {}, 'samples': [], 'timing_s': {}, 'traces': 0}

    def timed(name: str, fn):
        def job():
            t = time.time()
            cov = new_cov()
            mism = fn(cov)
            cov['timing_s'][name] = round(time.time() - t, 1)
            return mism, cov
        return job

    def db_edges(name: str):
        def fn(cov):
            cfg = f'FgdDb{name}_edges.cfg'
            r = run_tlc('FgdDb', cfg, workers=1)
            core.require_mc(r, cfg)
            edges = [p for p in r.prints if isinstance(p, dict) and p.get('tag') == 'EDGE']
            dbs = [p for p in r.prints if isinstance(p, dict) and p.get('tag') == 'DBS']
            if len(edges) != r.generated - 1 or len(dbs) != 1:
                raise MachineryError(f'{cfg}: {len(edges)} edges for {r.generated} generated states')
            actions: dict = {}
            for e in edges:
                actions[e['a']['op']] = actions.get(e['a']['op'], 0) + 1
            cov['actions_covered'] = actions
            cov['models'][cfg] = {'generated': r.generated, 'distinct': r.distinct, 'depth': r.depth}
            cov['states'] += r.distinct
            cov['transitions'] += r.generated
            ef = work.path(cfg + '.json')
            ef.write_text(json.dumps({'dbs': dbs[0]['dbs'], 'edges': edges}))
            out = work.path(cfg + '.ndjson')
            st = json.loads(core.run_driver('c16_driver.py', ['dbedges', ef, out], env=env).strip().splitlines()[-1])
            cov['edges_replayed'] = st['edges_replayed']
            cov['traces'] += st['edges_replayed']
            mism = validate_traces(out, work, cov, parts=2)
            cov['samples'].append(sample(out))
            return mism
        return fn

    def db_sim(cov):
        nbeh = 48 if thorough else 8
        r = run_tlc('FgdDbSim', 'FgdDbSim.cfg', workers=4, simulate=f'num={nbeh}', depth=31, seed=seed + 1, timeout=1200)
        core.require_mc(r, 'FgdDbSim.cfg')
        behs = [p['h'] for p in r.prints if isinstance(p, dict) and p.get('tag') == 'BEH']
        if len(behs) < nbeh // 2:
            raise MachineryError(f'simulation produced {len(behs)} behaviours')
        ops = {a['op'] for h in behs for a in h}
        if not {'query', 'missing'} <= ops:
            raise MachineryError(f'simulated behaviours lack actions: {ops}')
        cov['simulated_behaviours'] = len(behs)
        cov['transitions'] += sum(len(h) for h in behs)
        cov['states'] += sum(len(h) for h in behs)
        bf = work.path('behs.json')
        bf.write_text(json.dumps(behs))
        out = work.path('dbsim.ndjson')
        core.run_driver('c16_driver.py', ['dbsim', bf, out], env=env)
        cov['traces'] += len(behs)
        mism = validate_traces(out, work, cov, parts=8)
        cov['samples'].append(sample(out))
        return mism

    def db_singles(cov):
        out = work.path('dbsingles.ndjson')
        st = json.loads(core.run_driver('c16_driver.py', ['dbsingles', real, out], env=env).strip().splitlines()[-1])
        cov['single_query_databases'] = st['singles']
        cov['traces'] += st['singles']
        return validate_traces(out, work, cov, parts=8 if thorough else 4)

    def text_mc(cov):
        tcfg = 'FgdDoc_text_mc.cfg' if thorough else 'FgdDoc_text6_mc.cfg'
        r = run_tlc('FgdDoc', tcfg, workers=4)
        core.require_mc(r, tcfg)
        cov['models'][tcfg] = {'generated': r.generated, 'distinct': r.distinct, 'depth': r.depth}
        cov['states'] += r.distinct
        cov['transitions'] += r.generated
        return []

    # quick: a seed-rotated part of the larger families; thorough: every case
    part = {'res': 1, 'num': 1, 'lists': 1, 'io': 2, 'header': 3, 'kv': 5}

    def doc_cases(sl: str):
        def fn(cov):
            cfg = f'FgdDoc_{sl}_edges.cfg'
            r = run_tlc('FgdDoc', cfg, workers=4)
            core.require_mc(r, cfg)
            cases = [p for p in r.prints if isinstance(p, dict) and p.get('tag') == 'CASE']
            if len(cases) * 4 != r.distinct:    # built, exported, parsed, reexported per case
                raise MachineryError(f'{cfg}: {len(cases)} cases printed for {r.distinct} states')
            cov['models'][cfg] = {'generated': r.generated, 'distinct': r.distinct, 'depth': r.depth, 'cases': len(cases)}
            cov['states'] += r.distinct
            cov['transitions'] += r.generated
            if not thorough:
                cases = cases[seed % part[sl]::part[sl]]
            cf_ = work.path(f'cases_{sl}.json')
            cf_.write_text(json.dumps(cases))
            out = work.path(f'cases_{sl}.ndjson')
            st = json.loads(core.run_driver('c16_driver.py', ['doccases', cf_, out], env=env).strip().splitlines()[-1])
            if st['cases'] + st['unbuildable'] != len(cases) or st['cases'] * 2 < len(cases) or (st['unbuildable'] and sl != 'lists'):
                raise MachineryError(f'{cfg}: driver ran {st["cases"]} (+{st["unbuildable"]} not constructible) of {len(cases)} cases')
            cov['cases_replayed'] = st['cases']
            cov['traces'] += st['cases']
            mism = validate_doc(out, work, cov)
            cov['samples'].append(sample(out))
            return mism
        return fn

    def bin_cases(cov):
        # the binary database against the original definitions, switch by switch
        cfg = 'FgdDoc_bin_edges.cfg'
        r = run_tlc('FgdDoc', cfg, workers=4)
        core.require_mc(r, cfg)
        cases = [p for p in r.prints if isinstance(p, dict) and p.get('tag') == 'CASE']
        if len(cases) * 4 != r.distinct or not any(not c['rep'] for c in cases):
            raise MachineryError(f'{cfg}: {len(cases)} cases printed for {r.distinct} states')
        cov['models'][cfg] = {'generated': r.generated, 'distinct': r.distinct, 'depth': r.depth, 'cases': len(cases)}
        cov['states'] += r.distinct
        cov['transitions'] += r.generated
        cf_ = work.path('cases_bin.json')
        cf_.write_text(json.dumps(cases))
        out = work.path('cases_bin.ndjson')
        st = json.loads(core.run_driver('c16_driver.py', ['bincases', cf_, out], env=env).strip().splitlines()[-1])
        nrep = sum(1 for c in cases if c['rep'])
        if st['records'] != 2 * nrep + (len(cases) - nrep) + 5:
            raise MachineryError(f'{cfg}: driver wrote {st["records"]} records for {len(cases)} cases')
        cov['binary_cases_replayed'] = len(cases)
        cov['traces'] += st['records']
        mism = validate_doc(out, work, cov)
        cov['samples'].append(sample(out))
        return mism

    def beyond(mode: str):
        def fn(cov):
            out = work.path(mode + '.ndjson')
            st = json.loads(core.run_driver('c16_driver.py', [mode, out], env=env).strip().splitlines()[-1])
            cov[mode + '_records'] = st['records']
            cov['traces'] += st['records']
            mism = validate_doc(out, work, cov)
            cov['samples'].append(sample(out))
            return mism
        return fn

    try:
        total = new_cov()
        # ---- constants of the run: the real database's block structure
        real = work.path('real_db.json')
        info = json.loads(core.run_driver('c16_driver.py', ['dbdesc', real], env=env).strip().splitlines()[-1])
        total['bundled_database'] = info
        # development aid: C16_STAGES=db,doc,beyond restricts a run to some stages (default: all)
        stages = set((os.environ.get('C16_STAGES') or 'db,doc,beyond').split(','))
        jobs = []
        if 'beyond' in stages:       # (longest first)
            jobs.append(timed('bundled', beyond('bundled')))
        if 'doc' in stages:
            jobs.append(timed('doc_cases_kv', doc_cases('kv')))
        if 'db' in stages:
            jobs.append(timed('db_sim', db_sim))
            jobs += [timed('db_edges_' + n, db_edges(n)) for n in ('Cyc', 'Chain', 'Two')]
            jobs.append(timed('db_singles', db_singles))
        if 'doc' in stages:
            jobs += [timed('doc_cases_' + sl, doc_cases(sl)) for sl in ('header', 'io', 'lists', 'num', 'res')]
            jobs.append(timed('doc_cases_bin', bin_cases))
            jobs.append(timed('doc_text_mc', text_mc))
        if 'beyond' in stages:
            jobs += [timed(m, beyond(m)) for m in ('docrandom', 'binary', 'long')]
        allm: list = []
        with Env(FGD_DB_FILE=real):
            with cf.ThreadPoolExecutor(max_workers=5) as ex:
                for mism, cov in ex.map(lambda j: j(), jobs):
                    allm += mism
                    for k, v in cov.items():
                        if isinstance(v, bool) or not isinstance(v, (int, float, dict, list)):
                            total[k] = v
                        elif isinstance(v, (int, float)):
                            total[k] = total.get(k, 0) + v
                        elif isinstance(v, list):
                            total.setdefault(k, []).extend(v)
                        elif k == 'actions_covered':
                            acc = total.setdefault(k, {})
                            for a, n in v.items():
                                acc[a] = acc.get(a, 0) + n
                        else:
                            total.setdefault(k, {}).update(v)
        cov = total
        if 'db' in stages and not {'query', 'missing', 'loadall'} <= set(cov.get('actions_covered', {})):
            raise MachineryError(f'vacuous FgdDb model: actions taken {cov.get("actions_covered")}')
        cov['traces_validated_against_impl'] = cov.pop('traces')
        cov['mismatches'] = len(allm)
        cov['exhaustive'] = True
        cov['rule'] = ('every transition of the three small FgdDb layouts replayed by its shortest path on databases written '
                       'by the real serialise(); TLC-simulated query orders (depth 30) and single queries on the real fgd.lzma; '
                       'every (definition, options) case of the five FgdDoc families (quick: seed-rotated 1/2, 1/3, 1/5 of the io, '
                       'header, keyvalue families); seeded random definitions, long strings at LIMIT=1000, the bundled database as '
                       'one file (quick: one option combination, a third of the per-entity records), binary round trip')
        sigs = [sig_of(m) for m in allm]
        known, new = core.classify(PROP, sigs)
        return core.finish(PROP, tier=tier, seed=seed, t0=t0, coverage=cov, known=known, new=new,
                           assumptions=['pure-Python srctools from /repo/src (Cython accelerators cannot be built here)',
                                        'identity of definition objects observed by wrapping _engine_db.ent_unserialise from the harness process',
                                        'the real Tokenizer is used to parse (its own correctness is C03)',
                                        'TLC 1.8 evaluates FgdDbOps / FgdDocOps correctly (string operators \\o, Len, SubSeq on strings)'])
    finally:
        work.cleanup()


def replay(path: str) -> int:
    work = core.Work()
    try:
        rp = json.load(open(path))
        rec = rp['record']
        out = work.path('replay.ndjson')
        cov = {'states': 0, 'transitions': 0, 'records_validated': 0}
        if rec.get('k') in ('step', 'open'):
            real = work.path('real_db.json')
            core.run_driver('c16_driver.py', ['dbdesc', real])
            core.run_driver('c16_driver.py', ['dbreplay', path, out])
            with Env(FGD_DB_FILE=real):
                mism = validate_traces(out, work, cov, parts=1)
        else:
            core.run_driver('c16_driver.py', ['docreplay', path, out])
            with Env():
                mism = validate_doc(out, work, cov)
        known, new = core.classify(PROP, [sig_of(m) for m in mism])
        for s in new:
            print(f'VIOLATION property={PROP} replay={path} clause={s["clause"]}')
        if not new:
            print(f'OK replay={path}: no violation reproduced ({len(mism)} known)')
        return 1 if new else 0
    finally:
        work.cleanup()
