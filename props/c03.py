"""C03 - tokenizing is total and independent of how the input is chunked."""
from __future__ import annotations

import concurrent.futures as cf
import json
import time

from vlib import core, tokcheck
from vlib.tlc import run_tlc

PROP = 'C03'

MANIFEST = dict(
    technique='TLA+ models Cursor (chunked cursor refines a flat cursor) and Tokenizer (the _get_token/_handle_comment/_handle_string loop as a step machine, one transition per character delivered) checked by TLC; every transition of both models replayed on the real Tokenizer; token streams, line numbers, errors and _next_char events of the real tokenizer under every delivery form validated by TLC (TokenizerTrace)',
    category='model_checking',
    text='TLC exhausts the lexer model over every text up to length 3 (4 thorough) over a 17-character syntax alphabet (26 characters up to length 3, thorough) x every assignment of the options whose trigger characters occur, with the invariants: at most 2(n+1) characters delivered, no second push-back, ends in EOF-for-ever or exactly one error of the error alphabet, line numbers monotone and bounded by the line breaks seen, token shapes, the same lexer over every chunking (with empty chunks) of the chunked-cursor model sees the same, irrelevant options do not matter; the cursor model is checked for every chunking of texts up to length 5 (6) against a flat cursor for every legal next/rewind sequence. The real Tokenizer is run on exactly that family (count handshake) as one str, lines, a file object, every cut into chunks, with empty chunks, through generators; on all 128 option sets for the shortest texts; once per transition of the mode x flag x option set x character table enumerated by TLC (with _next_char wrapped to count the cursor reads); on seeded random texts up to 200 characters mixing syntax and arbitrary Unicode with cuts inside CR LF, escapes, comment openers and closers; and Keyvalues.parse on token soups and mutated documents in all delivery forms. Totality is also probed on long repetitive texts: 31 units (comments, blanks, operators, strings, flags, parens, directives, BOM, escapes and line breaks inside strings/parens/comments) and 132 pairwise alternations repeated 2000 times (thorough: 20000), as one str / per line / per character, within a wall-clock bound and the linear read bound. Scripts of caller operations (call, peek, push_back to depth 3 in every order of NEWLINE/STRING/brace tokens, expect with both skip_newline values, skipping_newlines, block; also on IterTokenizer) must deliver exactly the push-back stack in front of the source token stream observed in a plain run of the same text. TLC judges every record: nothing but the typed syntax error (and no run beyond 4(n+2)+16 cursor reads), exactly one distinct observation (tokens, values, line numbers; exception type, message, file and line) over all delivery forms of a text, Tokens, values, line numbers and the wording and position of errors are compared between the delivery forms of one text only; the comparison with Lex(text, options) of the specification (which texts are errors, token stream, line convention) is reported as diag.* counts in the evidence and never makes a violation.',
    design_ref='4 (C03)',
    note='Trusts TLC, the projection (token name/value/line_num, exception type/message/line_num, _cur_chunk/_char_index/_last_was_cr read from outside) and CPython str.casefold for non-ASCII directive characters. Pure-Python tokenizer only (the Cython _tokenizer cannot be built here). Keyvalues.parse is bound to the lexer model only through its error/non-error outcome and chunk independence; its grammar is C01.',
)

TOKEN_TYPES = {'EOF', 'STRING', 'NEWLINE', 'PAREN_ARGS', 'DIRECTIVE', 'COMMENT', 'BRACE_OPEN', 'BRACE_CLOSE', 'PAREN_OPEN',
               'PAREN_CLOSE', 'PROP_FLAG', 'BRACK_OPEN', 'BRACK_CLOSE', 'COLON', 'EQUALS', 'PLUS', 'COMMA'}
ERR_IDS = {'flag_eol', 'flag_nest', 'flag_eof', 'paren_nest', 'paren_eof', 'close_brack', 'close_paren', 'bad_char',
           'star_eof', 'star_off', 'slash1', 'slash1s', 'esc_eof', 'str_eof'}
MODES = {'Top', 'Slash', 'Line', 'Star', 'StarStar', 'Str', 'StrEsc', 'Flag', 'Paren', 'Dir', 'Bare'}
MC_ACTIONS = {'Grow', 'Begin', 'Again'} | {'Step' + m for m in MODES}


def sig_of(m: dict) -> dict:
    rec = m['rec']
    sig = dict(rec.get('sig', {}))
    sig['clause'] = m['clause']
    sig['expected'] = m['exp']
    sig['record'] = {k: v for k, v in rec.items() if k != 'sig'}
    return sig


def _params(r, cfg):
    ps = [p for p in r.prints if isinstance(p, dict) and p.get('tag') == 'PARAMS']
    if len(ps) != 1:
        raise core.MachineryError(f'{cfg}: no PARAMS line')
    return ps[0]


def _last_json(text: str) -> dict:
    return json.loads(text.strip().splitlines()[-1])


def _split_diag(mism: list, cov: dict) -> list:
    """diag.* clauses compare with the exact model (token stream, line convention, which texts are
    errors, spelling of escapes): counted in the evidence, never a verdict."""
    counts: dict = {}
    for m in mism:
        if m['clause'].startswith('diag.'):
            counts[m['clause']] = counts.get(m['clause'], 0) + 1
    cov['diagnostics'] = {'note': 'records that differ from the exact lexer/escape model where the statement does not fix the detail; never a violation',
                          'counts': counts}
    return [m for m in mism if not m['clause'].startswith('diag.')]


def run(tier: str, seed: int) -> int:
    t0 = time.time()
    work = core.Work()
    thorough = tier == 'thorough'
    env = {'VERIF_SEED': seed, 'VERIF_TIER': tier}
    try:
        cov = {'states': 0, 'transitions': 0, 'models': {}}
        fam_cfgs = ['Tokenizer_mc4.cfg', 'Tokenizer_mc26.cfg'] if thorough else ['Tokenizer_mc.cfg']
        edge_cfg = 'Tokenizer_edges128.cfg' if thorough else 'Tokenizer_edges.cfg'
        cur_cfg = 'Cursor_mc6.cfg' if thorough else 'Cursor_mc.cfg'
        jobs = {
            'cov': lambda: run_tlc('Tokenizer', 'Tokenizer_cov.cfg', coverage=True, timeout=1200),
            'cursor_mc': lambda: run_tlc('Cursor', cur_cfg, timeout=1200),
            'cursor_edges': lambda: run_tlc('Cursor', 'Cursor_edges.cfg', workers=1, timeout=1200),
            'edges': lambda: run_tlc('Tokenizer', edge_cfg, workers=1, timeout=2400),
            'random': lambda: core.run_driver('c03_driver.py', ['random', work.path('random.ndjson')], env=env),
            'kvsoup': lambda: core.run_driver('c03_driver.py', ['kvsoup', work.path('kvsoup.ndjson')], env=env),
            'calls': lambda: core.run_driver('c03_driver.py', ['calls', work.path('calls.ndjson')], env=env),
            'long': lambda: core.run_driver('c03_driver.py', ['long', work.path('long.ndjson')], env=env, timeout=3000),
        }
        for c in fam_cfgs:
            jobs[c] = (lambda c=c: run_tlc('Tokenizer', c, timeout=3000))
        res = {}
        with cf.ThreadPoolExecutor(max_workers=4) as ex:
            futs = {k: ex.submit(f) for k, f in jobs.items()}
            for k, fu in futs.items():
                res[k] = fu.result()
        # ---- 1. the design
        for k in ['cov', 'cursor_mc', 'cursor_edges', 'edges'] + fam_cfgs:
            core.require_mc(res[k], k)
            cov['models'][k] = {'generated': res[k].generated, 'distinct': res[k].distinct, 'depth': res[k].depth}
            cov['states'] += res[k].distinct
            cov['transitions'] += res[k].generated
        never = sorted(a for a in MC_ACTIONS if res['cov'].coverage.get(a, (0, 0))[1] == 0)
        if never:
            raise core.MachineryError(f'vacuous lexer model: actions never taken: {never}')
        cov['actions_covered'] = {a: res['cov'].coverage[a][1] for a in sorted(MC_ACTIONS)}
        # ---- 2. every transition of the two models, replayed on the real tokenizer
        recs = [work.path('random.ndjson'), work.path('kvsoup.ndjson'), work.path('calls.ndjson'), work.path('long.ndjson')]
        edges = [p for p in res['edges'].prints if isinstance(p, dict) and p.get('tag') == 'EDGE']
        if len(edges) != res['edges'].generated - len({json.dumps(e['o'], sort_keys=True) for e in edges}):
            raise core.MachineryError(f'{edge_cfg}: {len(edges)} edges printed for {res["edges"].generated} generated states')
        steps = [e['a'] for e in edges if e['a']['op'] == 'step']
        seen_modes = {a['m'] for a in steps}
        seen_emit = {a['emit'] for a in steps} - {''}
        seen_err = {a['err'] for a in steps} - {'none'}
        rew_modes = {a['m'] for a in steps if a['rew']}
        if seen_modes != MODES or seen_emit != TOKEN_TYPES or seen_err != ERR_IDS or rew_modes != {'Line', 'StarStar', 'Dir', 'Bare'}:
            raise core.MachineryError(f'vacuous transition table: modes {MODES - seen_modes}, tokens {TOKEN_TYPES - seen_emit}, '
                                      f'errors {ERR_IDS - seen_err}, rewinds {rew_modes}')
        ef = work.path('edges.json')
        ef.write_text(json.dumps(edges))
        p = work.path('edges.ndjson')
        st = _last_json(core.run_driver('c03_driver.py', ['edges', ef, p], env=env))
        if st['edges_replayed'] != len(steps):
            raise core.MachineryError('not every lexer transition was replayed')
        cov['lexer_transitions_replayed'] = st['edges_replayed']
        recs.append(p)
        cedges = [p for p in res['cursor_edges'].prints if isinstance(p, dict) and p.get('tag') == 'EDGE']
        cfam = [p for p in res['cursor_edges'].prints if isinstance(p, dict) and p.get('tag') == 'FAMILY'][0]['n']
        if len(cedges) != res['cursor_edges'].generated - cfam or {e['a']['op'] for e in cedges} != {'next', 'rewind'}:
            raise core.MachineryError(f'Cursor_edges.cfg: {len(cedges)} edges for {res["cursor_edges"].generated} states')
        ef = work.path('cedges.json')
        ef.write_text(json.dumps(cedges))
        p = work.path('cursor.ndjson')
        st = _last_json(core.run_driver('c03_driver.py', ['cursor', ef, p], env=env))
        if st['edges_replayed'] != len(cedges) or st['inits'] != cfam:
            raise core.MachineryError(f'cursor replay: {st} vs {len(cedges)} edges / {cfam} deliveries')
        cov['cursor_transitions_replayed'] = len(cedges)
        # ---- 3. the real tokenizer on the model's exhaustive family (count handshake) and on all 128 option sets
        cov['exhaustive_inputs'] = 0
        for c in fam_cfgs:
            par = _params(res[c], c)
            p = work.path(c + '.ndjson')
            st = _last_json(core.run_driver('c03_driver.py', ['family', json.dumps(par), p], env=env, timeout=3000))
            if st['inputs'] != par['runs']:
                raise core.MachineryError(f'coverage handshake {c}: driver enumerated {st["inputs"]} runs, the model has {par["runs"]}')
            cov['exhaustive_inputs'] += st['inputs']
            cov['models'][c]['family_runs'] = par['runs']
            recs.append(p)
        par = _params(res['edges'], edge_cfg)
        p = work.path('all128.ndjson')
        alpha = par['alphabet'] if not thorough else _params(res[fam_cfgs[0]], fam_cfgs[0])['alphabet']
        st = _last_json(core.run_driver('c03_driver.py', ['all128', json.dumps(alpha), 2 if thorough else 1, p], env=env))
        cov['all128_inputs'] = st['inputs']
        recs.append(p)
        # ---- 4. TLC validates every record (one pass over everything)
        allp = work.path('all.ndjson')
        samples = []
        with open(allp, 'w', encoding='utf-8') as out:
            for p in recs:
                txt = p.read_text(encoding='utf-8')
                if not txt.strip():
                    raise core.MachineryError(f'driver produced no records: {p.name}')
                out.write(txt)
                lines = txt.splitlines()
                rec = json.loads(lines[(len(lines) * 2) // 3])
                rec.pop('sig', None)
                samples.append(json.loads(json.dumps(rec)[:100000]) if len(json.dumps(rec)) < 4000 else
                               {'k': rec['k'], 'text': rec['text'], 'o': rec.get('o')})
        mism, st = tokcheck.validate_records('TokenizerTrace', 'TokenizerTrace.cfg', allp, work=work, timeout=3000)
        cov['states'] += st['states']
        cov['transitions'] += st['transitions']
        cov['traces_validated_against_impl'] = st['records']
        cov['records_validated'] = st['records']
        cov['mismatches'] = len(mism)
        cov['samples'] = samples
        cov['exhaustive'] = True
        cov['rule'] = ('every (text, option set) run of the bounded lexer model, delivered as str / lines / file / every cut / '
                       'with empty chunks / generator / tuple; every transition of the nd lexer model and of the cursor model; all '
                       '128 option sets on the shortest texts; seeded random texts and Keyvalues documents beyond the bounds')
        mism = _split_diag(mism, cov)
        known, new = core.classify(PROP, [sig_of(m) for m in mism])
        return core.finish(PROP, tier=tier, seed=seed, t0=t0, coverage=cov, known=known, new=new,
                           assumptions=['pure-Python srctools.tokenizer from /repo/src (the Cython accelerator cannot be built here)',
                                        'TLC 1.8 evaluates TokenizerOps/CursorOps correctly',
                                        'chunks are str objects (the property quantifies over texts); CPython str.casefold is taken as given'])
    finally:
        work.cleanup()


def replay(path: str) -> int:
    work = core.Work()
    try:
        out = work.path('replay.ndjson')
        core.run_driver('c03_driver.py', ['replay', path, out])
        mism, _ = tokcheck.validate_records('TokenizerTrace', 'TokenizerTrace.cfg', out, work=work, shards=1)
        mism = _split_diag(mism, {})
        known, new = core.classify(PROP, [sig_of(m) for m in mism])
        for s in new:
            print(f'VIOLATION property={PROP} replay={path} clause={s["clause"]}')
        if not new:
            print(f'OK replay={path}: no violation reproduced ({len(mism)} known)')
        return 1 if new else 0
    finally:
        work.cleanup()
