"""C18 - a constrained directory filesystem never reaches outside its root."""
from __future__ import annotations

import concurrent.futures as cf
import json
import re
import shutil
import time

from vlib import core
from vlib.tlc import SPECS, MachineryError, run_tlc

PROP = 'C18'

MANIFEST = dict(
    technique='TLA+ model (PathRes) of path resolution with component-wise containment, checked by TLC; the whole bounded input family executed on a real directory tree through RawFileSystem / FileSystemChain / unify_path and every record validated by TLC (PathResTrace)',
    category='model_checking',
    text='TLC exhausts path families over the components {.., ., empty, sub, in.txt, rootx, root, B, A}: quick = all paths of <= 3 components x relative / leading separator / absolute (world directory) x forward, backward and mixed separators x root spelled with and without trailing separator x direct or through a FileSystemChain member with prefix "sub", plus all relative forward-slash paths of <= 4 components; thorough = the full product for <= 4 components plus all relative paths of <= 5 components x 3 separator patterns x 2 root spellings x direct/chain, with the invariant that every outcome is RootEscapeError or a file under the root; a string-prefix containment variant is checked to be refuted. The same family (coverage handshake against the model\'s state count) is run on a real directory tree with distinct file contents through `in`, [], open_bin, open_str and walk_folder; TLC compares each outcome with Resolve and, independently of the resolution, rejects any record carrying the content of a file outside the root. packlist.unify_path is validated the same way. Seeded random longer paths with arbitrary separators and further sibling names extend the family.',
    design_ref='4 (C18)',
    note='POSIX semantics (backslash is a name character for the OS; the chain rewrites it to "/"), stated in the spec. No symbolic links in the world. Trusts TLC and os.path.realpath / file.name for the location of what was opened.',
)

FAMILIES = {'quick': ['PathRes_f3.cfg', 'PathRes_f4.cfg'], 'thorough': ['PathRes_mc.cfg', 'PathRes_f5.cfg']}
UNIFY_LEN = {'quick': 4, 'thorough': 5}
ACTIONS = {'has': '__contains__', 'get': '__getitem__', 'ob': 'open_bin', 'os': 'open_str', 'walk': 'walk_folder',
           'contain': 'any', 'unify': 'unify_path', 'input': 'harness'}


def family_of(cfg: str) -> dict:
    """The constants of a PathRes cfg, so that the driver enumerates exactly the model's family."""
    text = (SPECS / cfg).read_text()

    def strs(name):
        m = re.search(rf'^\s*{name}\s*=\s*\{{(.*)\}}\s*$', text, re.M)
        return re.findall(r'"([^"]*)"', m.group(1))
    chains = re.search(r'^\s*Chains\s*=\s*\{(.*)\}\s*$', text, re.M).group(1)
    return {'maxlen': int(re.search(r'^\s*MaxLen\s*=\s*(\d+)', text, re.M).group(1)),
            'alphabet': strs('Alphabet'), 'pres': strs('Pres'), 'kinds': strs('Kinds'), 'forms': strs('RootForms'),
            'chains': sorted({'TRUE': True, 'FALSE': False}[x.strip()] for x in chains.split(','))}


def sig_of(m: dict) -> dict:
    rec = m['rec']
    sig = dict(rec.get('sig', {}))
    sig['clause'] = m['clause']
    sig.setdefault('action', ACTIONS.get(m['clause'].split('.')[0], m['clause']))
    sig['expected'] = m['exp']
    sig['record'] = {k: v for k, v in rec.items() if k != 'sig'}
    return sig


def run(tier: str, seed: int) -> int:
    t0 = time.time()
    work = core.Work()
    try:
        cov = {'states': 0, 'transitions': 0, 'models': {}}
        # 1. the design: exhaustive model checking, and the refutation of text-prefix containment
        cfgs = FAMILIES[tier]   # each family cfg is a full model-checking run with all invariants
        counts = {}
        for cfg in cfgs:
            r = run_tlc('PathRes', cfg, timeout=1500)
            core.require_mc(r, cfg)
            counts[cfg] = r.distinct
            cov['models'][cfg] = {'generated': r.generated, 'distinct': r.distinct, 'depth': r.depth}
            cov['states'] += r.distinct
            cov['transitions'] += r.generated
            if r.depth < 2:
                raise MachineryError(f'vacuous model {cfg}: Extend never taken')
        r = run_tlc('PathRes', 'PathRes_neg.cfg')
        if r.ok or r.violated != ['TextSafe']:
            raise MachineryError(f'PathRes_neg.cfg: text-prefix containment should be refuted, got {r.errors}')
        cov['models']['PathRes_neg.cfg'] = {'refuted': 'TextSafe', 'generated': r.generated}
        # 2. the same families on the real code (parallel driver processes)
        nproc = 6
        jobs = []
        for cfg in FAMILIES[tier]:
            fam = family_of(cfg)
            for part in range(nproc):
                jobs.append((cfg, ['exh', json.dumps(fam), nproc, part, work.path(f'{cfg}.{part}.ndjson')]))
        jobs.append(('unify', ['unify', UNIFY_LEN[tier], work.path('unify.ndjson')]))
        jobs.append(('random', ['random', work.path('random.ndjson')]))
        with cf.ThreadPoolExecutor(max_workers=8) as ex:
            list(ex.map(lambda j: core.run_driver('c18_driver.py', j[1], env={'VERIF_SEED': seed, 'VERIF_TIER': tier}), jobs))
        # coverage handshake: distinct inputs logged = states of the model's family
        files = []
        for cfg in FAMILIES[tier]:
            keys = set()
            merged = work.path(f'{cfg}.ndjson')
            with open(merged, 'w', encoding='utf-8') as mf:
                for part in range(nproc):
                    with open(work.path(f'{cfg}.{part}.ndjson'), encoding='utf-8') as f:
                        for line in f:
                            rec = json.loads(line)
                            keys.add(json.dumps([rec['cfg'], rec['body']], sort_keys=True))
                            mf.write(line)
            if len(keys) != counts[cfg]:
                raise MachineryError(f'coverage handshake failed for {cfg}: driver logged {len(keys)} distinct inputs, '
                                     f'the model has {counts[cfg]}')
            cov.setdefault('handshake', {})[cfg] = len(keys)
            files.append(merged)
        files += [work.path('unify.ndjson'), work.path('random.ndjson')]
        # 3. TLC validates every record
        samples = []
        merged_all = work.path('all.ndjson')
        with open(merged_all, 'w', encoding='utf-8') as mf:
            for p in files:
                with open(p, encoding='utf-8') as f:
                    first = f.readline()
                    mf.write(first)
                    shutil.copyfileobj(f, mf)
                first = json.loads(first)
                samples.append({k: first[k] for k in ('k', 'cfg', 'str', 'has', 'get', 'walk', 'e', 'res') if k in first})
        allm, st = core.validate_records('PathResTrace', 'PathResTrace.cfg', merged_all, work=work, timeout=3000)
        total = st['records']
        cov['states'] += st['states']
        cov['transitions'] += st['transitions']
        if any(m['clause'].startswith('input.') for m in allm):
            bad = next(m for m in allm if m['clause'].startswith('input.'))
            raise MachineryError(f'driver input not in the model family / mis-encoded: {bad["clause"]} {bad["rec"].get("str")!r}')
        cov['traces_validated_against_impl'] = total
        cov['records_validated'] = total
        cov['mismatches'] = len(allm)
        cov['samples'] = samples
        cov['exhaustive'] = True
        cov['rule'] = ('every path of the PathRes families ' + ', '.join(FAMILIES[tier]) + ' executed on a real directory tree '
                       '(5 kinds of access each); unify_path over all paths of <= %d components over {.., ., empty, a, B} x '
                       'relative/leading separator x 3 separator patterns; seeded random longer inputs' % UNIFY_LEN[tier])
        known, new = core.classify(PROP, [sig_of(m) for m in allm])
        return core.finish(PROP, tier=tier, seed=seed, t0=t0, coverage=cov, known=known, new=new,
                           assumptions=['pure-Python srctools from /repo/src',
                                        'POSIX path semantics (the platform the check runs on); no symbolic links in the world',
                                        'file.name / os.path.realpath report the location of an opened file',
                                        'TLC 1.8 evaluates PathResOps correctly'])
    finally:
        work.cleanup()


def replay(path: str) -> int:
    work = core.Work()
    try:
        out = work.path('replay.ndjson')
        core.run_driver('c18_driver.py', ['replay', path, out])
        mism, _ = core.validate_records('PathResTrace', 'PathResTrace.cfg', out, work=work, shards=1)
        known, new = core.classify(PROP, [sig_of(m) for m in mism])
        for s in new:
            print(f'VIOLATION property={PROP} replay={path} clause={s["clause"]}')
        if not new:
            print(f'OK replay={path}: no violation reproduced ({len(mism)} known)')
        return 1 if new else 0
    finally:
        work.cleanup()
