"""Sub-check used by C06: vmf.Output text form (as_keyvalue / parse, both separators, instance forms)
and Output.combine, judged against OutputOps."""
from __future__ import annotations

import json

from vlib import core
from vlib.tlc import run_tlc


def collect(tier: str, seed: int, work: core.Work) -> dict:
    cov = {'states': 0, 'transitions': 0, 'models': {}}
    r = run_tlc('Output', 'Output_mc.cfg', timeout=600)
    core.require_mc(r, 'Output_mc.cfg')
    cov['models']['Output_mc.cfg'] = {'generated': r.generated, 'distinct': r.distinct, 'depth': r.depth}
    cov['states'] += r.distinct
    cov['transitions'] += r.generated
    r = run_tlc('Output', 'Output_edges.cfg', workers=1, timeout=600)
    core.require_mc(r, 'Output_edges.cfg')
    jobs = [p for p in r.prints if isinstance(p, dict) and p.get('tag') == 'EDGE']
    if len(jobs) * 2 != r.generated:
        raise core.MachineryError(f'Output: {len(jobs)} jobs printed for {r.generated} generated states')
    rep = sum(1 for j in jobs if j['a']['rep'])
    if rep < 100 or rep == len(jobs):
        raise core.MachineryError(f'Output: vacuous representability split ({rep} of {len(jobs)})')
    jf = work.path('output_jobs.json')
    jf.write_text(json.dumps(jobs))
    env = {'VERIF_SEED': seed, 'VERIF_TIER': tier}
    o1 = work.path('output_jobs.ndjson')
    core.run_driver('output_driver.py', ['edges', jf, o1], env=env)
    o2 = work.path('output_random.ndjson')
    core.run_driver('output_driver.py', ['random', o2], env=env)
    sigs, total, samples = [], 0, []
    for p in (o1, o2):
        mism, st = core.validate_records('OutputTrace', 'OutputTrace.cfg', p, work=work)
        total += st['records']
        cov['states'] += st['states']
        cov['transitions'] += st['transitions']
        for m in mism:
            sig = dict(m['rec'].get('sig', {}))
            sig.update(clause=m['clause'], expected=m['exp'], record=m['rec'])
            # C06: outputs survive export + parse.  The writer's exact text, the parser's behaviour
            # on texts no writer produces and Output.combine are growth.
            if m['clause'] != 'out.roundtrip':
                sig['drift'] = 'Output'
            sigs.append(sig)
        rs = core.read_ndjson(p)
        samples.append({k: v for k, v in rs[len(rs) // 2].items() if k != 'sig'})
    cov['output_jobs'] = len(jobs)
    cov['output_representable'] = rep
    cov['output_records'] = total
    return {'cov': cov, 'sigs': sigs, 'records': total, 'samples': samples}
