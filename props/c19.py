"""C19 - all filesystem backends resolve names alike; chains honour priority."""
from __future__ import annotations

import concurrent.futures as cf
import json
import shutil
import time

from vlib import core
from vlib.c19sig import chain_walk_flags, noncanon, spell_sig, walk_flags
from vlib.tlc import MachineryError, run_tlc

PROP = 'C19'

MANIFEST = dict(
    technique='TLA+ model (FsSem) of backend-independent filesystem semantics and of chains built by add_sys, checked by TLC; every file set of the model materialised on the four real backends and every add_sys transition replayed on a real FileSystemChain; all records validated by TLC (FsSemTrace)',
    category='model_checking',
    text='FsSem defines existence, look-up and folder walk on file sets keyed by case-folded components (either slash), chain look-up by first member, member-relative de-duplicated walk, and add_sys(priority). TLC checks on all chains of up to 2 (thorough: 3-4) members over file sets of {a/x, a/X, ab/x, a/b/x, x, A/x} x prefixes {"", a, a/b}: walking "" lists everything, every walked name looks up to the listed file, first-member-wins, independence of members lacking the name, priority insertion, and that FileSystemChain\'s way of combining member lists implements the specified walk. A file set is a container sequence: entries that fold to the same name (another spelling, or one name stored twice) carry different contents and the last one wins in every backend. Every container of the family SeqFamily (up to 3 entries, every order among entries folding alike, repeats; fixtures also with zip directory entries, VPK trailing data, text values and backslash-stored names) is built on VirtualFileSystem, ZipFileSystem (in memory), VPKFileSystem (VPK written by the harness\'s own encoder) and RawFileSystem (exact-case spellings only) and queried with all case x separator spellings and folders; file contents are KV1 text carrying a content id, and which file was obtained is observed through every public way of reading (open_bin, open_str, read_kv1, read_prop by name and by File handle, File.open_*, cache_key must not fail) for names and for handles from look-up, walk, repeating walk and iteration - the driver enumerates the public methods reflectively and fails as machinery when one has no probe; every model transition is replayed on a real chain of mixed backends, the prefix of each member given in one of several spellings of the same component sequence (plain, trailing slash, leading dot-slash, doubled separator, backslash; free-form mixes in the random tier), with spies on the members, so that TLC judges each member\'s answers separately from the chain\'s end-to-end result (how and how often the chain consults its members is not compared). The model speaks of symbols (a/A, ab/AB, b/B, x/X equivalent pairs); single-backend family and transitions are replayed under three concretisations, plain ASCII and two whose case folding is not lower-casing (straße/STRASSE, ligature fi, capital final sigma, long s; folder and file names; VPK is ASCII-only by format), and TLC checks every concretisation admissible (injective, symbols equivalent iff texts case-fold equivalent). Seeded random larger file sets, such names in folders and prefixes, deeper prefixes and chains of up to 5 members extend the family.',
    design_ref='4 (C19)',
    note='The directory backend is bound for exact-case spellings on a case-sensitive filesystem (POSIX). VPK fixtures come from an encoder written from the format description, not from srctools.vpk. Trusts TLC and str.casefold as the fold table.',
)

MC = {'quick': ['FsSem_mc2.cfg'], 'thorough': ['FsSem_mc2.cfg', 'FsSem_mc3.cfg', 'FsSem_mc4.cfg']}
EDGES = {'quick': ['FsSem_edges.cfg'], 'thorough': ['FsSem_edges.cfg', 'FsSem_edges3.cfg']}
SINGLE_REP = {'quick': 2, 'thorough': 3}     # SeqFamily(R) of specs/FsSem.tla


def sig_of(m: dict) -> dict:
    """Signature = record's sig + abstract parameters of the query (or member call) the clause is about."""
    rec, exp = m['rec'], m['exp']
    sig = dict(rec.get('sig', {}))
    sig['clause'] = m['clause']
    part, q, mi = exp.get('part'), exp.get('q', 0), exp.get('m', 0)
    item = rec[part][q - 1] if part in ('lookups', 'walks') and q else None
    files_of = lambda fl: [(c, cid) for c, cid in fl]
    if item is not None and mi:
        call = item['calls'][mi - 1]
        member = rec['members'][call['m'] - 1]
        sig['action'] = 'member.walk_folder' if part == 'walks' else 'member._get_file'
        sig['query'] = call['arg']
        if part == 'walks':
            sig.update(walk_flags(member['backend'], call['arg'], files_of(member['files'])))
            sig['variant'] = member.get('variant', 'plain')
        else:
            sig['variant'] = member.get('variant', 'plain')
            sig.update({'backend': member['backend'], 'spelling': 'via-chain', 'backslash': '\\' in call['arg'],
                        'noncanon': noncanon(call['arg'])})
    elif item is not None:
        text = ''.join(s + c for s, c in item['toks'])
        sig['query'] = text
        sig['action'] = 'walk_folder' if part == 'walks' else 'lookup'
        if rec['k'] == 'fs':
            sig['variant'] = rec.get('variant', 'plain')
            if part == 'walks':
                sig.update(walk_flags(rec['backend'], text, files_of(rec['files'])))
            else:
                sig.update({'backend': rec['backend'], 'spelling': spell_sig(item['toks'], files_of(rec['files'])),
                            'backslash': '\\' in text})
        else:
            sig.update(chain_walk_flags(rec, item) if part == 'walks' else {'backend': 'chain', 'backslash': '\\' in text})
            sig['bsmembers'] = '+'.join(sorted({m['backend'] for m in rec['members'] if m.get('variant') == 'bs'}))
    else:
        sig['action'] = 'add_sys'
    sig['expected'] = exp.get('want')
    sig['at'] = {'part': part, 'q': q, 'm': mi}
    keep = dict(rec)
    if item is not None:    # keep the replay file small: the one query the clause is about
        keep['lookups'] = [item] if part == 'lookups' else []
        keep['walks'] = [item] if part == 'walks' else []
    sig['record'] = {k: v for k, v in keep.items() if k != 'sig'}
    return sig


def run(tier: str, seed: int) -> int:
    t0 = time.time()
    work = core.Work()
    try:
        cov = {'states': 0, 'transitions': 0, 'models': {}}
        env = {'VERIF_SEED': seed, 'VERIF_TIER': tier}
        with cf.ThreadPoolExecutor(max_workers=10) as ex:
            # 1. the design
            mc_jobs = {cfg: ex.submit(run_tlc, 'FsSem', cfg, workers=8, timeout=1500) for cfg in MC[tier]}
            # 2. drivers that need nothing from TLC
            single = work.path('single.ndjson')
            rnd = work.path('random.ndjson')
            d1 = ex.submit(core.run_driver, 'c19_driver.py', ['single', SINGLE_REP[tier], single], env=env)
            d2 = ex.submit(core.run_driver, 'c19_driver.py', ['random', rnd], env=env)
            # 3. every add_sys transition of the model, replayed on real chains
            edge_files = []
            edge_total = 0
            for cfg in EDGES[tier]:
                edges, r = core.dump_edges('FsSem', cfg, timeout=1500)
                if not edges or any(e['a'].get('op') != 'add' for e in edges):
                    raise MachineryError(f'vacuous model {cfg}: no add_sys transitions')
                if not any(e['a']['pr'] for e in edges) or not any(not e['a']['pr'] for e in edges):
                    raise MachineryError(f'vacuous model {cfg}: priority flag not explored')
                edge_total += len(edges)
                ef = work.path(cfg + '.json')
                ef.write_text(json.dumps(edges))
                nproc = 4
                outs = [work.path(f'{cfg}.{part}.ndjson') for part in range(nproc)]
                futs = [ex.submit(core.run_driver, 'c19_driver.py', ['edges', ef, outs[part], nproc, part], env=env)
                        for part in range(nproc)]
                sts = [json.loads(f.result().strip().splitlines()[-1]) for f in futs]
                done = sum(st.get('edges_replayed', 0) for st in sts)
                for ci in (0, 1, 2):     # every concretisation of the symbols must have been replayed
                    if sum(st.get(f'conc{ci}', 0) for st in sts) < len(edges) // 10:
                        raise MachineryError(f'{cfg}: concretisation {ci} replayed on too few transitions')
                if done != len(edges):
                    raise MachineryError(f'{cfg}: {done} of {len(edges)} transitions replayed')
                edge_files += outs
            for cfg, fut in mc_jobs.items():
                r = fut.result()
                core.require_mc(r, cfg)
                if r.depth < 3:
                    raise MachineryError(f'vacuous model {cfg}')
                cov['models'][cfg] = {'generated': r.generated, 'distinct': r.distinct, 'depth': r.depth}
                cov['states'] += r.distinct
                cov['transitions'] += r.generated
            st1 = json.loads(d1.result().strip().splitlines()[-1])
            d2.result()
        # coverage handshake for the single-backend family: the model's own count of file sets
        counts = [p for p in run_tlc('FsSem', 'FsSem_count.cfg', workers=1).prints if isinstance(p, dict) and p.get('tag') == 'COUNT']
        if not counts:
            raise MachineryError('FsSem_count.cfg printed no COUNT')
        # (3 concretisations of the symbols; the VPK backend is ASCII-only and takes part in the first)
        nseq = counts[0][f'seqs{SINGLE_REP[tier]}']
        sets = {json.dumps([rec['ci'], rec['aseq'], rec['backend']]) for rec in core.read_ndjson(single)}
        want_sets = nseq * (4 + 3 + 3)
        if len(sets) != want_sets or st1['records'] != len(sets):
            raise MachineryError(f'coverage handshake failed: {len(sets)} (concretisation, container, backend) triples logged, '
                                 f'model has {nseq} containers x (4 + 3 + 3) backends')
        cov['handshake'] = {'containers': nseq, 'backend_concretisation_pairs': 10, 'model_edges': edge_total}
        cov['edges_replayed'] = edge_total
        # 4. TLC validates every record
        samples = []
        merged_all = work.path('all.ndjson')
        with open(merged_all, 'w', encoding='utf-8') as mf:
            for p in [single, rnd] + edge_files:
                with open(p, encoding='utf-8') as f:
                    first = f.readline()
                    mf.write(first)
                    shutil.copyfileobj(f, mf)
                first = json.loads(first)
                samples.append({'k': first['k'], 'src': first['src'], 'backend': first.get('backend'),
                                'files': first.get('files'), 'members': [[m['backend'], m['pfx']] for m in first.get('members', [])],
                                'first_walk': (first['walks'] or [None])[0]})
        allm, st = core.validate_records('FsSemTrace', 'FsSemTrace.cfg', merged_all, work=work, timeout=3000)
        total = st['records']
        cov['states'] += st['states']
        cov['transitions'] += st['transitions']
        bad = [m for m in allm if m['clause'].startswith('input.')]
        if bad:
            raise MachineryError(f'harness input not a concretisation of the model: {bad[0]["clause"]} in record {bad[0]["index"]}')
        cov['traces_validated_against_impl'] = total
        cov['records_validated'] = total
        cov['mismatches'] = len(allm)
        cov['samples'] = samples
        cov['exhaustive'] = True
        cov['rule'] = ('every file set of <= 3 of the names {a/x, a/X, ab/x, a/b/x, x, A/x} on 4 backends x all case/separator '
                       'spellings x 12 folders; every add_sys transition of ' + ', '.join(EDGES[tier]) + ' replayed on real '
                       'chains with mixed backends (10 look-ups, 8 walks each); seeded random larger file sets and chains')
        known, new = core.classify(PROP, [sig_of(m) for m in allm])
        return core.finish(PROP, tier=tier, seed=seed, t0=t0, coverage=cov, known=known, new=new,
                           assumptions=['pure-Python srctools from /repo/src',
                                        'case-sensitive POSIX filesystem under /tmp; the directory backend is bound for exact-case spellings only',
                                        'VPK fixtures written by the harness encoder (version 1, preload or trailing data)',
                                        'str.casefold supplies the fold table; TLC 1.8 evaluates FsSemOps correctly'])
    finally:
        work.cleanup()


def replay(path: str) -> int:
    work = core.Work()
    try:
        out = work.path('replay.ndjson')
        core.run_driver('c19_driver.py', ['replay', path, out])
        mism, _ = core.validate_records('FsSemTrace', 'FsSemTrace.cfg', out, work=work, shards=1)
        known, new = core.classify(PROP, [sig_of(m) for m in mism])
        for s in new:
            print(f'VIOLATION property={PROP} replay={path} clause={s["clause"]}')
        if not new:
            print(f'OK replay={path}: no violation reproduced ({len(mism)} known)')
        return 1 if new else 0
    finally:
        work.cleanup()
