"""Sub-check shared by C09 (and usable alone): the Keyvalues mutator model KvTree.
collect() returns coverage numbers and mismatch signatures; the caller classifies them."""
from __future__ import annotations

import json

from vlib import core
from vlib.tlc import run_tlc


def collect(tier: str, seed: int, work: core.Work) -> dict:
    cov = {'states': 0, 'transitions': 0, 'models': {}}
    mcs = ['KvTree2_mc.cfg', 'KvTreeP_mc.cfg'] + (['KvTree_mc.cfg'] if tier == 'thorough' else [])
    for cfg in mcs:
        r = run_tlc('KvTree', cfg, timeout=600)
        core.require_mc(r, cfg)
        cov['models'][cfg] = {'generated': r.generated, 'distinct': r.distinct, 'depth': r.depth}
        cov['states'] += r.distinct
        cov['transitions'] += r.generated
    edges, r = core.dump_edges('KvTree', 'KvTree2_edges.cfg')
    edges_p, r = core.dump_edges('KvTree', 'KvTreeP_edges.cfg')    # set_key((a, b), v) paths
    edges = edges + edges_p
    actions: dict = {}
    for e in edges:
        actions[e['a']['op']] = actions.get(e['a']['op'], 0) + 1
    want = {'append', 'setstr', 'delstr', 'extend', 'iadd', 'add', 'copymut', 'ensure', 'merge', 'clear', 'lookup', 'setpath'}
    if not want <= set(actions):
        raise core.MachineryError(f'KvTree: actions never taken: {want - set(actions)}')
    ef = work.path('kvtree_edges.json')
    ef.write_text(json.dumps(edges))
    env = {'VERIF_SEED': seed, 'VERIF_TIER': tier}
    o1 = work.path('kvtree_edges.ndjson')
    core.run_driver('kvtree_driver.py', ['edges', ef, o1], env=env)
    o2 = work.path('kvtree_random.ndjson')
    core.run_driver('kvtree_driver.py', ['random', o2], env=env)
    sigs = []
    total = 0
    samples = []
    for p in (o1, o2):
        mism, st = core.validate_records('KvTreeTrace', 'KvTreeTrace.cfg', p, work=work)
        total += st['records']
        cov['states'] += st['states']
        cov['transitions'] += st['transitions']
        for m in mism:
            sig = dict(m['rec'].get('sig', {}))
            sig.update(clause=m['clause'], expected=m['exp'], record=m['rec'])
            # C09 speaks about copies of Keyvalues trees and about '+' leaving its operands unchanged:
            # only those clauses are violations; the other mutators' exact semantics are growth.
            op = m['rec'].get('a', {}).get('op')
            if not (op in ('add', 'copymut') and m['clause'] in ('kv.left_operand', 'kv.right_operand')):
                sig['drift'] = 'KvTree'
            sigs.append(sig)
        rs = core.read_ndjson(p)
        samples.append(rs[len(rs) // 3])
    cov['kvtree_actions'] = actions
    cov['kvtree_edges_replayed'] = len(edges)
    cov['kvtree_records'] = total
    return {'cov': cov, 'sigs': sigs, 'records': total, 'samples': samples}
