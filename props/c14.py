"""C14 - DMX export/parse preserves the element graph in binary and KeyValues2 form."""
from __future__ import annotations

import concurrent.futures as cf
import json
import time

from vlib import core
from vlib.tlc import run_tlc

PROP = 'C14'

MANIFEST = dict(
    technique='TLA+ model (DmxGraph, DmxGraphKv1) checked by TLC; every model transition replayed on real srctools.dmx Elements; written bytes projected by an independent binary walker / KeyValues2 scanner; all records validated by TLC (DmxGraphTrace)',
    category='model_checking',
    text='TLC exhausts the element-graph design: all reference graphs over 3 elements with up to 3 (thorough 4) attribute/array slots (self reference, mutual cycles, shared children, NULL and stubs inside arrays, empty arrays) x binary v1-v5 and KeyValues2 nested/flat x cull_uuid, and every plain value type as scalar / 1- and 2-element / empty array plus text of three classes in every place text can stand, and the name attribute as an optional member (removed by del/pop/clear, removed and set again behind other attributes, spelled Name; on a lone root, on a root followed by a child with attributes, on the child) x 9 encodings x 3 unicode modes, with the invariants: type codes decode to what was encoded, the element table is a valid listing, the abstract binary file parses back to the graph, the text writer terminates, parse(export(g)) is isomorphic to g keeping exactly the UUIDs the encoding stores, inexpressible combinations are refused. Every one of these transitions is executed on real Element objects; TLC then checks each logged case against the same operators: the element table, type bytes, array counts, reference indexes, values and string table found in the written bytes by an independent reader equal BinFile(g); the top-level elements and id lines of the text equal Kv2Top/Keep; the parsed graph equals ParseBin(bytes) and is isomorphic to g; from_kv1/to_kv1 equal FromKv1/ToKv1 for all 9114 (quick 614) small trees. Seeded random graphs up to 25 elements with all value types far outside the bounds are validated the same way.',
    design_ref='4 (C14)',
    note='Values are opaque symbols for TLC (the driver maps concrete values to symbols by exact equality; numbers are drawn per encoding: for binary the bounds of each wire type and representable values that are inexact in double arithmetic, found by search (tick counts n with n/10000*10000 one ulp below n, float32 of j/10, float32 extremes, int32 and byte bounds); for text values only the text keeps (six decimals, integers beyond 32 bits, arbitrary doubles where repr is written); builder steps use values exact everywhere). Element types that collide with value-type names and binary v0 are outside the property. Pure-Python tree only.',
)

FEATURES = ('has_stub', 'scalar14', 'na_strarr', 'na_type', 'esc_aname', 'ncase', 'has_time')


def sig_of(m: dict) -> dict:
    rec = m['rec']
    sig = dict(rec.get('sig', {}))
    sig['clause'] = m['clause']
    sig['expected'] = m['exp']
    sig['record'] = {k: v for k, v in rec.items() if k not in ('sig',)}
    return sig


def dump(module: str, cfg: str, work: core.Work, timeout: float) -> tuple[list, object, str]:
    r = run_tlc(module, cfg, workers=1, timeout=timeout)
    core.require_mc(r, cfg)
    edges = [p for p in r.prints if isinstance(p, dict) and p.get('tag') == 'EDGE']
    path = work.path(cfg + '.json')
    path.write_text(json.dumps(edges))
    return edges, r, str(path)


def run(tier: str, seed: int) -> int:
    t0 = time.time()
    work = core.Work()
    thorough = tier == 'thorough'
    try:
        cov = {'states': 0, 'transitions': 0, 'models': {}}
        recs = []
        actions: dict = {}
        exports = builds = 0
        # 1+2. the design, exhaustively (the edge configurations carry every invariant of the
        # _mc configurations and print each transition once), then each transition on real objects
        fams = [('DmxGraph', 'DmxGraphT_edges.cfg' if thorough else 'DmxGraph_edges.cfg'),
                ('DmxGraph', 'DmxGraphTyped_edges.cfg')]
        if thorough:
            fams.append(('DmxGraph', 'DmxGraphTypedT_edges.cfg'))

        def family(job):
            """TLC dumps the edges of one configuration (single worker), the driver replays them."""
            module, cfg = job
            edges, r, path = dump(module, cfg, work, 3000)
            n_exp = sum(1 for e in edges if e['a']['op'] == 'export')
            n_ok = sum(1 for e in edges if e['a']['op'] == 'export' and e['a']['ok'])
            # printed edges = all transitions except the initial state and the Parse steps (one per written file)
            if len(edges) != r.generated - 1 - n_ok:
                raise core.MachineryError(f'{cfg}: {len(edges)} edges printed, {r.generated} states generated, {n_ok} files')
            ops: dict = {}
            for e in edges:
                ops[e['a']['op']] = ops.get(e['a']['op'], 0) + 1
            ops['parse'] = n_ok
            out = work.path(cfg + '.ndjson')
            st = json.loads(core.run_driver('c14_driver.py', ['edges', path, out],
                                            env={'VERIF_SEED': seed, 'VERIF_TIER': tier}).strip().splitlines()[-1])
            if st.get('exports', 0) != n_exp or st.get('builds', 0) != len(edges) - n_exp or st.get('pre_state_diverged'):
                raise core.MachineryError(f'{cfg}: coverage handshake failed: driver {st}, model exports {n_exp}, edges {len(edges)}')
            return cfg, r, out, n_exp, len(edges) - n_exp, ops

        def kv1_family():
            """KeyValues1 bridge: TLC enumerates the trees, the driver converts each."""
            cfg = 'DmxGraphKv1_edges.cfg' if thorough else 'DmxGraphKv1Q_edges.cfg'
            edges, r, path = dump('DmxGraphKv1', cfg, work, 1800)
            if len(edges) != r.generated - 1:
                raise core.MachineryError(f'{cfg}: {len(edges)} edges for {r.generated} states')
            out = work.path('kv1.ndjson')
            st = json.loads(core.run_driver('c14_driver.py', ['kv1', path, out],
                                            env={'VERIF_SEED': seed, 'VERIF_TIER': tier}).strip().splitlines()[-1])
            if st.get('kv1_edges') != len(edges):
                raise core.MachineryError(f'kv1 coverage handshake failed: {st} vs {len(edges)} trees')
            return cfg, r, out, len(edges)

        with cf.ThreadPoolExecutor(max_workers=len(fams) + 1) as ex:
            kv_future = ex.submit(kv1_family)
            results = list(ex.map(family, fams))
            kv_cfg, kv_r, kv_out, kv_n = kv_future.result()
        for cfg, r, out, n_exp, n_build, ops in results:
            cov['models'][cfg] = {'generated': r.generated, 'distinct': r.distinct, 'depth': r.depth}
            cov['states'] += r.distinct
            cov['transitions'] += r.generated
            for k, v in ops.items():
                actions[k] = actions.get(k, 0) + v
            exports += n_exp
            builds += n_build
            recs.append(out)
        want = {'scalar_ref', 'ref_array', 'append_ref', 'value', 'place', 'nameplace', 'export', 'parse'}
        if not want <= set(actions):
            raise core.MachineryError(f'vacuous model: actions never taken: {want - set(actions)}')
        recs.append(kv_out)
        cov['models'][kv_cfg] = {'generated': kv_r.generated, 'distinct': kv_r.distinct, 'depth': kv_r.depth}
        cov['states'] += kv_r.distinct
        cov['transitions'] += kv_r.generated
        actions['tree'] = kv_n
        if thorough:
            # larger bounds, design only
            for module, cfg in (('DmxGraph', 'DmxGraph4_mc.cfg'),):
                r = run_tlc(module, cfg, timeout=3000)
                core.require_mc(r, cfg)
                cov['models'][cfg] = {'generated': r.generated, 'distinct': r.distinct, 'depth': r.depth}
                cov['states'] += r.distinct
                cov['transitions'] += r.generated
        # 3. random graphs outside the bounds
        out = work.path('random.ndjson')
        core.run_driver('c14_driver.py', ['random', out], env={'VERIF_SEED': seed, 'VERIF_TIER': tier})
        recs.append(out)
        # 4. TLC validates every record (one merged file: fewer JVM starts)
        merged = work.path('all.ndjson')
        samples = []
        with open(merged, 'w', encoding='utf-8') as mf:
            for p in recs:
                text = open(p, encoding='utf-8').read()
                mf.write(text)
                lines = text.splitlines()
                s = json.loads(lines[len(lines) // 2])
                samples.append({k: v for k, v in s.items() if k not in ('conc', 'na')})
        allm, st = core.validate_records('DmxGraphTrace', 'DmxGraphTrace.cfg', merged, work=work)
        total = st['records']
        cov['states'] += st['states']
        cov['transitions'] += st['transitions']
        cov['traces_validated_against_impl'] = total
        cov['records_validated'] = total
        cov['edges_replayed'] = exports + builds + actions['tree']
        cov['exports_replayed'] = exports
        cov['actions_covered'] = actions
        cov['mismatches'] = len(allm)
        cov['samples'] = samples
        cov['exhaustive'] = True
        cov['rule'] = ('every transition of the bounded DmxGraph model (graph family: 3 elements, up to %d attribute/array '
                       'slots, 9 encodings; typed family: 13 value types x scalar/array/empty x 3 text classes x 6 text '
                       'places x 9 encodings x 3 unicode modes) built through the public mutators and exported/parsed; all '
                       'KV1 trees of the bounded family; seeded random graphs (up to 25 elements) beyond the bounds'
                       % (4 if thorough else 3))
        known, new = core.classify(PROP, [sig_of(m) for m in allm])
        return core.finish(PROP, tier=tier, seed=seed, t0=t0, coverage=cov, known=known, new=new,
                           assumptions=['pure-Python srctools from /repo/src',
                                        'values are compared by exact equality after mapping to symbols; numbers are drawn exactly representable in every wire type',
                                        'the harness binary walker / KeyValues2 scanner implement the format description correctly (they are checked against the specification, not against srctools)',
                                        'TLC 1.8 evaluates DmxGraphOps correctly'])
    finally:
        work.cleanup()


def replay(path: str) -> int:
    work = core.Work()
    try:
        out = work.path('replay.ndjson')
        core.run_driver('c14_driver.py', ['replay', path, out])
        mism, _ = core.validate_records('DmxGraphTrace', 'DmxGraphTrace.cfg', out, work=work, shards=1)
        known, new = core.classify(PROP, [sig_of(m) for m in mism])
        for s in new:
            print(f'VIOLATION property={PROP} replay={path} clause={s["clause"]}')
        if not new:
            print(f'OK replay={path}: no violation reproduced ({len(mism)} known)')
        return 1 if new else 0
    finally:
        work.cleanup()
