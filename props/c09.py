"""C09 - Copies of map objects are complete and independent of their source; operators documented as
producing a new value leave their operands unchanged."""
from __future__ import annotations

import concurrent.futures as cf
import json
import time

from vlib import core
from vlib.tlc import MachineryError, run_tlc

PROP = 'C09'

MANIFEST = dict(
    technique='TLA+ model (Alias: class schemas, heap cells, deep copy with fresh cells, in-place mutation, operators) checked by TLC; every TLC-enumerated (class, optional blocks, copy target, cell or method, side) case executed on real objects; real heap walks and export text validated by TLC (AliasTrace)',
    category='model_checking',
    text='The class schemas of every class of srctools.vmf that can be copied - Entity / Solid / Side (with DispVertex, UVAxis) / Output / VisGroup / EntityGroup / Camera / Cordon / UVAxis / EntityFixup (copy.copy, copy.deepcopy; with FixupValue) - and of Keyvalues are constants (the set of classes defining copy/__copy__/__deepcopy__ and their declared fields is read reflectively from the code on every run and must coincide with the root classes and schemas of the model, else machinery failure) of the specification. TLC checks on the model that a copy reaches no cell of its source, exports identically (IDs and map aside), and that every in-place mutation of any cell or by any mutating method on one side leaves the other side\'s export unchanged, for every combination of optional blocks (displacement, multiblend, strata points, fixups, outputs, brushes, visgroup children, nested keyvalues) and both copy targets. Every such case is executed on real objects: the driver walks the real heap (attributes, slots, containers) of original and copy, TLC requires the set of shared mutable cells to be empty, every object to have exactly the fields of its schema, the copy to carry every field and export key of the source apart from IDs, and the untouched side to be unchanged after each mutation (all real cells, not only the model\'s; seeded multi-step mutation sequences; copies made by collapse_one). 38 operator/operand-type combinations (Keyvalues +, Vec/Angle/Matrix arithmetic incl. frozen types) are executed with operand snapshots before/after. The Keyvalues mutators are covered by a second model (KvTree: append, set, delete, extend, +=, +, copy-then-mutate at every depth, ensure_exists, merge_children, set_key paths, lookups), all ~41k transitions replayed on real Keyvalues objects.',
    design_ref='4 (C09)',
    note='Trusts TLC, the generic heap walker (slots, __dict__, list/dict/set/array items; VMF objects are context, not content) and SHA-1 digests of walks/exports used for the before/after comparison of mutation records. Displacements of power 1, lists of 2 elements; float content is compared by repr, no arithmetic is judged. Pure-Python tree only.',
)


def bookkeeping(clause: str) -> bool:
    """Clauses TLC reports for the record only (counted in the evidence): a probe mutation that changed nothing
    or raised, an operator that refused its operands, the content of a Keyvalues sum, fields outside the schema."""
    return clause == 'noeffect' or clause.startswith('note.')


def sig_of(m: dict) -> dict:
    rec = m['rec']
    sig = dict(rec.get('sig', {}))
    sig['clause'] = m['clause']
    exp = m['exp'] if isinstance(m['exp'], dict) else {'what': '', 'd': m['exp']}
    sig['what'] = exp.get('what')
    sig['expected'] = exp.get('d')
    keep = ('k', 'cls', 'opts', 'how', 'mut', 'earlier', 'what', 'exc', 'f', 'lt', 'rt', 'shared', 'delta', 'edelta', 'wd', 'ed')
    sig['record'] = {k: v for k, v in rec.items() if k in keep}
    return sig


def _par(script_args, nparts: int, work: core.Work, tag: str, env: dict) -> tuple:
    outs = [work.path(f'{tag}.{p}.ndjson') for p in range(nparts)]

    def one(p):
        return json.loads(core.run_driver('c09_driver.py', script_args(outs[p], p, nparts), env=env).strip().splitlines()[-1])
    with cf.ThreadPoolExecutor(max_workers=nparts) as ex:
        stats = list(ex.map(one, range(nparts)))
    merged = work.path(f'{tag}.ndjson')
    with open(merged, 'w', encoding='utf-8') as f:
        for o in outs:
            f.write(o.read_text(encoding='utf-8'))
    tot: dict = {}
    for s in stats:
        for k, v in s.items():
            tot[k] = tot.get(k, 0) + v
    return merged, tot


def run(tier: str, seed: int) -> int:
    t0 = time.time()
    work = core.Work()
    thorough = tier == 'thorough'
    try:
        cov = {'states': 0, 'transitions': 0, 'models': {}}
        env = {'VERIF_SEED': seed, 'VERIF_TIER': tier}
        # 1. the design
        for cfg in (('Alias_mcq.cfg', 'Alias_mc.cfg') if thorough else ('Alias_mcq.cfg',)):
            r = run_tlc('Alias', cfg, timeout=1500)
            core.require_mc(r, cfg)
            cov['models'][cfg] = {'generated': r.generated, 'distinct': r.distinct, 'depth': r.depth}
            cov['states'] += r.distinct
            cov['transitions'] += r.generated
        # 2. every case of the model on real objects
        cfg = 'Alias_edges.cfg' if thorough else 'Alias_edgesq.cfg'
        r = run_tlc('Alias', cfg, workers=1, timeout=1500)
        core.require_mc(r, cfg)
        edges = [p for p in r.prints if isinstance(p, dict) and p.get('tag') == 'EDGE']
        if len(edges) != r.generated - len({(e['cls'], tuple(sorted(e['opts'])), e['how']) for e in edges}):
            raise MachineryError(f'{cfg}: {len(edges)} edges printed for {r.generated} generated states')
        ops = {}
        for e in edges:
            ops[e['a']['op']] = ops.get(e['a']['op'], 0) + 1
        if not {'copy', 'cell', 'method', 'binop'} <= set(ops):
            raise MachineryError(f'vacuous model: actions never taken: {ops}')
        classes = {e['cls'] for e in edges}
        # coverage handshake with the code: every class of srctools.vmf (and Keyvalues) that defines copy(),
        # __copy__() or __deepcopy__() must be a root class of the model, probed through each of its copy
        # entry points, and the fields its definition declares must be the fields the heap walk sees
        inv = json.loads(core.run_driver('c09_driver.py', ['inventory'], env=env).strip().splitlines()[-1])
        hows = {}
        for e in edges:
            hows.setdefault(e['cls'], set()).add(e['how'])
        for name, d in sorted(inv['classes'].items()):
            if name not in classes or name not in inv['probed']:
                raise MachineryError(f'copyable class {name} ({d["how"]}) has no probe in the Alias model / driver')
            need = {'copy': 'same', '__copy__': 'copy', '__deepcopy__': 'deepcopy'}
            missing = [m for m in d['how'] if need[m] not in hows[name]]
            if missing:
                raise MachineryError(f'{name}: copy entry points {missing} are not exercised (model has {sorted(hows[name])})')
            if sorted(d['fields']) != inv['walked'].get(name):
                raise MachineryError(f'{name}: declared fields {d["fields"]} but the heap walk sees {inv["walked"].get(name)}')
        if classes != set(inv['classes']) | {'Operator'}:
            raise MachineryError(f'classes explored {sorted(classes)} but the code has {sorted(inv["classes"])}')
        cov['copyable_classes'] = {n: d['how'] for n, d in sorted(inv['classes'].items())}
        ef = work.path('edges.json')
        ef.write_text(json.dumps(edges))
        cases = sorted({(e['cls'], tuple(sorted(e['opts'])), e['how']) for e in edges if e['cls'] != 'Operator'})
        cf_ = work.path('cases.json')
        cf_.write_text(json.dumps([[c, list(o), h] for c, o, h in cases]))
        optab = sorted({(e['a']['f'], e['a']['lt'], e['a']['rt']) for e in edges if e['a']['op'] == 'binop'})
        of = work.path('ops.json')
        of.write_text(json.dumps(optab))
        nparts = 12 if thorough else 6
        recs = []
        merged, st = _par(lambda o, p, n: ['edges', ef, o, p, n], nparts, work, 'edges', env)
        if st.get('edges_replayed', 0) + st.get('binops', 0) != len(edges):
            raise MachineryError(f'{st} but TLC enumerated {len(edges)} edges')
        cov['edges_replayed'] = len(edges)
        cov['actions_covered'] = ops
        cov['object_cases'] = len(cases)
        cov['operator_cases'] = len(optab)
        recs.append(merged)
        # 3. all REAL cells beyond the model's two-element lists, collapse_one copies
        merged, st2 = _par(lambda o, p, n: ['cells', cf_, o, p, n], nparts, work, 'cells', env)
        cov['real_cell_mutations'] = st2.get('mutations', 0)
        cov['collapse_copies'] = st2.get('copies', 0)
        if not st2.get('mutations') or not st2.get('copies'):
            raise MachineryError(f'cells driver produced nothing: {st2}')
        recs.append(merged)
        # 4. seeded sequences, operators with other operand values
        out = work.path('random.ndjson')
        st3 = json.loads(core.run_driver('c09_driver.py', ['random', cf_, out, of], env=env).strip().splitlines()[-1])
        if not st3.get('mutations') or not st3.get('binops'):
            raise MachineryError(f'random driver produced nothing: {st3}')
        cov['random_sequences'] = st3['mutations']
        cov['operator_runs'] = st3['binops'] + ops.get('binop', 0)
        recs.append(out)
        # 5. TLC validates every record
        allm = []
        total = 0
        vac = 0
        notes: dict = {}
        samples = []
        for p in recs:
            mism, vst = core.validate_records('AliasTrace', 'AliasTrace.cfg', p, work=work, timeout=3000)
            vac += sum(1 for m in mism if m['clause'] == 'noeffect')
            for m in mism:
                if m['clause'].startswith('note.'):
                    notes[m['clause']] = notes.get(m['clause'], 0) + 1
            allm += [m for m in mism if not bookkeeping(m['clause'])]
            total += vst['records']
            cov['states'] += vst['states']
            cov['transitions'] += vst['transitions']
            rs = core.read_ndjson(p)
            mid = rs[len(rs) // 2]
            samples.append({k: mid[k] for k in ('k', 'cls', 'opts', 'how', 'mut', 'what', 'sig') if k in mid})
        if vac * 10 > total:
            raise MachineryError(f'{vac} of {total} mutation records had no effect on the mutated side (vacuous)')
        cov['traces_validated_against_impl'] = total
        cov['records_validated'] = total
        cov['mutations_without_effect'] = vac
        cov['notes_not_verdicts'] = notes
        if (notes.get('note.binop.raised', 0) * 2 > cov['operator_runs']
                or (notes.get('note.mutate.raised', 0) + vac) * 10 > total):
            raise MachineryError(f'too many probes raised / had no effect to call the run meaningful: {notes}, noeffect={vac}')
        cov['mismatches'] = len(allm)
        cov['samples'] = samples
        cov['exhaustive'] = True
        cov['rule'] = ('every (class, optional-block set, copy target, mutable cell or mutating method, side) of the Alias model '
                       '(specs/Alias_edges*.cfg) executed on real objects; every mutable cell of the real heap of each case; '
                       'copies through collapse_one; seeded multi-step sequences; every operator/operand-type row of OpTable')
        # 6. the Keyvalues mutator model (KvTree): copying operators leave operands unchanged and
        #    copies (also of empty blocks, at any depth) are independent
        from props import sub_kvtree
        kv = sub_kvtree.collect(tier, seed, work)
        cov['states'] += kv['cov']['states']
        cov['transitions'] += kv['cov']['transitions']
        cov['models'].update(kv['cov']['models'])
        for k in ('kvtree_actions', 'kvtree_edges_replayed', 'kvtree_records'):
            cov[k] = kv['cov'][k]
        cov['traces_validated_against_impl'] += kv['records']
        cov['records_validated'] += kv['records']
        cov['samples'] = samples + kv['samples'][:1]
        all_sigs = [sig_of(m) for m in allm] + kv['sigs']
        cov['mismatches'] = len(all_sigs)
        known, new = core.classify(PROP, all_sigs)
        groups: dict = {}
        for s in new:
            gk = (s.get('kind'), s.get('action'), s['clause'], s.get('what'), s.get('how'), s.get('side'), s.get('opts'))
            groups.setdefault(gk, []).append(s)
        import sys
        for gk, ss in sorted(groups.items(), key=str)[:60]:
            print(f'  new: {gk} x{len(ss)} {str(ss[0].get("expected"))[:300]}', file=sys.stderr)
        return core.finish(PROP, tier=tier, seed=seed, t0=t0, coverage=cov, known=known, new=new,
                           assumptions=['pure-Python srctools from /repo/src (Cython accelerators cannot be built here)',
                                        'the heap walker sees every attribute (slots of the MRO, __dict__) and container item',
                                        'SHA-1 digests stand for the walk / export text in before-after comparisons',
                                        'TLC 1.8 evaluates AliasOps correctly'])
    finally:
        work.cleanup()


def replay(path: str) -> int:
    work = core.Work()
    try:
        out = work.path('replay.ndjson')
        import json as _json
        stored = _json.load(open(path))
        if stored.get('kind') == 'keyvalues':      # a KvTree record: re-execute the one call
            core.run_driver('kvtree_driver.py', ['replay', path, out])
            mism, _ = core.validate_records('KvTreeTrace', 'KvTreeTrace.cfg', out, work=work, shards=1)
            bad = [m for m in mism]
            for m in bad:
                print(f'VIOLATION property={PROP} replay={path} clause={m["clause"]} what=keyvalues')
            if not bad:
                print(f'OK replay={path}: no violation reproduced')
            return 1 if bad else 0
        core.run_driver('c09_driver.py', ['replay', path, out])
        mism, _ = core.validate_records('AliasTrace', 'AliasTrace.cfg', out, work=work, shards=1)
        known, new = core.classify(PROP, [sig_of(m) for m in mism if not bookkeeping(m['clause'])])
        for s in new:
            print(f'VIOLATION property={PROP} replay={path} clause={s["clause"]} what={s["what"]}')
        if not new:
            print(f'OK replay={path}: no violation reproduced ({sum(len(v) for v in known.values())} known)')
        return 1 if new else 0
    finally:
        work.cleanup()
