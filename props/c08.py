"""C08 - IDs handed out inside one VMF are unique per kind and never reused while live."""
from __future__ import annotations

import json
import time

from vlib import core
from vlib.tlc import run_tlc

PROP = 'C08'

MANIFEST = dict(
    technique='TLA+ model (IdAlloc) checked by TLC; every model transition replayed on real VMF objects; implementation records validated by TLC (IdAllocTrace)',
    category='model_checking',
    text='TLC exhausts the ID allocation design (IdAlloc: 3 object slots x 2 maps x desired IDs -1..3; fixup tables over 3 variables; NodeId: the node-ID ownership protocol over 3 entities with every public entry point - create_ent, Entity(), copy, add_ent/add_ents, remove_ent/remove (also repeated), key assignment and deletion inside and outside the map, destruction) with uniqueness, positivity, reservation, hint and no-leak invariants; every one of the ~150k transitions is executed on real Entity/Solid/Side/VisGroup/EntityGroup/EntityFixup objects and each logged step must be a step of the specification from the logged pre-state for some choice of a fresh positive ID (the wish when it is free; nothing else released; every live ID reserved); seeded random histories, parsed documents with colliding IDs, node-ID histories with entities kept outside the map, instance collapses and fixup tables beyond the bounds are validated the same way. A further model (FixupMap) covers EntityFixup as a whole mapping (spellings with/without $, case folding, first spelling kept, values, replaceNN indexes, export order); its 13k transitions are replayed too.',
    design_ref='4 (C08)',
    note='Trusts TLC, the projection (IDMan._used/search_pos, .id attributes) and CPython reference counting for object destruction. Pure-Python tree only.',
)


def sig_of(m: dict) -> dict:
    rec = m['rec']
    sig = dict(rec.get('sig', {}))
    sig['clause'] = m['clause']
    sig['expected'] = m['exp']
    sig['record'] = {k: v for k, v in rec.items() if k not in ('sig',)}
    # FixupMap: C08 speaks about the replaceNN indexes of one entity's fixups (distinct, positive,
    # one entry per variable); spellings, values and export order of the mapping are growth.
    if m['clause'].startswith('fixmap.') and m['clause'] not in ('fixmap.index', 'fixmap.keys'):
        sig['drift'] = 'FixupMap'
    return sig


def _validate(module: str, path, work) -> dict:
    mism, st = core.validate_records(module, module + '.cfg', path, work=work, shards=8)
    rs = core.read_ndjson(path)
    sample = {k: v for k, v in rs[len(rs) // 2].items() if k != 'doc'} if rs else None
    return {'mism': mism, 'records': st['records'], 'states': st['states'], 'transitions': st['transitions'],
            'sample': sample}


def _mc(module: str, cfg: str, workers: int = 8) -> dict:
    r = run_tlc(module, cfg, workers=workers)
    core.require_mc(r, cfg)
    return {'models': {cfg: {'generated': r.generated, 'distinct': r.distinct, 'depth': r.depth}},
            'states': r.distinct, 'transitions': r.generated}


def _phase_design(tier: str) -> dict:
    """1. the design: exhaustive model checking."""
    mcs = [('IdAlloc', 'IdAlloc_mc.cfg'), ('IdAlloc', 'IdAllocEnt_mc.cfg'), ('IdAlloc', 'IdAllocFix_mc.cfg'),
           ('FixupMap', 'FixupMap_mc.cfg'), ('NodeId', 'NodeId_mc4.cfg' if tier == 'thorough' else 'NodeId_mc.cfg')]
    if tier == 'thorough':
        mcs.append(('IdAlloc', 'IdAllocEnt_mc4.cfg'))   # 4 object slots, desired IDs -1..4 (design only)
    out = {'models': {}, 'states': 0, 'transitions': 0}
    for module, cfg in mcs:
        r = _mc(module, cfg)
        out['models'].update(r['models'])
        out['states'] += r['states']
        out['transitions'] += r['transitions']
    return out


def _phase_edges(module: str, cfg: str, mode_args, trace: str, tier: str, seed: int, work) -> dict:
    """2. every transition of a bounded model, replayed on the real objects, judged by TLC."""
    r = run_tlc(module, cfg, workers=1)
    core.require_mc(r, cfg)
    edges = [p for p in r.prints if isinstance(p, dict) and p.get('tag') == 'EDGE']
    if len(edges) != r.generated - 1:
        raise core.MachineryError(f'{cfg}: {len(edges)} edges printed for {r.generated} generated states')
    ops: dict = {}
    for e in edges:
        ops[e['a']['op']] = ops.get(e['a']['op'], 0) + 1
    ef = work.path(cfg + '.json')
    ef.write_text(json.dumps(edges))
    out = work.path(cfg + '.ndjson')
    core.run_driver('c08_driver.py', [a if a is not None else (ef if i == 1 else out)
                                     for i, a in enumerate(mode_args)],
                    env={'VERIF_SEED': seed, 'VERIF_TIER': tier})
    v = _validate(trace, out, work)
    v.update(ops=ops, edges=len(edges), cfg=cfg)
    return v


def run(tier: str, seed: int) -> int:
    from concurrent.futures import ThreadPoolExecutor
    t0 = time.time()
    work = core.Work()
    try:
        cov = {'states': 0, 'transitions': 0, 'models': {}}
        kinds = 'solid,side' if tier == 'quick' else 'solid,side,vis,group'
        with ThreadPoolExecutor(max_workers=8) as ex:
            f_design = ex.submit(_phase_design, tier)
            # mode_args: None placeholders are (1) the edge file, (last) the output file
            f_edges = [
                ex.submit(_phase_edges, 'IdAlloc', 'IdAlloc_edges.cfg', ['edges', None, kinds, None], 'IdAllocTrace', tier, seed, work),
                ex.submit(_phase_edges, 'IdAlloc', 'IdAllocEnt_edges.cfg', ['edges', None, 'ent', None], 'IdAllocTrace', tier, seed, work),
                ex.submit(_phase_edges, 'IdAlloc', 'IdAllocFix_edges.cfg', ['edges', None, 'ent', None], 'IdAllocTrace', tier, seed, work),
                ex.submit(_phase_edges, 'NodeId', 'NodeId_edges.cfg', ['nodeedges', None, None], 'IdAllocTrace', tier, seed, work),
                ex.submit(_phase_edges, 'FixupMap', 'FixupMap_edges.cfg', ['fixmap', None, None], 'FixupMapTrace', tier, seed, work),
            ]

            def rnd():
                # 3. random histories outside the bounds
                out = work.path('random.ndjson')
                core.run_driver('c08_driver.py', ['random', out], env={'VERIF_SEED': seed, 'VERIF_TIER': tier})
                return _validate('IdAllocTrace', out, work)
            f_rnd = ex.submit(rnd)
            d = f_design.result()
            parts = [f.result() for f in f_edges]
            parts.append(f_rnd.result())
        cov['models'] = d['models']
        cov['states'] += d['states']
        cov['transitions'] += d['transitions']
        actions: dict = {}
        for v in parts[:3]:
            for k, n in v['ops'].items():
                actions[k] = actions.get(k, 0) + n
        want = {'create', 'copy', 'detach', 'attach', 'drop', 'fixset', 'fixdel'}
        if not want <= set(actions):
            raise core.MachineryError(f'vacuous model: actions never taken: {want - set(actions)}')
        if not {'construct', 'create', 'copy', 'add', 'remove', 'set', 'del', 'destroy'} <= set(parts[3]['ops']):
            raise core.MachineryError(f'vacuous NodeId model: {parts[3]["ops"]}')
        if not {'set', 'del', 'get', 'setdefault', 'clear', 'copy'} <= set(parts[4]['ops']):
            raise core.MachineryError(f'vacuous FixupMap model: {parts[4]["ops"]}')
        cov['actions_covered'] = actions
        cov['node_actions'] = parts[3]['ops']
        cov['fixmap_actions'] = parts[4]['ops']
        cov['model_edges'] = cov['edges_replayed'] = sum(v['edges'] for v in parts[:5])
        allm = []
        total = 0
        for v in parts:
            allm += v['mism']
            total += v['records']
            cov['states'] += v['states']
            cov['transitions'] += v['transitions']
        cov['traces_validated_against_impl'] = total
        cov['records_validated'] = total
        cov['mismatches'] = len(allm)
        cov['samples'] = [v['sample'] for v in parts if v['sample']]
        cov['exhaustive'] = True
        cov['rule'] = ('every transition of the bounded IdAlloc model (3 object slots, 2 maps, desired IDs -1..3; '
                       'fixup tables over 3 variables), of the NodeId model (3 entities, wishes -1..3 / text / absent) '
                       'and of the FixupMap model replayed by its shortest path on real objects of each kind; '
                       'all IDMan get/discard histories to depth 3 (4 thorough); seeded random histories, documents, '
                       'node-ID histories, instance collapses and fixup tables beyond the bounds')
        known, new = core.classify(PROP, [sig_of(m) for m in allm])
        return core.finish(PROP, tier=tier, seed=seed, t0=t0, coverage=cov, known=known, new=new,
                           assumptions=['pure-Python srctools from /repo/src (Cython accelerators cannot be built here)',
                                        'CPython reference counting destroys an unreferenced object immediately (gc.collect() is also called)',
                                        'TLC 1.8 evaluates IdAllocOps / NodeIdOps / FixupMapOps correctly'])
    finally:
        work.cleanup()


def replay(path: str) -> int:
    """Re-execute a replay file's history on the current tree and let TLC judge it again."""
    work = core.Work()
    try:
        out = work.path('replay.ndjson')
        core.run_driver('c08_driver.py', ['replay', path, out])
        mism, _ = core.validate_records('IdAllocTrace', 'IdAllocTrace.cfg', out, work=work, shards=1)
        known, new = core.classify(PROP, [sig_of(m) for m in mism])
        for s in new:
            print(f'VIOLATION property={PROP} replay={path} clause={s["clause"]}')
        if not new:
            print(f'OK replay={path}: no violation reproduced ({len(mism)} known)')
        return 1 if new else 0
    finally:
        work.cleanup()
