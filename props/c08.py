"""C08 - IDs handed out inside one VMF are unique per kind and never reused while live."""
from __future__ import annotations

import json
import time

from vlib import core
from vlib.tlc import run_tlc

PROP = 'C08'

MANIFEST = dict(
    technique='TLA+ model (IdAlloc) checked by TLC; every model transition replayed on real VMF objects; implementation records validated by TLC (IdAllocTrace)',
    category='model_checking',
    text='TLC exhausts the ID allocation design (3 object slots x 2 maps x desired IDs -1..3; fixup tables over 3 variables) with uniqueness, positivity, hint and no-leak invariants; every one of the ~65k transitions is executed on real Entity/Solid/Side/VisGroup/EntityGroup/EntityFixup objects and each logged step must be exactly the step IdAllocOps takes from the logged pre-state; seeded random histories, parsed documents with colliding IDs, node IDs, instance collapses and fixup tables beyond the bounds are validated the same way. A second model (FixupMap) covers EntityFixup as a whole mapping (spellings with/without $, case folding, first spelling kept, values, replaceNN indexes, export order); its 13k transitions are replayed too.',
    design_ref='4 (C08)',
    note='Trusts TLC, the projection (IDMan._used/search_pos, .id attributes) and CPython reference counting for object destruction. Pure-Python tree only.',
)


def sig_of(m: dict) -> dict:
    rec = m['rec']
    sig = dict(rec.get('sig', {}))
    sig['clause'] = m['clause']
    sig['expected'] = m['exp']
    sig['record'] = {k: v for k, v in rec.items() if k not in ('sig',)}
    return sig


def run(tier: str, seed: int) -> int:
    t0 = time.time()
    work = core.Work()
    try:
        cov = {'states': 0, 'transitions': 0, 'models': {}}
        # 1. the design: exhaustive model checking
        mcs = ['IdAlloc_mc.cfg', 'IdAllocEnt_mc.cfg', 'IdAllocFix_mc.cfg']
        if tier == 'thorough':
            mcs.append('IdAllocEnt_mc4.cfg')   # 4 object slots, desired IDs -1..4 (design only)
        for cfg in mcs:
            r = run_tlc('IdAlloc', cfg)
            core.require_mc(r, cfg)
            cov['models'][cfg] = {'generated': r.generated, 'distinct': r.distinct, 'depth': r.depth}
            cov['states'] += r.distinct
            cov['transitions'] += r.generated
        # 2. every transition of the bounded model, replayed on the real objects
        recs = []
        actions = {}
        edge_total = 0
        for cfg, kinds in (('IdAlloc_edges.cfg', 'solid,side,vis,group'), ('IdAllocEnt_edges.cfg', 'ent'),
                           ('IdAllocFix_edges.cfg', 'ent')):
            r = run_tlc('IdAlloc', cfg, workers=1)
            core.require_mc(r, cfg)
            edges = [p for p in r.prints if isinstance(p, dict) and p.get('tag') == 'EDGE']
            if len(edges) != r.generated - 1:
                raise core.MachineryError(f'{cfg}: {len(edges)} edges printed for {r.generated} generated states')
            for e in edges:
                actions[e['a']['op']] = actions.get(e['a']['op'], 0) + 1
            edge_total += len(edges)
            ef = work.path(cfg + '.json')
            ef.write_text(json.dumps(edges))
            if tier == 'quick' and cfg == 'IdAlloc_edges.cfg':
                kinds = 'solid,side'
            out = work.path(cfg + '.ndjson')
            st = json.loads(core.run_driver('c08_driver.py', ['edges', ef, kinds, out],
                                            env={'VERIF_SEED': seed, 'VERIF_TIER': tier}).strip().splitlines()[-1])
            cov.setdefault('edges_replayed', 0)
            cov['edges_replayed'] += st.get('edges_replayed', 0)
            recs.append(out)
        # 2b. EntityFixup as a whole mapping (FixupMap): spellings, values, indexes, export order
        for cfg in ('FixupMap_mc.cfg',):
            r = run_tlc('FixupMap', cfg)
            core.require_mc(r, cfg)
            cov['models'][cfg] = {'generated': r.generated, 'distinct': r.distinct, 'depth': r.depth}
            cov['states'] += r.distinct
            cov['transitions'] += r.generated
        fedges, r = core.dump_edges('FixupMap', 'FixupMap_edges.cfg')
        fops = {}
        for e in fedges:
            fops[e['a']['op']] = fops.get(e['a']['op'], 0) + 1
        if not {'set', 'del', 'get', 'setdefault', 'clear', 'copy'} <= set(fops):
            raise core.MachineryError(f'vacuous FixupMap model: {fops}')
        cov['fixmap_actions'] = fops
        ef = work.path('fixmap_edges.json')
        ef.write_text(json.dumps(fedges))
        fm_out = work.path('fixmap.ndjson')
        core.run_driver('c08_driver.py', ['fixmap', ef, fm_out], env={'VERIF_SEED': seed, 'VERIF_TIER': tier})
        cov['edges_replayed'] += len(fedges)
        edge_total += len(fedges)
        # 2c. the node-ID protocol (NodeId): every transition on real VMF/Entity objects
        ncfg = 'NodeId_mc4.cfg' if tier == 'thorough' else 'NodeId_mc.cfg'
        r = run_tlc('NodeId', ncfg)
        core.require_mc(r, ncfg)
        cov['models'][ncfg] = {'generated': r.generated, 'distinct': r.distinct, 'depth': r.depth}
        cov['states'] += r.distinct
        cov['transitions'] += r.generated
        nedges, r = core.dump_edges('NodeId', 'NodeId_edges.cfg')
        nops = {}
        for e in nedges:
            nops[e['a']['op']] = nops.get(e['a']['op'], 0) + 1
        if not {'construct', 'create', 'copy', 'add', 'remove', 'set', 'del', 'destroy'} <= set(nops):
            raise core.MachineryError(f'vacuous NodeId model: {nops}')
        cov['node_actions'] = nops
        ef = work.path('node_edges.json')
        ef.write_text(json.dumps(nedges))
        nd_out = work.path('node.ndjson')
        core.run_driver('c08_driver.py', ['nodeedges', ef, nd_out], env={'VERIF_SEED': seed, 'VERIF_TIER': tier})
        cov['edges_replayed'] += len(nedges)
        edge_total += len(nedges)
        recs.append(nd_out)
        want = {'create', 'copy', 'detach', 'attach', 'drop', 'fixset', 'fixdel'}
        if not want <= set(actions):
            raise core.MachineryError(f'vacuous model: actions never taken: {want - set(actions)}')
        cov['actions_covered'] = actions
        cov['model_edges'] = edge_total
        # 3. random histories outside the bounds
        out = work.path('random.ndjson')
        core.run_driver('c08_driver.py', ['random', out], env={'VERIF_SEED': seed, 'VERIF_TIER': tier})
        recs.append(out)
        # 4. TLC validates every record
        allm = []
        total = 0
        samples = []
        for p in recs:
            mism, st = core.validate_records('IdAllocTrace', 'IdAllocTrace.cfg', p, work=work)
            allm += mism
            total += st['records']
            cov['states'] += st['states']
            cov['transitions'] += st['transitions']
            rs = core.read_ndjson(p)
            samples.append({k: v for k, v in rs[len(rs) // 2].items() if k != 'doc'})
        mism, st = core.validate_records('FixupMapTrace', 'FixupMapTrace.cfg', fm_out, work=work)
        allm += mism
        total += st['records']
        cov['states'] += st['states']
        cov['transitions'] += st['transitions']
        cov['traces_validated_against_impl'] = total
        cov['records_validated'] = total
        cov['mismatches'] = len(allm)
        cov['samples'] = samples
        cov['exhaustive'] = True
        cov['rule'] = ('every transition of the bounded IdAlloc model (3 object slots, 2 maps, desired IDs -1..3; '
                       'fixup tables over 3 variables) replayed by its shortest path on real objects of each kind; '
                       'all IDMan get/discard histories to depth 3 (4 thorough); seeded random histories, documents '
                       'and fixup tables beyond the bounds')
        known, new = core.classify(PROP, [sig_of(m) for m in allm])
        return core.finish(PROP, tier=tier, seed=seed, t0=t0, coverage=cov, known=known, new=new,
                           assumptions=['pure-Python srctools from /repo/src (Cython accelerators cannot be built here)',
                                        'CPython reference counting destroys an unreferenced object immediately (gc.collect() is also called)',
                                        'TLC 1.8 evaluates IdAllocOps correctly'])
    finally:
        work.cleanup()


def replay(path: str) -> int:
    """Re-execute a replay file's history on the current tree and let TLC judge it again."""
    work = core.Work()
    try:
        out = work.path('replay.ndjson')
        core.run_driver('c08_driver.py', ['replay', path, out])
        mism, _ = core.validate_records('IdAllocTrace', 'IdAllocTrace.cfg', out, work=work, shards=1)
        known, new = core.classify(PROP, [sig_of(m) for m in mism])
        for s in new:
            print(f'VIOLATION property={PROP} replay={path} clause={s["clause"]}')
        if not new:
            print(f'OK replay={path}: no violation reproduced ({len(mism)} known)')
        return 1 if new else 0
    finally:
        work.cleanup()
