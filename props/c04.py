"""C04 - Angles, matrices and vectors obey the rotation algebra."""
from __future__ import annotations

import concurrent.futures as cf
import json
import time

from vlib import core
from vlib.tlc import run_tlc

PROP = 'C04'

MANIFEST = dict(
    technique='TLA+ model (Rot/RotOps: exact rational rotations, Euler extraction with gimbal branch, operand dispatch table) checked by TLC; TLC-generated expressions replayed on real Vec/Angle/Matrix objects; implementation records validated by TLC (RotTrace)',
    category='model_checking',
    text='TLC checks on exact arithmetic (90-degree lattice and 3-4-5 rationals, all 1728 Euler triples) that from_angle is a proper rotation equal to roll.pitch.yaw, that matrix -> angle -> matrix is the identity including the gimbal branch, inverse = transpose, associativity of every expression ((s OP r1) OP r2) over all 7 operand classes and the forms @, @=, reflected @, and the soundness of the dispatch table. Every TLC-generated expression is executed on the real objects and every operator application (result class, identity, operands before/after, value rounded to the common denominator with error < 1e-9) is judged by TLC against the same operators; from_angle/to_angle/transpose/inverse are validated for every triple of the domain. The continuum (reals, all multiples of 15 degrees, 1e-12..1e-1 degrees around the poles, magnitudes to 1e6) is evaluated numerically by the harness along the same TLC-generated expression shapes, and for every constructor of a rotation (from_basis with each subset of axes, Angle.from_basis, axis_angle, from_yaw/pitch/roll, from_angstr, Vec.to_angle, to_angle_roll) on inputs straddling each numeric threshold found in the source of the constructors (poles, 1e-9..1e-1 off the pole in half-decades, 8 tilt directions, non-unit lengths); TLC only compares those residues with the tolerances of the property (coverage.numeric_residue).',
    design_ref='4 (C04)',
    note='Exact domain decided by TLC; arbitrary reals are a numeric residue computed by the harness with an independent float implementation of the Source convention (TLC has no floats). Pure-Python math.py only (the Cython _math cannot be built here).',
)

NUM_LAWS = {'proper', 'convention', 'roundtrip', 'inverse', 'step', 'assoc',
            'ctor.proper', 'ctor.inverse', 'ctor.length', 'ctor.axis', 'ctor.convention'}


def sig_of(m: dict) -> dict:
    rec = m['rec']
    sig = dict(rec.get('sig', {}))
    sig['clause'] = m['clause']
    sig['expected'] = m['exp']
    sig['record'] = {k: v for k, v in rec.items() if k not in ('sig',)}
    sig['record']['sig'] = rec.get('sig', {})
    return sig


def run(tier: str, seed: int) -> int:
    t0 = time.time()
    work = core.Work()
    try:
        cov = {'states': 0, 'transitions': 0, 'models': {}}
        # 1. the design: exhaustive model checking on the exact domain
        mcs = ['Rot_mc.cfg', 'Rot_deep.cfg', 'Rot_deep3.cfg'] if tier == 'thorough' else ['Rot_mc.cfg', 'Rot_deepq.cfg']
        ecfg = 'Rot_edges.cfg' if tier == 'thorough' else 'Rot_edges_q.cfg'
        with cf.ThreadPoolExecutor(max_workers=4) as ex:
            futs = {cfg: ex.submit(run_tlc, 'Rot', cfg, workers=6, timeout=1500) for cfg in mcs}
            # 2. every expression of the bounded model (printed by TLC, one worker)
            fute = ex.submit(run_tlc, 'Rot', ecfg, workers=1, timeout=1500)
            for cfg in mcs:
                r = futs[cfg].result()
                core.require_mc(r, cfg)
                if r.distinct < 1000:
                    raise core.MachineryError(f'{cfg}: suspiciously small state space ({r.distinct})')
                cov['models'][cfg] = {'generated': r.generated, 'distinct': r.distinct, 'depth': r.depth}
                cov['states'] += r.distinct
                cov['transitions'] += r.generated
            r = fute.result()
        core.require_mc(r, ecfg)
        edges = [p for p in r.prints if isinstance(p, dict) and p.get('tag') == 'EDGE']
        if not edges:
            raise core.MachineryError('no expressions generated')
        forms, classes = {}, {}
        n_err = n_ang = n_gimbal = 0
        for e in edges:
            for s in e['hist']:
                forms[s['f']] = forms.get(s['f'], 0) + 1
                classes[s['c']] = classes.get(s['c'], 0) + 1
            n_err += e['cur']['k'] == 'E'
            n_ang += bool(e['cur']['pt']['ok'])
            n_gimbal += bool(e['cur']['pt']['gimbal'])
        if set(forms) != {'mm', 'imm', 'rmm'} or len(classes) != 8 or not (n_err and n_ang and n_gimbal):
            raise core.MachineryError(f'vacuous expression set: forms={forms} classes={classes} err={n_err} '
                                      f'angles={n_ang} gimbal={n_gimbal}')
        cov['expressions'] = len(edges)
        cov['actions_covered'] = {'forms': forms, 'rhs_classes': classes, 'type_errors': n_err,
                                  'exact_euler_results': n_ang, 'gimbal_results': n_gimbal}
        ef = work.path('edges.json')
        ef.write_text(json.dumps(edges))
        env = {'VERIF_SEED': seed, 'VERIF_TIER': tier}
        files = []
        out = work.path('edges.ndjson')
        st = json.loads(core.run_driver('c04_driver.py', ['edges', ef, out], env=env).strip().splitlines()[-1])
        if st.get('edges_replayed') != len(edges):
            raise core.MachineryError(f'driver replayed {st.get("edges_replayed")} of {len(edges)} expressions')
        cov['edges_replayed'] = st['edges_replayed']
        files.append((out, 16))
        # 3. function-level records over the whole MC domain (with coverage handshake, one TLC run)
        out = work.path('funcs.ndjson')
        st = json.loads(core.run_driver('c04_driver.py', ['funcs', out], env=env).strip().splitlines()[-1])
        cov['euler_triples_exhaustive'] = st['triples']
        files.append((out, 1))
        # 4. the same shapes with other exact values and on the continuum
        out = work.path('shapes.ndjson')
        st = json.loads(core.run_driver('c04_driver.py', ['shapes', ef, out], env=env).strip().splitlines()[-1])
        cov['shapes'] = st['shapes']
        cov['exact_shape_instances'] = st['exact_shapes']
        files.append((out, 16))
        # 4b. every constructor of a rotation swept through its special-case thresholds (read from the source)
        out = work.path('ctors.ndjson')
        st = json.loads(core.run_driver('c04_driver.py', ['ctors', out], env=env).strip().splitlines()[-1])
        if not st.get('constructor_cases') or not st['thresholds_in_source'].get('from_basis'):
            raise core.MachineryError(f'constructor sweep is vacuous: {st}')
        cov['constructor_sweep'] = {'cases': st['constructor_cases'], 'pole_offsets': st['pole_offsets'],
                                    'thresholds_in_source': st['thresholds_in_source']}
        files.append((out, 16))
        # 5. TLC validates every record
        allm, total, samples = [], 0, []
        kinds: dict = {}
        laws: dict = {}
        for p, shards in files:
            mism, vs = core.validate_records('RotTrace', 'RotTrace.cfg', p, work=work, shards=shards)
            allm += mism
            total += vs['records']
            cov['states'] += vs['states']
            cov['transitions'] += vs['transitions']
            rs = core.read_ndjson(p)
            for rec in rs:
                kinds[rec['k']] = kinds.get(rec['k'], 0) + 1
                if rec['k'] == 'num':
                    laws[rec['law']] = laws.get(rec['law'], 0) + 1
            samples.append({k: v for k, v in rs[len(rs) // 2].items() if k != 'hist'})
        if not NUM_LAWS <= set(laws) or not {'step', 'final', 'fa', 'ta', 'inv', 'count', 'num'} <= set(kinds):
            raise core.MachineryError(f'missing record kinds: {kinds} {laws}')
        domain = [m for m in allm if m['clause'] == 'domain']
        if domain:
            raise core.MachineryError(f'{len(domain)} records outside the exact domain, e.g. {json.dumps(domain[0])[:600]}')
        cov['traces_validated_against_impl'] = total
        cov['records_validated'] = total
        cov['record_kinds'] = kinds
        cov['numeric_residue'] = {'evaluations_by_law': laws,
                                  'note': 'float laws evaluated by the harness, thresholds compared by TLC'}
        cov['mismatches'] = len(allm)
        cov['samples'] = samples
        cov['exhaustive'] = True
        cov['rule'] = ('every expression of the bounded Rot model (operands of all 7 classes, forms @/@=/reflected, '
                       'depth 2) replayed with its exact values; all Euler triples over the lattice and 3-4-5 points '
                       'for from_angle/to_angle/transpose/inverse; the same shapes with seeded exact values on other '
                       'Pythagorean circles and with reals (numeric residue)')
        known, new = core.classify(PROP, [sig_of(m) for m in allm])
        return core.finish(PROP, tier=tier, seed=seed, t0=t0, coverage=cov, known=known, new=new,
                           assumptions=['pure-Python srctools.math from /repo/src (Cython _math cannot be built here)',
                                        'arbitrary real angles/vectors are evaluated numerically by the harness (independent float '
                                        'algebra, tolerances of the property statement); TLC decides the exact rational domain',
                                        'TLC 1.8 evaluates RotOps correctly'])
    finally:
        work.cleanup()


def replay(path: str) -> int:
    work = core.Work()
    try:
        out = work.path('replay.ndjson')
        core.run_driver('c04_driver.py', ['replay', path, out])
        mism, _ = core.validate_records('RotTrace', 'RotTrace.cfg', out, work=work, shards=1)
        known, new = core.classify(PROP, [sig_of(m) for m in mism])
        for s in new:
            print(f'VIOLATION property={PROP} replay={path} clause={s["clause"]}')
        if not new:
            print(f'OK replay={path}: no violation reproduced ({len(mism)} known)')
        return 1 if new else 0
    finally:
        work.cleanup()
