"""C06 - VMF export/parse round trip is a fixed point and loses no map content."""
from __future__ import annotations

import itertools
import json
import time

from vlib import core
from vlib.tlc import MachineryError, run_tlc

PROP = 'C06'

MANIFEST = dict(
    technique='TLA+ model of the VMF document (VmfDoc: builder actions, ExportParse = Quant(Keep(opts, doc))) checked by TLC; '
              'TLC-simulated builder histories replayed on the real API; every API step and every export->parse->export '
              'validated by TLC (VmfDocTrace) against the same operators',
    category='model_checking',
    text='TLC exhausts the document design for short histories (fixed point, no loss, unique IDs, quantisation idempotent) and '
         'simulates long builder histories whose optional-block combinations cover all pairs; each history is executed through '
         'the public srctools API with concretised strings and exact numbers, every step must be the step VmfDocOps.Apply takes, '
         'and after export -> parse -> export the re-read document must equal Expected(opts, doc) clause by clause (strings exact, '
         'coordinates to 6 places, rotation/delay/multiblend to 6 significant digits, IDs a bijection per kind), the first text '
         'is read structurally to find the map\'s objects in it (object census, in order), the second and third text must be the first under the ID renumbering; '
         'seeded random documents far outside the bounds and every .vmf under tests/ are validated the same way.',
    design_ref='4 (C06)',
    note='Trusts TLC, the projection (attribute reads of the object graph) and the 30-line independent tokeniser of the exported '
         'text. Pure-Python tree only. Numbers are compared at 1e-9 resolution, 1000x finer than the property.',
)

BUILDER_OPS = {'SetSetting', 'SetViews', 'AddCamera', 'CamSetActive', 'AddCordon', 'AddVisgroup', 'AddGroup', 'AddEnt',
               'SetKey', 'DelKey', 'SetFixup', 'DelFixup', 'AddOut', 'SetEntAttr', 'EntJoin', 'EntJoinSeq', 'SolidJoinSeq', 'AddPrism', 'AddSolid',
               'AddSide', 'SetSolidAttr', 'SetSideAttr', 'SetDispAttr', 'SetVert'}
# feature a = TRUE needs feature b = TRUE
IMPLIES = [('multiblend', 'disp'), ('vis_nested', 'visgroups'), ('ent_in_vis', 'visgroups'), ('solid_in_vis', 'visgroups'),
           ('ent_in_group', 'groups'), ('solid_in_group', 'groups'),
           # group / visgroup membership of brushes is generated for world brushes only
           ('solid_in_group', 'world_brush'), ('solid_in_vis', 'world_brush')]


def feasible(a, va, b, vb) -> bool:
    for x, y in IMPLIES:
        if (a, va, b, vb) == (x, True, y, False) or (b, vb, a, va) == (x, True, y, False):
            return False
    return True


def pair_coverage(fvs: list) -> tuple[int, int, list]:
    if not fvs:
        return 0, 0, []
    feats = sorted(fvs[0])
    need = {(a, va, b, vb) for a, b in itertools.combinations(feats, 2) for va in (False, True) for vb in (False, True)
            if feasible(a, va, b, vb)}
    got = set()
    for f in fvs:
        for a, b in itertools.combinations(feats, 2):
            got.add((a, f[a], b, f[b]))
    return len(need & got), len(need), sorted(need - got)


def sig_of(m: dict, hist_by_tid: dict) -> dict:
    rec = m['rec']
    sig = dict(rec.get('sig', {}))
    sig['clause'] = m['clause']
    # what is needed to re-execute: the concrete call history and the options
    sig['record'] = {'k': rec['k'], 'tid': rec.get('tid'), 'opts': rec.get('opts'), 'a': rec.get('a'), 'j': rec.get('j'),
                     'hist': rec.get('hist') or hist_by_tid.get(rec.get('tid')), 'file': rec.get('file')}
    return sig


def validate(path, work, cov, samples) -> list:
    mism, st = core.validate_records('VmfDocTrace', 'VmfDocTrace.cfg', path, work=work, heap='4g')
    cov['states'] += st['states']
    cov['transitions'] += st['transitions']
    cov['records_validated'] = cov.get('records_validated', 0) + st['records']
    recs = core.read_ndjson(path)
    bad = {m['index'] for m in mism}
    with open(str(path) + '.clean', 'w') as f:      # for the binding self-check: records accepted without any mismatch
        json.dump([i for i, r in enumerate(recs) if r['k'] == 'xp' and i not in bad], f)
    cov.setdefault('rec_files', []).append(str(path))
    hist_by_tid = {r['tid']: r['hist'] for r in recs if r['k'] == 'xp'}
    for r in recs:
        if r['k'] == 'xp':
            cov['fvs'].append((r['sig']['src'], r['fv']))
            cov['xp_total'] = cov.get('xp_total', 0) + 1
    small = [r for r in recs if r['k'] == 'xp' and len(r['hist']) <= 8]
    if small:
        r = small[len(small) // 2]
        samples.append({'src': r['sig']['src'], 'opts': r['opts'], 'hist': r['hist'], 'status': r['status'],
                        'tokens_first_text': len(r['toks1'])})
    return [sig_of(m, hist_by_tid) for m in mism]


def _merge(cov: dict, part: dict) -> None:
    for k, v in part.items():
        if isinstance(v, (int, float)) and not isinstance(v, bool):
            cov[k] = cov.get(k, 0) + v
        elif isinstance(v, list):
            cov.setdefault(k, []).extend(v)
        elif isinstance(v, dict):
            cov.setdefault(k, {}).update(v)
        else:
            cov[k] = v


def _count(cov: dict, st: dict) -> None:
    for k in ('steps', 'steps_logged', 'xp', 'parse_fail', 'patched'):
        cov[k] = cov.get(k, 0) + st.get(k, 0)


def _phase_design(tier: str) -> dict:
    """1. the design: exhaustive checking of all short histories"""
    t = time.time()
    r = run_tlc('VmfDoc', 'VmfDoc_mc_thorough.cfg' if tier == 'thorough' else 'VmfDoc_mc.cfg', timeout=1500)
    core.require_mc(r, 'VmfDoc_mc')
    if r.distinct < 1000:
        raise MachineryError(f'vacuous model: only {r.distinct} states')
    return {'cov': {'states': r.distinct, 'transitions': r.generated,
                    'models': {'VmfDoc_mc': {'generated': r.generated, 'distinct': r.distinct, 'depth': r.depth}},
                    'stage_wall_s': {'model_checking': round(time.time() - t, 1)}}, 'sigs': [], 'samples': []}


def _sim_batch(b: int, tier: str, seed: int, work) -> dict:
    thorough = tier == 'thorough'
    cov = {'states': 0, 'transitions': 0, 'fvs': []}
    samples: list = []
    ops: dict = {}
    r = run_tlc('VmfDoc', 'VmfDoc_sim.cfg', simulate='num=%d' % (60 if thorough else 20), depth=45,
                seed=seed * 1000 + b, workers=16 if thorough else 8, timeout=1500)
    core.require_mc(r, 'VmfDoc_sim')
    hists = [p for p in r.prints if isinstance(p, dict) and p.get('tag') == 'HIST']
    if not hists:
        raise MachineryError('simulation produced no histories')
    for h in hists:
        for a in h['h']:
            ops[a['op']] = ops.get(a['op'], 0) + 1
    hf = work.path(f'hist{b}.json')
    hf.write_text(json.dumps(hists))
    out = work.path(f'sim{b}.ndjson')
    _count(cov, json.loads(core.run_driver('c06_driver.py', ['sim', hf, out],
                                           env={'VERIF_SEED': seed * 100 + b, 'VERIF_TIER': tier}).strip().splitlines()[-1]))
    sigs = validate(out, work, cov, samples)
    return {'cov': cov, 'sigs': sigs, 'samples': samples, 'ops': ops, 'n': len(hists)}


def _phase_sim(tier: str, seed: int, work) -> dict:
    """2. direction A: TLC-simulated builder histories, replayed through the real API, until every feasible pair
    of optional-block features has been seen (batches run side by side, two - thorough three - at a time)"""
    from concurrent.futures import ThreadPoolExecutor
    width = 3 if tier == 'thorough' else 2
    t = time.time()
    cov = {'states': 0, 'transitions': 0, 'fvs': []}
    samples: list = []
    sigs: list = []
    ops_seen: dict = {}
    n_hist = batches = 0
    while True:
        with ThreadPoolExecutor(max_workers=width) as ex:
            res = list(ex.map(lambda b: _sim_batch(b, tier, seed, work), range(batches + 1, batches + width + 1)))
        batches += width
        for part in res:
            _merge(cov, part['cov'])
            sigs += part['sigs']
            samples += part['samples']
            n_hist += part['n']
            for k, n in part['ops'].items():
                ops_seen[k] = ops_seen.get(k, 0) + n
        sim_fvs = [f for s, f in cov['fvs'] if s == 'sim']
        got, need, missing = pair_coverage(sim_fvs)
        if not missing:
            break
        if batches >= 12:
            raise MachineryError(f'feature pairs never exercised after {n_hist} simulated histories: {missing[:6]}')
    if BUILDER_OPS - set(ops_seen):
        raise MachineryError(f'vacuous: builder actions never taken: {sorted(BUILDER_OPS - set(ops_seen))}')
    cov['histories_replayed'] = n_hist
    cov['sim_batches'] = batches
    cov['actions_covered'] = ops_seen
    cov['feature_pairs'] = {'covered': got, 'feasible': need, 'distinct_feature_vectors':
                            len({json.dumps(f, sort_keys=True) for f in sim_fvs})}
    cov['stage_wall_s'] = {'simulate_replay_validate': round(time.time() - t, 1)}
    return {'cov': cov, 'sigs': sigs, 'samples': samples}


def _phase_pairs(tier: str, seed: int, work) -> dict:
    """2b. thorough: every history of one or two builder calls (all ordered pairs of calls over the reduced parameter
    domains), exhaustively enumerated by TLC, replayed"""
    t = time.time()
    cov = {'states': 0, 'transitions': 0, 'fvs': []}
    samples: list = []
    r = run_tlc('VmfDoc', 'VmfDoc_pairs.cfg', workers=1, timeout=1500)
    core.require_mc(r, 'VmfDoc_pairs')
    hists = [p for p in r.prints if isinstance(p, dict) and p.get('tag') == 'HIST']
    if len(hists) < 1000:
        raise MachineryError(f'only {len(hists)} exhaustive short histories')
    hf = work.path('pairs.json')
    hf.write_text(json.dumps(hists))
    out = work.path('pairs.ndjson')
    _count(cov, json.loads(core.run_driver('c06_driver.py', ['sim', hf, out, 'nosteps'],
                                           env={'VERIF_SEED': seed, 'VERIF_TIER': tier}).strip().splitlines()[-1]))
    sigs = validate(out, work, cov, samples)
    cov['exhaustive_short_histories'] = len(hists)
    cov['stage_wall_s'] = {'exhaustive_pairs': round(time.time() - t, 1)}
    return {'cov': cov, 'sigs': sigs, 'samples': samples}


def _phase_mode(mode: str, tier: str, seed: int, work) -> dict:
    """3. direction B: seeded random documents far outside the bounds; every shipped .vmf"""
    t = time.time()
    cov = {'states': 0, 'transitions': 0, 'fvs': []}
    samples: list = []
    out = work.path(mode + '.ndjson')
    st = json.loads(core.run_driver('c06_driver.py', [mode, out],
                                    env={'VERIF_SEED': seed, 'VERIF_TIER': tier}).strip().splitlines()[-1])
    _count(cov, st)
    if mode == 'files':
        cov['files'] = st.get('files', [])
        if len(cov['files']) < 1:
            raise MachineryError('no .vmf files found under tests/')
    sigs = validate(out, work, cov, samples)
    cov['stage_wall_s'] = {mode: round(time.time() - t, 1)}
    return {'cov': cov, 'sigs': sigs, 'samples': samples}


def run(tier: str, seed: int) -> int:
    from concurrent.futures import ThreadPoolExecutor
    t0 = time.time()
    work = core.Work()
    thorough = tier == 'thorough'
    try:
        cov = {'states': 0, 'transitions': 0, 'models': {}, 'fvs': [], 'stage_wall_s': {}}
        samples: list = []
        sigs: list = []
        # the phases are independent of one another (own record files, own TLC runs): run them side by side
        with ThreadPoolExecutor(max_workers=8) as ex:
            futs = [ex.submit(_phase_design, tier), ex.submit(_phase_sim, tier, seed, work),
                    ex.submit(_phase_mode, 'random', tier, seed, work), ex.submit(_phase_mode, 'files', tier, seed, work)]
            if thorough:
                futs.append(ex.submit(_phase_pairs, tier, seed, work))

            def outputs():
                # the text form of outputs on its own (both separators, instance forms, combine)
                from props import sub_output
                t = time.time()
                so = sub_output.collect(tier, seed, work)
                so['wall'] = round(time.time() - t, 1)
                return so
            f_out = ex.submit(outputs)
            parts = [f.result() for f in futs]
            so = f_out.result()
        for part in parts:
            _merge(cov, part['cov'])
            sigs += part['sigs']
            samples += part['samples']
        # 4. binding self-check: one leaf of every class of the re-read document (and tokens of the three texts) altered
        #    in an accepted record; TLC must reject every altered record
        t = time.time()
        out = work.path('corrupt.ndjson')
        st = json.loads(core.run_driver('c06_driver.py', ['corrupt'] + cov.pop('rec_files') + [out]).strip().splitlines()[-1])
        cm, cst = core.validate_records('VmfDocTrace', 'VmfDocTrace.cfg', out, work=work, heap='4g')
        rejected = {m['index'] for m in cm}
        crecs = core.read_ndjson(out)
        accepted_wrongly = [r['sig']['cls'] for i, r in enumerate(crecs) if i not in rejected]
        if accepted_wrongly:
            raise MachineryError(f'binding self-check: altered records accepted by the trace specification: {accepted_wrongly[:10]}')
        if len(st['leaf_classes']) < 100:
            raise MachineryError(f'binding self-check covered only {len(st["leaf_classes"])} field classes')
        cov['stage_wall_s']['binding_selfcheck'] = round(time.time() - t, 1)
        cov['stage_wall_s']['output_subcheck'] = so['wall']
        cov['binding_selfcheck'] = {'altered_records_rejected': len(crecs), 'field_classes': len(st['leaf_classes'])}
        cov['states'] += cst['states']
        cov['transitions'] += cst['transitions']
        fv_all = [f for _, f in cov.pop('fvs')]
        cov['distinct_feature_vectors_all'] = len({json.dumps(f, sort_keys=True) for f in fv_all})
        cov['traces_validated_against_impl'] = cov.pop('xp_total') + 0
        cov['samples'] = samples[:4]
        cov['exhaustive'] = False
        cov['rule'] = ('all builder histories of length 2 exhaustively in the model (thorough: over the rich parameter domains); simulated histories of 4-32 public '
                       'API calls replayed until all feasible pairs of 26 optional-block features were seen; seeded random '
                       'documents (up to ~190 calls, displacements of power 1-4 fully populated, Unicode/escape-heavy strings, membership sets '
                       'with hash-colliding IDs in shuffled insertion orders); every .vmf under tests/ with preserve_ids on and off, minimal on '
                       'and off; three export/parse cycles per document')
        cov['states'] += so['cov']['states']
        cov['transitions'] += so['cov']['transitions']
        cov['models'].update(so['cov']['models'])
        for k in ('output_jobs', 'output_representable', 'output_records'):
            cov[k] = so['cov'][k]
        cov['traces_validated_against_impl'] += so['records']
        cov['samples'] = cov['samples'] + so['samples'][:1]
        sigs = sigs + so['sigs']
        cov['mismatches'] = len(sigs)
        known, new = core.classify(PROP, sigs)
        return core.finish(PROP, tier=tier, seed=seed, t0=t0, coverage=cov, known=known, new=new,
                           assumptions=['pure-Python srctools from /repo/src (Cython accelerators cannot be built here)',
                                        'numbers are logged at 1e-9 resolution and generated away from rounding boundaries',
                                        'the independent tokeniser of the exported text implements the KV1 quoting rules',
                                        'TLC 1.8 evaluates VmfDocOps correctly'])
    finally:
        work.cleanup()


def replay(path: str) -> int:
    """Re-execute a replay file's call history on the current tree and let TLC judge it again."""
    work = core.Work()
    try:
        out = work.path('replay.ndjson')
        core.run_driver('c06_driver.py', ['replay', path, out])
        mism, _ = core.validate_records('VmfDocTrace', 'VmfDocTrace.cfg', out, work=work, shards=1)
        recs = core.read_ndjson(out)
        hist_by_tid = {r['tid']: r['hist'] for r in recs if r['k'] == 'xp'}
        known, new = core.classify(PROP, [sig_of(m, hist_by_tid) for m in mism])
        for s in new:
            print(f'VIOLATION property={PROP} replay={path} clause={s["clause"]}')
        if not new:
            print(f'OK replay={path}: no violation reproduced ({len(mism)} known)')
        return 1 if new else 0
    finally:
        work.cleanup()
