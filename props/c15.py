"""C15 - VTF save/read round trip: metadata exact, pixels exact up to the format."""
from __future__ import annotations

import concurrent.futures as cf
import json
import time

from vlib import core
from vlib.tlc import run_tlc

PROP = 'C15'

MANIFEST = dict(
    technique='TLA+ models (VtfLayout, VtfLayoutPix) checked by TLC; every model transition replayed on real srctools.vtf objects; saved bytes parsed by an independent header/resource-table reader; all records validated by TLC (VtfLayoutTrace)',
    category='model_checking',
    text='TLC exhausts the VTF file design: sizes 1..8 (thorough 1..32, non-square and 1xN included) x 1-2 (3) frames x depth 1/2/(4)/cubemap with and without sphere map x versions 7.2-7.5 x thumbnail or none, resource sets of up to two inline/data resources plus sheet data v0/v1, with the invariants: frame table size = frames * slices * declared mipmaps, declared mipmaps = levels, closed-form offsets equal the running sums of a reader, images partition the image block up to the file length, blocks do not overlap, reading gives back the object (with the 7.3 resource gate); and, per pixel over channel sweeps, for all 20 writable uncompressed formats: decode(encode(p)) equals the documented quantisation, quantisation is idempotent, 8-bit-per-channel formats are exact. Every Create/AddResource/AddSheet/GetPixel/SetPixel/Save transition is executed on real VTF objects; TLC checks each logged case against the same operators: header fields, mipmap count, resource table entries and offsets, header size and file length found in the saved bytes by an independent parser; keys, dimensions and file offsets of every frame of the object read back; meta data, resources (normalised flag), sheet sequences by version; for images up to 4x4 (8x8 thorough) the stored bytes equal Encode[fmt] and the pixels read equal Quant[fmt] of the given pixels or of Average2x2 of the level above for generated mipmaps; re-saving the read file is byte-identical; pixel access at -1, 0, n-1, n, n+1 raises exactly when out of bounds. Histories of a texture that was read (all frames lazy): every sequence of up to two (random: four) of load some/all frames, look at a pixel, write a pixel, compute_mipmaps(), clear_mipmaps(after) followed by save and read, on harness-written files whose mipmaps are unrelated random images, in all writable formats: the second file has the same structure and every level holds exactly the stored pixels (with the written ones), erased levels the average of the level above as it then is. The low-res image is part of the model: written and read back it is the stored image while it is as read, the blank opaque image if it never had pixels and no level is twice its size (textures below 32x32 or non-square with the 16x16 default; 4x4 and 2x1 thumbnails in harness files), else the average of frame 0 (depth 0 or FRONT face) of that level; judged by bytes and decoded pixels for 14 thumbnail formats, on new textures and on read/load()/clear/compute histories (16x16, 8x4, 64x32, 32x32, 64x64 with the 16x16 thumbnail included). Files laid out by the harness for all 28 formats (DXT/ATI included) are read and judged the same way; seeded random textures up to 128x128 with random resources and sheets extend the bounds.',
    design_ref='4 (C15)',
    note='DXT/ATI encoding exists only in the Cython module: compressed formats are covered for layout/metadata through harness-written files. Float meta data is compared as float32 bit patterns. The texture with a corrected mipmap_count (variant adj) stands for a consistent object such as one read from a file. Pure-Python codecs only.',
)


def sig_of(m: dict) -> dict:
    rec = m['rec']
    sig = dict(rec.get('sig', {}))
    sig['clause'] = m['clause']
    sig['expected'] = m['exp']
    slim = {k: v for k, v in rec.items() if k not in ('sig', 'pix', 'stored')}
    sig['record'] = slim
    return sig


def run(tier: str, seed: int) -> int:
    t0 = time.time()
    work = core.Work()
    thorough = tier == 'thorough'
    try:
        cov = {'states': 0, 'transitions': 0, 'models': {}}
        # 1. pixel codecs and the all-formats layout model: design only
        mcs = [('VtfLayoutPix', 'VtfLayoutPixT_mc.cfg' if thorough else 'VtfLayoutPix_mc.cfg')]
        if thorough:
            mcs.append(('VtfLayout', 'VtfLayoutAll_mc.cfg'))
        for module, cfg in mcs:
            r = run_tlc(module, cfg, timeout=3000)
            core.require_mc(r, cfg)
            cov['models'][cfg] = {'generated': r.generated, 'distinct': r.distinct, 'depth': r.depth}
            cov['states'] += r.distinct
            cov['transitions'] += r.generated
        # 2. the layout machine, exhaustively, every transition replayed (the edge configurations
        # carry every invariant of the _mc configurations)
        fams = [('VtfLayoutT_edges.cfg' if thorough else 'VtfLayout_edges.cfg', 'layout'),
                ('VtfLayoutRes_edges.cfg', 'layout'),
                ('VtfLayoutPixelT_edges.cfg' if thorough else 'VtfLayoutPixel_edges.cfg', 'pix'),
                ('VtfLayoutAccess_edges.cfg', 'layout'),
                ('VtfLayoutHistT_edges.cfg' if thorough else 'VtfLayoutHist_edges.cfg', 'layout')]
        merged = work.path('all.ndjson')
        actions: dict = {}
        counts = {'saves': 0, 'ctor': 0, 'access': 0, 'resaves': 0}
        def family(job):
            """TLC dumps the edges of one configuration (single worker), the driver replays them."""
            cfg, mode = job
            r = run_tlc('VtfLayout', cfg, workers=1, timeout=3000)
            core.require_mc(r, cfg)
            edges = [p for p in r.prints if isinstance(p, dict) and p.get('tag') == 'EDGE']
            n_save = sum(1 for e in edges if e['a']['op'] == 'save')
            hist = 'Hist' in cfg                            # the history family prints its Read steps
            if len(edges) != r.generated - 1 - (0 if hist else n_save):      # Read steps (one per saved file) are not printed
                raise core.MachineryError(f'{cfg}: {len(edges)} edges printed, {r.generated} generated, {n_save} saves')
            ef = work.path(cfg + '.json')
            ef.write_text(json.dumps(edges))
            out = work.path(cfg + '.ndjson')
            st = json.loads(core.run_driver('c15_driver.py', ['edges', ef, mode, out],
                                            env={'VERIF_SEED': seed, 'VERIF_TIER': tier}).strip().splitlines()[-1])
            want = {'saves': 0 if hist else n_save, 'ctor': 0 if hist else sum(1 for e in edges if e['a']['op'] == 'create'),
                    'access': sum(1 for e in edges if e['a']['op'] in ('get', 'set')),
                    'resaves': sum(1 for e in edges if e['a']['op'] == 'resave')}
            if any(st.get(k, 0) != v for k, v in want.items()) or st.get('pre_state_diverged'):
                raise core.MachineryError(f'{cfg}: coverage handshake failed: driver {st}, model {want}')
            ops: dict = {}
            for e in edges:
                ops[e['a']['op']] = ops.get(e['a']['op'], 0) + 1
            ops['read'] = n_save
            return cfg, r, out, want, ops

        with open(merged, 'w', encoding='utf-8') as mf:
            with cf.ThreadPoolExecutor(max_workers=len(fams)) as ex:
                results = list(ex.map(family, fams))
            for cfg, r, out, want, ops in results:
                cov['models'][cfg] = {'generated': r.generated, 'distinct': r.distinct, 'depth': r.depth}
                cov['states'] += r.distinct
                cov['transitions'] += r.generated
                for k, v in ops.items():
                    actions[k] = actions.get(k, 0) + v
                for k in counts:
                    counts[k] += want[k]
                mf.write(open(out, encoding='utf-8').read())
            need = {'create', 'resource', 'sheet', 'get', 'set', 'save', 'read', 'load', 'loadall', 'look', 'poke', 'compute', 'clear', 'resave', 'reread'}
            if not need <= set(actions):
                raise core.MachineryError(f'vacuous model: actions never taken: {need - set(actions)}')
            # 3. harness-written files of every format; random textures outside the bounds
            for mode in ('synth', 'random'):
                out = work.path(mode + '.ndjson')
                st = json.loads(core.run_driver('c15_driver.py', [mode, out],
                                                env={'VERIF_SEED': seed, 'VERIF_TIER': tier}).strip().splitlines()[-1])
                counts[mode] = st['records']
                mf.write(open(out, encoding='utf-8').read())
        # 4. TLC validates every record
        mism, st = core.validate_records('VtfLayoutTrace', 'VtfLayoutTrace.cfg', merged, work=work, heap='2g')
        cov['states'] += st['states']
        cov['transitions'] += st['transitions']
        cov['traces_validated_against_impl'] = st['records']
        cov['records_validated'] = st['records']
        cov['edges_replayed'] = sum(v for k, v in actions.items() if k != 'read')
        cov['actions_covered'] = actions
        cov['cases'] = counts
        cov['mismatches'] = len(mism)
        rs = core.read_ndjson(merged)
        picks = []
        for kind in ('ctor', 'rt', 'access', 'hist', 'synth'):
            for rec in rs:
                if rec['k'] == kind and (kind != 'rt' or (rec['variant'] == 'adj' and rec['pix'])):
                    picks.append({k: v for k, v in rec.items() if k != 'hist'})
                    break
        cov['samples'] = picks
        cov['exhaustive'] = True
        cov['rule'] = ('every transition of the bounded VtfLayout models (layout: sizes %s, frames, depth/cubemap, versions 7.2-7.5, '
                       'thumbnail; resources: up to 2 user resources and sheet v0/v1; pixels: all 20 writable formats on images up '
                       'to %s with given or generated mipmaps; access: coordinates -1, 0, n-1, n, n+1) executed on real VTF objects, '
                       'each Save in two variants (as constructed / with consistent mipmap count); harness-written files of all 28 '
                       'formats; seeded random textures up to 128x128' % ('1..32' if thorough else '1..8', '8x8' if thorough else '4x4'))
        known, new = core.classify(PROP, [sig_of(m) for m in mism])
        return core.finish(PROP, tier=tier, seed=seed, t0=t0, coverage=cov, known=known, new=new,
                           assumptions=['pure-Python srctools from /repo/src (no DXT encoder)',
                                        'the harness header/resource-table parser and file writer implement the VTF layout description correctly (they are checked against the specification, not against srctools)',
                                        'RGB565/BGR565 word layout is the one the loaders use (r | g<<5 | b<<11 resp. b | g<<5 | r<<11), which the repository verifies against real sample files',
                                        'TLC 1.8 evaluates VtfLayoutOps correctly'])
    finally:
        work.cleanup()


def replay(path: str) -> int:
    work = core.Work()
    try:
        out = work.path('replay.ndjson')
        core.run_driver('c15_driver.py', ['replay', path, out])
        mism, _ = core.validate_records('VtfLayoutTrace', 'VtfLayoutTrace.cfg', out, work=work, shards=1)
        known, new = core.classify(PROP, [sig_of(m) for m in mism])
        for s in new:
            print(f'VIOLATION property={PROP} replay={path} clause={s["clause"]}')
        if not new:
            print(f'OK replay={path}: no violation reproduced ({len(mism)} known)')
        return 1 if new else 0
    finally:
        work.cleanup()
