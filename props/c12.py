"""C12 - Atomic file replacement: old or new contents, never a mixture."""
from __future__ import annotations

import concurrent.futures as cf
import json
import random
import time

from vlib import core
from vlib.tlc import MachineryError, run_tlc

PROP = 'C12'

MANIFEST = dict(
    technique='TLA+ model (AtomicWrite: file system, per-writer pc, crashes, one OSError, two writers) checked by TLC '
              'with safety and liveness; every TLC-enumerated schedule executed on the real AtomicWriter/BSP.save; '
              'logged operation traces validated by TLC (AtomicWriteTrace)',
    category='model_checking',
    text='TLC exhausts the atomic replacement design for two interleaved writers (exclusive tmp_N creation, buffered '
         'body writes, close, rename or unlink, Crash anywhere, one injected OSError, body exceptions): the destination '
         'is always old or new, a handled failure leaves old contents and no temp file, done means new, temp names (any fresh '
         'name in the destination directory, bound from the observed exclusive open) are never shared, writers terminate under fairness; a returned writer object may be entered again (rounds). TLC enumerates every schedule of the bounded model (single '
         'writer: every crash point, fault point and body exception; two writers: every interleaving of the directory '
         'operations with at most one abnormal event) and the harness executes each against the real AtomicWriter in '
         'bytes and text mode (SIGKILL of a forked child for crashes, OSError raised inside the wrapped io stack for '
         'faults, baton-passing threads for interleavings). For BSP.save and large writes TLC derives every injection '
         'point from a fault-free reference trace. Each logged operation with the directory observed before it must be '
         'an enabled step of the specification.',
    design_ref='4 (C12)',
    note='Process-kill semantics (page cache survives), not power loss: the code never calls fsync. The io stack is '
         'observed by subclassing io.FileIO/BufferedWriter/TextIOWrapper inside the harness process; how CPython buffers '
         'is left open in the specification (byte accounting only). Trusts TLC and the directory classification '
         '(bytes equal to old / new / anything else).',
)

EXPECTED_OPS = {('mkdir', 'ok'), ('mkdir', 'exists'), ('mkdir', 'fault'), ('open', 'ok'), ('open', 'exists'),
                ('open', 'fault'), ('bcall', 'ok'), ('write', 'ok'), ('write', 'fault'), ('endbody', 'ok'),
                ('bodyerr', 'ok'), ('close', 'ok'), ('close', 'fault'), ('replace', 'ok'), ('replace', 'fault'),
                ('unlink', 'ok'), ('unlink', 'fault'), ('end', 'ok'), ('end', 'raised'), ('crash', 'ok'),
                ('reenter', 'ok')}


def sig_of(m: dict) -> dict:
    rec = m['rec']
    sig = dict(rec.get('sig', {}))
    sig['clause'] = m['clause']
    exp = m['exp'] if isinstance(m['exp'], dict) else {}
    sig['pc'] = exp.get('pc', '')
    sig['expected'] = exp
    sig['record'] = {'how': rec['how'], 'init': rec['init'],
                     'ev': [[e['w'], e['op'], e['res'], e['n'], e['i']] for e in rec['ev']],
                     'ls_at_mismatch': rec['ev'][min(max(exp.get('k', 1), 1), len(rec['ev'])) - 1]['ls']}
    return sig


def _paths(cfg: str) -> tuple[list, object]:
    r = run_tlc('AtomicWrite', cfg, heap='3g')
    core.require_mc(r, cfg)
    paths = [p for p in r.prints if isinstance(p, dict) and p.get('tag') == 'PATH']
    if not paths:
        raise MachineryError(f'{cfg}: TLC enumerated no schedule')
    return paths, r


def _drive(work: core.Work, name: str, paths: list, kinds: str, seed: int, tier: str, parts: int) -> list:
    """Split a schedule list over several driver processes; returns the record files."""
    outs = []
    jobs = []
    per = (len(paths) + parts - 1) // parts
    for k in range(parts):
        chunk = paths[k * per:(k + 1) * per]
        if not chunk:
            continue
        pf = work.path(f'{name}.{k}.json')
        pf.write_text(json.dumps(chunk))
        out = work.path(f'{name}.{k}.ndjson')
        jobs.append((pf, out))
        outs.append(out)

    def one(job):
        core.run_driver('c12_driver.py', ['paths', job[0], kinds, job[1]], timeout=1500,
                        env={'VERIF_SEED': seed, 'VERIF_TIER': tier})
    with cf.ThreadPoolExecutor(max_workers=len(jobs)) as ex:
        list(ex.map(one, jobs))
    return outs


def _same(p: dict, e: dict, unit: int) -> bool:
    # which name the temp gets is the writer's choice: names are not compared
    if (p['w'], p['op'], p['res']) != (e['w'], e['op'], e['res']):
        return False
    return p['op'] not in ('bcall', 'write') or p['n'] * unit == e['n']


def _steps(evs: list) -> list:
    """A schedule without its stutter steps: attempts at names that were taken, making sure of the directory
    (how many there are, and where, is the writer's business)."""
    return [e for e in evs if not ((e['op'] == 'open' and e['res'] in ('exists', 'noent'))
                                   or (e['op'] == 'mkdir' and e['res'] != 'fault'))]


def run(tier: str, seed: int) -> int:
    t0 = time.time()
    work = core.Work()
    quick = tier == 'quick'
    try:
        cov = {'states': 0, 'transitions': 0, 'models': {}}
        pool = cf.ThreadPoolExecutor(max_workers=8)
        # 1. the design: safety (two writers) and liveness under weak fairness, in the background
        mc_cfgs = (['AtomicWrite_mc.cfg', 'AtomicWrite_mcr.cfg', 'AtomicWrite_mcn.cfg', 'AtomicWrite_live.cfg', 'AtomicWrite_live1.cfg'] if quick else
                   ['AtomicWrite_mc_big.cfg', 'AtomicWrite_mcr_big.cfg', 'AtomicWrite_mc.cfg', 'AtomicWrite_mcr.cfg', 'AtomicWrite_mcn.cfg',
                    'AtomicWrite_live_big.cfg', 'AtomicWrite_live1.cfg'])
        mc_futs = {c: pool.submit(run_tlc, 'AtomicWrite', c, workers=8, timeout=1500, heap='3g') for c in mc_cfgs}
        # 2. schedules enumerated by TLC
        f1 = pool.submit(_paths, 'AtomicWrite_paths1.cfg' if quick else 'AtomicWrite_paths1_big.cfg')
        f2 = pool.submit(_paths, 'AtomicWrite_paths2.cfg')
        # one writer object used twice (at most one handled failure in its first round), overlapping the other
        f2r = pool.submit(_paths, 'AtomicWrite_paths2r.cfg')
        f1r = pool.submit(_paths, 'AtomicWrite_paths1r.cfg')     # one writer, two rounds, fault / crash anywhere
        # 3. reference runs of the large scenarios; TLC derives their injection points
        ref = work.path('ref.ndjson')
        refinfo = json.loads(core.run_driver('c12_driver.py', ['ref', ref],
                                             env={'VERIF_SEED': seed, 'VERIF_TIER': tier}).strip().splitlines()[-1])
        rp = run_tlc('AtomicWriteTrace', 'AtomicWritePlan.cfg', workers=1, env={'TRACE_FILE': str(ref)})
        core.require_mc(rp, 'AtomicWritePlan.cfg')
        refbad = [p for p in rp.prints if isinstance(p, dict) and p.get('tag') == 'REFBAD']
        points = {str(p['t']): sorted(p['points'], key=lambda x: (x['k'], x['kind']))
                  for p in rp.prints if isinstance(p, dict) and p.get('tag') == 'POINTS'}
        npoints = sum(len(v) for v in points.values())
        if npoints == 0 and not refbad:
            raise MachineryError('TLC derived no injection point')
        ptf = work.path('points.json')
        ptf.write_text(json.dumps(points))
        inj = work.path('inject.ndjson')
        finj = pool.submit(core.run_driver, 'c12_driver.py', ['inject', ref, ptf, inj], timeout=1500,
                           env={'VERIF_SEED': seed, 'VERIF_TIER': tier})
        ph = {'ref+points': round(time.time() - t0, 1)}
        paths1, r1 = f1.result()
        dpool = cf.ThreadPoolExecutor(max_workers=7)
        d1 = dpool.submit(_drive, work, 'p1', paths1, 'aw-bytes,aw-text', seed, tier, 3 if quick else 6)
        paths2, r2 = f2.result()
        paths2r, r2r = f2r.result()
        paths1r, r1r = f1r.result()
        for lab, ps in (('path1', paths1), ('path2', paths2), ('path2r', paths2r), ('path1r', paths1r)):
            for p in ps:
                p['lab'] = lab          # the family a schedule belongs to (a re-use schedule may end before the re-entry)
        ph['schedules'] = round(time.time() - t0, 1)
        rnd = random.Random(seed)
        model_ops: dict = {}
        for p in paths1 + paths2 + paths2r + paths1r:
            for e in p['ev']:
                k = f"{e['op']}:{e['res']}"
                model_ops[k] = model_ops.get(k, 0) + 1
        missing = {f'{a}:{b}' for a, b in EXPECTED_OPS} - set(model_ops)
        if missing:
            raise MachineryError(f'vacuous model: steps never taken in any schedule: {sorted(missing)}')
        cov['schedules_enumerated'] = {'one_writer': len(paths1), 'two_writers': len(paths2),
                                       'two_writers_one_reused': len(paths2r), 'one_writer_reused': len(paths1r)}
        for name, r in (('paths1', r1), ('paths2', r2), ('paths2r', r2r), ('paths1r', r1r)):
            cov['models'][name] = {'generated': r.generated, 'distinct': r.distinct, 'depth': r.depth}
            cov['states'] += r.distinct
            cov['transitions'] += r.generated
        if quick:
            sel2 = rnd.sample(paths2, min(len(paths2), 800))
            sel2t = rnd.sample(paths2, min(len(paths2), 200))
            calm = [p for p in paths2r if not any(e['res'] == 'fault' or e['op'] == 'bodyerr' for e in p['ev'])]
            rough = [p for p in paths2r if any(e['res'] == 'fault' or e['op'] == 'bodyerr' for e in p['ev'])]
            selr = rnd.sample(calm, min(len(calm), 200)) + rnd.sample(rough, min(len(rough), 300))
            selrt = rnd.sample(calm, min(len(calm), 50)) + rnd.sample(rough, min(len(rough), 100))
            sel1r = rnd.sample(paths1r, min(len(paths1r), 500))
        else:
            sel2 = paths2
            sel2t = rnd.sample(paths2, min(len(paths2), 3000))
            selr = paths2r
            selrt = rnd.sample(paths2r, min(len(paths2r), 5000))
            sel1r = paths1r
        recs = [ref]
        d2 = dpool.submit(_drive, work, 'p2b', sel2, 'aw-bytes', seed, tier, 4 if quick else 10)
        d3 = dpool.submit(_drive, work, 'p2t', sel2t, 'aw-text', seed, tier, 1 if quick else 3)
        d4 = dpool.submit(_drive, work, 'prb', selr, 'aw-bytes', seed, tier, 2 if quick else 8)
        d5 = dpool.submit(_drive, work, 'prt', selrt, 'aw-text', seed, tier, 1 if quick else 4)
        d6 = dpool.submit(_drive, work, 'p1r', sel1r, 'aw-bytes' if quick else 'aw-bytes,aw-text', seed, tier, 1 if quick else 4)
        recs += d1.result() + d2.result() + d3.result() + d4.result() + d5.result() + d6.result()
        dpool.shutdown()
        finj.result()
        recs.append(inj)
        ph['drivers'] = round(time.time() - t0, 1)
        # 4. TLC validates every logged run
        allm = []
        total = 0
        followed = 0
        scheduled = 0
        impl_ops: dict = {}
        samples = []
        kinds: dict = {}
        merged = work.path('all.ndjson')
        with open(merged, 'w', encoding='utf-8') as mf:
            for p in recs:
                with open(p, encoding='utf-8') as f:
                    for ln in f:
                        mf.write(ln)
        mism, st = core.validate_records('AtomicWriteTrace', 'AtomicWriteTrace.cfg', merged, work=work, timeout=2400)
        allm += mism
        total += st['records']
        cov['states'] += st['states']
        cov['transitions'] += st['transitions']
        rs = core.read_ndjson(merged)
        for r in rs:
            kinds[r['sig']['kind'] + '/' + r['sig']['action']] = kinds.get(r['sig']['kind'] + '/' + r['sig']['action'], 0) + 1
            for e in r['ev']:
                k = f"{e['op']}:{e['res']}"
                impl_ops[k] = impl_ops.get(k, 0) + 1
            if r['plan']:
                scheduled += 1
                ev = _steps(r['ev'][:-1])
                plan = _steps(r['plan'])
                if len(ev) == len(plan) and all(_same(a, b, r['unit']) for a, b in zip(plan, ev)):
                    followed += 1
        for j in (0, len(rs) // 5, len(rs) // 2, (len(rs) * 4) // 5, len(rs) - 1):
            mid = rs[j]
            samples.append({'sig': mid['sig'], 'init': mid['init'],
                            'events': [[e['w'], e['op'], e['res'], e['n'], e['i']] for e in mid['ev']][:40],
                            'directory_after': mid['ev'][-1]['ls']})
        del rs
        ph['validated'] = round(time.time() - t0, 1)
        for c, fut in mc_futs.items():
            r = fut.result()
            core.require_mc(r, c)
            cov['models'][c] = {'generated': r.generated, 'distinct': r.distinct, 'depth': r.depth}
            cov['states'] += r.distinct
            cov['transitions'] += r.generated
        pool.shutdown()
        ph['model_checked'] = round(time.time() - t0, 1)
        cov['phase_end_s'] = ph
        cov['traces_validated_against_impl'] = total
        cov['records_validated'] = total
        cov['runs_by_kind'] = kinds
        cov['schedules_realised_exactly'] = {'followed': followed, 'scheduled': scheduled}
        cov['injection_points_from_reference_runs'] = npoints
        cov['temp_naming'] = refinfo
        cov['model_steps_in_schedules'] = model_ops
        cov['impl_steps_observed'] = impl_ops
        cov['mismatches'] = len(allm)
        cov['samples'] = samples[:6]
        cov['exhaustive'] = not quick
        cov['rule'] = ('every behaviour of the one-writer model (body of <= 2 writes quick / 3 thorough, stale temp files, '
                       'missing directory, one OSError, body exception, crash at every boundary) in bytes and text mode; '
                       'two writers: every interleaving of the directory-level operations with at most one abnormal event '
                       '(seeded sample of 800+200 in the quick tier, all in the thorough tier); two writers where one writer OBJECT is '
                       'used for two rounds that overlap the other writer in every order of the directory-level operations '
                       '(at most one handled failure - body exception, failing final flush / close / rename - in the first round of the '
                       're-used writer; stratified sample of 500+150 quick, all 22536 thorough); one writer used for two rounds '
                       'with a fault or crash anywhere (sample of 500 quick, all 6048 x 2 modes thorough); BSP.save on a synthetic map '
                       'and seeded large writes: every crash / fault / body-exception point TLC derives from the reference run')
        # diag.* clauses are diagnostics of the harness (a run it could not bring to an end), not violations
        hangs = [m for m in allm if str(m['clause']).startswith('diag.')]
        allm = [m for m in allm if not str(m['clause']).startswith('diag.')]
        cov['diag_run_hang'] = len(hangs)
        cov['mismatches'] = len(allm)
        if len(hangs) * 5 > total:
            raise MachineryError(f'{len(hangs)} of {total} runs could not be brought to an end by the harness')
        known, new = core.classify(PROP, [sig_of(m) for m in allm])
        if not new:
            # coverage handshake: one logged run per enumerated schedule / injection point
            want_runs = {'aw-bytes/path1': len(paths1), 'aw-text/path1': len(paths1), 'aw-bytes/path2': len(sel2),
                         'aw-text/path2': len(sel2t), 'aw-bytes/path2r': len(selr), 'aw-text/path2r': len(selrt), 'aw-bytes/path1r': len(sel1r)}
            got_inject = sum(v for k, v in kinds.items() if k.endswith('/inject'))
            for k, v in want_runs.items():
                if kinds.get(k, 0) != v:
                    raise MachineryError(f'coverage handshake: {kinds.get(k, 0)} runs logged for {k}, {v} schedules enumerated')
            if got_inject != npoints:
                raise MachineryError(f'coverage handshake: {got_inject} injected runs logged, TLC derived {npoints} points')
            # vacuity is judged only on a run without violations (a violation is reported as such)
            missing = {f'{a}:{b}' for a, b in EXPECTED_OPS} - set(impl_ops)
            # whether, when and how often the directory is made sure of is the writer's business
            missing -= {'mkdir:ok', 'mkdir:exists', 'mkdir:fault'}
            if not refinfo.get('naming_deterministic'):
                # temp names that cannot be predicted cannot be put in the writer's way
                missing.discard('open:exists')
            if missing:
                raise MachineryError(f'vacuous replay: steps never observed in the real code: {sorted(missing)}')
            if followed * 2 < scheduled:
                raise MachineryError(f'only {followed} of {scheduled} schedules were realised exactly by the harness')
        return core.finish(PROP, tier=tier, seed=seed, t0=t0, coverage=cov, known=known, new=new,
                           assumptions=['pure-Python srctools from /repo/src',
                                        'a killed process loses only what it had not yet handed to the operating system (no power loss)',
                                        'injected faults: one OSError(EIO) per run, the failing operation has no effect (close still releases the descriptor)',
                                        'TLC 1.8 evaluates AtomicWriteOps correctly'])
    finally:
        work.cleanup()


def replay(path: str) -> int:
    work = core.Work()
    try:
        out = work.path('replay.ndjson')
        core.run_driver('c12_driver.py', ['replay', path, out])
        mism, _ = core.validate_records('AtomicWriteTrace', 'AtomicWriteTrace.cfg', out, work=work, shards=1)
        mism = [m for m in mism if not str(m['clause']).startswith('diag.')]
        known, new = core.classify(PROP, [sig_of(m) for m in mism])
        for s in new:
            print(f'VIOLATION property={PROP} replay={path} clause={s["clause"]}')
        if not new:
            print(f'OK replay={path}: no violation reproduced ({len(mism)} known)')
        return 1 if new else 0
    finally:
        work.cleanup()
