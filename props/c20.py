"""C20 - secondary format writers emit files their own readers reproduce."""
from __future__ import annotations

import json
import os
import time

from vlib import core
from vlib.tlc import MachineryError, run_tlc

PROP = 'C20'

MANIFEST = dict(
    technique='TLA+ model Secondary (scenes.image container state machine; per-format case enumeration with Decay/Representable laws in SecondaryOps) checked by TLC; every container transition and every enumerated case replayed on the real writers/readers; implementation records validated by TLC (SecondaryTrace)',
    category='model_checking',
    text='TLC exhausts the scenes.image container design (3 file names, a second spelling of one of them, 3 scenes, 2 save slots, versions 2 and 3, saving from a dictionary or a list with the encoding argument omitted (thorough: also given), Latin-1 letters in the strings of the scenes, histories of Add/Drop/Rename/Save/Load/Merge/Touch; a renamed entry keeps its stale dictionary key) with sorted-and-distinct-checksum and summary-consistency invariants (duration, last-speak, sounds defined over the abstract event list), and every transition is replayed on real Entry dictionaries, the saved bytes being decoded by the harness itself (header, table, summaries) and required to be identical after read-and-write-again. The encoding of the string pool is enumerated separately (character class ascii/latin1/wide x encoding argument omitted/latin1/utf8 x version x dict/list: refusal, file bytes decoded by the harness, real reader). For command sequences, choreo scenes (text and binary), soundscripts, VMT, PCF and SMD TLC enumerates the optional-block / enum-member combinations (every event type x every feature, field-width classes, strings with Latin-1 letters and with characters beyond U+00FF in every text-carrying field every field read in a condition of a writer (found by scanning the writer sources) with the cases around its default - for pair fields both ends default, either end default, both other equal / different, the default in each spelling -, ordered multimaps in every shape (keys repeated in the same and another case, leaf after block and block after leaf of one name, empty blocks, 3 levels; every container-typed field found by reflection must have a repeated-member case), (refused by the ASCII formats cmdseq / SMD / PCF-via-DMX, carried by the others), value-range forms, block shapes: ~7,900 cases); each is built through the API, written, read, written again, and TLC requires the read value to equal Decay(format, value) field by field, the second output to equal the first, non-representable command sequences to be refused, and the command-sequence file size to equal the layout formula. Seeded random values and the sample files under tests/ (Read; Write; Read) are validated the same way.',
    design_ref='4 (C20)',
    note='Weakest fit of the technique (DESIGN 4/C20): for the six formats TLC contributes the enumeration of the input space, the decay/representability definitions and the evaluation of the law on projections, not an independent definition of the bytes (except the command-sequence size and the scenes.image table). PCF bytes can never repeat (fresh element UUIDs per export): the second generation is compared as read back. Pure-Python tree only.',
)

STACK = '-Xss256m -XX:ParallelGCThreads=3 -XX:CICompilerCount=2'
FORMATS = ('cmdseq', 'vcd', 'bvcd', 'snd', 'vmt', 'pcf', 'smd')


def _abs_wide(scene: dict) -> bool:
    def evs():
        yield from scene['events']
        for a in scene['actors']:
            for c in a['channels']:
                yield from c['events']
    return any(float(v) > 1.0 for e in evs() for _, v in e['absp'] + e['abss'])


def _any_event(scene: dict, pred) -> bool:
    evs = list(scene['events']) + [e for a in scene['actors'] for c in a['channels'] for e in c['events']]
    return any(pred(e) for e in evs)


def sig_of(m: dict) -> dict:
    rec = m['rec']
    sig = dict(rec.get('sig', {}))
    clause = m['clause']
    sig['clause'] = clause
    exp = m['exp']
    if isinstance(exp, str):
        try:
            exp = json.loads(exp)
        except ValueError:
            pass
    sig['expected'] = exp
    cause = ''
    fmt = rec.get('fmt', '')
    val = rec.get('orig') or rec.get('first') or {}
    if rec.get('k') in ('rt', 'sample'):
        if fmt in ('vcd', 'bvcd') and val:
            if clause == 'rt.build' and _abs_wide(val):
                cause = 'abs_tag_range'
            elif fmt == 'bvcd' and clause in ('rt.read', 'rt.value.events', 'rt.value.actors', 'rt.second') and _any_event(val, lambda e: e['tag']):
                cause = 'relative_tag'
            elif fmt == 'vcd' and clause == 'rt.read' and 'NotImplementedError' in rec.get('err', '') and _any_event(val, lambda e: e['flex']):
                cause = 'flex_text'
        elif fmt == 'snd' and val:
            ranged = any(val[k][0] != val[k][1] for k in ('volume', 'level', 'pitch'))
            if ranged and clause == 'rt.read' and 'KeyValError' in rec.get('err', ''):
                cause = 'range_comma'
        elif fmt == 'vmt' and val:
            back = any('\\' in leaf[2] for _, flat in val['blocks'] + val['proxies'] for leaf in flat)
            if back and clause in ('rt.value.blocks', 'rt.value.proxies', 'rt.second', 'sample.value.blocks', 'sample.second'):
                cause = 'block_backslash'
        elif fmt == 'smd' and val and clause in ('rt.second', 'sample.second') and len(val['bones']) >= 3 and not rec.get('err'):
            # same mesh read back (no rt.value mismatch is raised for it), only the second file differs
            cause = 'bone_numbering'
        elif fmt == 'smd' and val:
            multi = any(len(v[8]) > 1 for _, verts in val['tris'] for v in verts)
            if multi and clause == 'rt.read' and 'ParseError' in rec.get('err', ''):
                cause = 'multilink'
        elif fmt == 'pcf' and val:
            if clause == 'rt.pcf.name_option':
                cause = 'name_option'
            elif clause in ('rt.value.systems', 'sample.value.systems'):
                got = rec.get('back') or rec.get('second') or {}

                def lower(v):
                    out = json.loads(json.dumps(v))
                    for s in out.get('systems', []):
                        for o in s['options']:
                            o[0] = o[0].casefold()
                        for kind in ('renderers', 'operators', 'initializers', 'emitters', 'forces', 'constraints'):
                            for op in s[kind]:
                                for o in op['options']:
                                    o[0] = o[0].casefold()
                    return out
                want = {'systems': exp} if isinstance(exp, list) else {}
                if want and lower(want) == lower(got) and want != got:
                    cause = 'option_case'
    if rec.get('k') == 'imgenc':
        cause = f"{rec['enc']}/{rec['chars']}"
    sig['cause'] = cause
    sig['group'] = '.'.join(clause.split('.')[:2])
    sig['record'] = {k: v for k, v in rec.items() if k not in ('sig', 'back', 'second', 'scenes')}
    return sig


class Env:
    def __init__(self) -> None:
        self.old = None

    def __enter__(self):
        self.old = os.environ.get('JDK_JAVA_OPTIONS')
        os.environ['JDK_JAVA_OPTIONS'] = STACK
        return self

    def __exit__(self, *a):
        if self.old is None:
            os.environ.pop('JDK_JAVA_OPTIONS', None)
        else:
            os.environ['JDK_JAVA_OPTIONS'] = self.old


def sample(path) -> dict:
    rs = core.read_ndjson(path)
    r = rs[len(rs) // 2]
    out = {}
    for k, v in r.items():
        if k in ('back', 'second', 'scenes', 'consts', 'sig'):
            continue
        text = json.dumps(v)
        out[k] = v if len(text) < 600 else text[:600] + '...'
    return out


def run(tier: str, seed: int) -> int:
    """The stages are independent (each starts its own driver and TLC processes) and run side by side."""
    import concurrent.futures as cf
    t0 = time.time()
    work = core.Work()
    thorough = tier == 'thorough'
    env = {'VERIF_SEED': seed, 'VERIF_TIER': tier}

    def new_cov() -> dict:
        return {'states': 0, 'transitions': 0, 'records_validated': 0, 'models': {}, 'samples': [], 'timing_s': {}, 'traces': 0}

    def validate(path, cov) -> list:
        mism, st = core.validate_records('SecondaryTrace', 'SecondaryTrace.cfg', path, work=work)
        cov['states'] += st['states']
        cov['transitions'] += st['transitions']
        cov['records_validated'] += st['records']
        cov['samples'].append(sample(path))
        return mism

    def timed(name: str, fn):
        def job():
            t = time.time()
            cov = new_cov()
            mism = fn(cov)
            cov['timing_s'][name] = round(time.time() - t, 1)
            return mism, cov
        return job

    def image(cov):
        # the container design, every transition replayed (the replay is cut into slices run side by side)
        cfg = 'Secondary_edges4.cfg' if thorough else 'Secondary_edges.cfg'
        r = run_tlc('Secondary', cfg, workers=1)
        core.require_mc(r, cfg)
        edges = [p for p in r.prints if isinstance(p, dict) and p.get('tag') == 'EDGE']
        consts = [p for p in r.prints if isinstance(p, dict) and p.get('tag') == 'CONSTS']
        if len(edges) != r.generated - 1 or len(consts) != 1:
            raise MachineryError(f'{cfg}: {len(edges)} edges for {r.generated} generated states')
        actions: dict = {}
        for e in edges:
            actions[e['a']['op']] = actions.get(e['a']['op'], 0) + 1
        if not {'add', 'drop', 'rename', 'save', 'load', 'merge', 'touch'} <= set(actions):
            raise MachineryError(f'vacuous container model: actions taken {actions}')
        if not {e['a']['how'] for e in edges if e['a']['op'] == 'save'} >= {'dict', 'list'}:
            raise MachineryError('container model never saves from both a dictionary and a list')
        if 'default' not in {e['a'].get('enc') for e in edges if e['a']['op'] == 'save'}:
            raise MachineryError('container model never saves with the encoding argument omitted')
        cov['actions_covered'] = actions
        cov['models'][cfg] = {'generated': r.generated, 'distinct': r.distinct, 'depth': r.depth}
        cov['states'] += r.distinct
        cov['transitions'] += r.generated
        ef = work.path('image_edges.json')
        ef.write_text(json.dumps({'consts': consts[0], 'edges': edges}))
        nsl = 6
        per = (len(edges) + nsl - 1) // nsl

        def one(j):
            out = work.path(f'image{j}.ndjson')
            st = json.loads(core.run_driver('c20_driver.py', ['image', ef, j * per, (j + 1) * per, out], env=env).strip().splitlines()[-1])
            return out, st.get('edges_replayed', 0)
        with cf.ThreadPoolExecutor(max_workers=nsl) as ex:
            parts = list(ex.map(one, range(nsl)))
        done = sum(n for _, n in parts)
        if done != len(edges):
            raise MachineryError(f'{cfg}: {done} of {len(edges)} edges replayed')
        cov['edges_replayed'] = done
        cov['traces'] += done
        out = work.path('image.ndjson')
        with open(out, 'w', encoding='utf-8') as f:
            for pth, _ in parts:
                f.write(open(pth, encoding='utf-8').read())
        return validate(out, cov)

    def cases(fmt: str):
        def fn(cov):
            cfg = f'Secondary_{fmt}_cases.cfg'
            r = run_tlc('Secondary', cfg, workers=2)
            core.require_mc(r, cfg)
            items = [p for p in r.prints if isinstance(p, dict) and p.get('tag') == 'CASE']
            if len(items) * 2 != r.distinct:
                raise MachineryError(f'{cfg}: {len(items)} cases printed for {r.distinct} states')
            cov['models'][cfg] = {'generated': r.generated, 'distinct': r.distinct, 'cases': len(items)}
            cov['states'] += r.distinct
            cov['transitions'] += r.generated
            cfile = work.path(f'cases_{fmt}.json')
            cfile.write_text(json.dumps([{'fmt': c['fmt'], 'feat': c['feat'], 'v': c['v']} for c in items]))
            out = work.path(f'cases_{fmt}.ndjson')
            st = json.loads(core.run_driver('c20_driver.py', ['cases', cfile, out], env=env).strip().splitlines()[-1])
            if st['cases'] != len(items):
                raise MachineryError(f'{cfg}: driver ran {st["cases"]} of {len(items)} cases')
            cov['cases_replayed'] = st['cases']
            cov['traces'] += st['cases']
            return validate(out, cov)
        return fn

    def beyond(mode: str):
        def fn(cov):
            out = work.path(mode + '.ndjson')
            st = json.loads(core.run_driver('c20_driver.py', [mode, out], env=env).strip().splitlines()[-1])
            cov[mode + '_records'] = st['records']
            cov['traces'] += st['records']
            return validate(out, cov)
        return fn

    try:
        jobs = [timed('image', image)] + [timed('cases_' + f, cases(f)) for f in ('snd', 'vcd', 'bvcd', 'cmdseq', 'pcf', 'vmt', 'smd', 'imgenc')] \
            + [timed(m, beyond(m)) for m in ('random', 'samples')]
        total = new_cov()
        allm: list = []
        with Env():
            with cf.ThreadPoolExecutor(max_workers=5) as ex:
                for mism, cov in ex.map(lambda j: j(), jobs):
                    allm += mism
                    for k, v in cov.items():
                        if isinstance(v, bool) or not isinstance(v, (int, float, dict, list)):
                            total[k] = v
                        elif isinstance(v, (int, float)):
                            total[k] = total.get(k, 0) + v
                        elif isinstance(v, list):
                            total.setdefault(k, []).extend(v)
                        else:
                            total.setdefault(k, {}).update(v)
        cov = total
        # every container-typed field of the value classes (found by reflection) has a case with a repeated member
        files = [work.path(f'cases_{f}.json') for f in ('vmt', 'snd', 'vcd', 'bvcd', 'pcf', 'smd', 'cmdseq')]
        rep = work.path('cover.json')
        core.run_driver('c20_driver.py', ['cover'] + files + [rep], env=env)
        report = json.loads(rep.read_text())
        gaps = ''
        if report['unknown'] or report['uncovered']:
            gaps = f'fields without the required cases (repeated member / around the default): {report["uncovered"]}; not in the tables: {report["unknown"]}'
        cov['container_fields_with_repeated_member_cases'] = report['fields']
        # ... and every field a writer's condition reads (found by scanning the writers) has the cases around its default
        cov['writer_condition_sites_with_cases'] = len(report.get('sites', []))
        cov['traces_validated_against_impl'] = cov.pop('traces')
        cov['mismatches'] = len(allm)
        cov['exhaustive'] = True
        cov['rule'] = ('every transition of the bounded scenes.image container model (quick: scenes added under 2 of 3 file names, 2 scenes, '
                       '1 slot; thorough: 3, 3, 2; histories of length <= 4 of Add/Drop/Rename/Save(dict|list, v2|v3)/Load/Merge/Touch) '
                       'replayed by its shortest path; every enumerated case of the seven format families; seeded random scenes / '
                       'command sequences / meshes; sample files under tests/ as Read;Write;Read')
        known, new = core.classify(PROP, [sig_of(m) for m in allm])
        if gaps and not new:
            # (a violation TLC found is reported as such; a gap in the case tables alone is a machinery failure)
            raise MachineryError(gaps)
        return core.finish(PROP, tier=tier, seed=seed, t0=t0, coverage=cov, known=known, new=new,
                           assumptions=['pure-Python srctools from /repo/src (Cython accelerators cannot be built here)',
                                        'the DMX binary codec under the PCF layer is C14\'s subject: PCF cases use scalar int/float/bool/string/vec3/colour options only',
                                        'floats are chosen exactly representable (binary fractions, k/255, k/4096); equality is on repr() strings',
                                        'TLC 1.8 evaluates SecondaryOps correctly'])
    finally:
        work.cleanup()


def replay(path: str) -> int:
    work = core.Work()
    try:
        out = work.path('replay.ndjson')
        core.run_driver('c20_driver.py', ['replay', path, out])
        with Env():
            mism, _ = core.validate_records('SecondaryTrace', 'SecondaryTrace.cfg', out, work=work, shards=1)
        known, new = core.classify(PROP, [sig_of(m) for m in mism])
        for s in new:
            print(f'VIOLATION property={PROP} replay={path} clause={s["clause"]}')
        if not new:
            print(f'OK replay={path}: no violation reproduced ({len(mism)} known)')
        return 1 if new else 0
    finally:
        work.cleanup()
