"""C02 - escape_text and the tokenizer are exact inverses on every string."""
from __future__ import annotations

import json
import time

from vlib import core, tokcheck
from vlib.tlc import run_tlc

PROP = 'C02'

MANIFEST = dict(
    technique='TLA+ model (EscapeOps/Escape on top of the TokenizerOps lexer) checked by TLC; escape_text and the real tokenizer run on the same exhaustive family and on seeded random Unicode strings, every record validated by TLC (EscapeTrace)',
    category='model_checking',
    text='TLC checks the inverse law (one STRING token equal to s, then EOF; no raw quote; no raw line break in single-line mode; the closing quote is the appended one) for every string up to length 4 (5 thorough) over the 14 characters that matter to escaping, in both modes, on the string reader alone, on the whole lexer under four option sets and step by step; the real escape_text/Tokenizer are run on exactly that family (count handshake) and on seeded random strings over all Unicode scalar values, alone, embedded at token boundaries of larger texts, and in every position in which a writer of the tree embeds escaped text (70 positions, checked against a reflective enumeration of the str fields of Output, Entity, FixupValue, Side, Cordon, VisGroup, DMX Element/Attribute and Keyvalues: KeyValues1 value/name/block name via export and serialise; VMF entity key, value, comments, fixup value, side material, cordon and visgroup names; Output output/target/input/params/inst_out/inst_in with both separators; fixup variable names; logical_pos through as_keyvalue, Entity.export and BSP.write_ent_data with use_comma_sep None/True/False; entity-lump key and value; DMX KV2 element type/name, attribute name, string and string-array values): a fixed list of hostile strings plus random ones in each position; TLC requires the token in that position to equal the string (or the composite value it is a field of) and the line to have the token count of the same line written with a harmless string; agreement of the whole line with the specified lexer and of the escaped spelling with the specified reader is reported as diag.* counts only.',
    design_ref='4 (C02)',
    note='Trusts TLC and the projection (token name, value, line_num, exception type/message/line). Pure-Python tokenizer only (the Cython _tokenizer cannot be built here). Format limits respected per field: entity-lump positions get ASCII strings only (the lump is written as ASCII bytes); an empty entity comment is not written; the DMX attribute called name is the element name. Output fields are judged on the token (a separator character inside a field is the business of the Output grammar, C06).',
)

ACTIONS = {'Grow', 'Start', 'Open', 'Char', 'Backslash', 'Letter', 'Close', 'Eof'}


def sig_of(m: dict) -> dict:
    rec = m['rec']
    sig = dict(rec.get('sig', {}))
    sig['clause'] = m['clause']
    sig['expected'] = m['exp']
    sig['record'] = {k: v for k, v in rec.items() if k != 'sig'}
    return sig


def _split_diag(mism: list, cov: dict) -> list:
    """diag.* clauses compare with the exact model (token stream, line convention, which texts are
    errors, spelling of escapes): counted in the evidence, never a verdict."""
    counts: dict = {}
    for m in mism:
        if m['clause'].startswith('diag.'):
            counts[m['clause']] = counts.get(m['clause'], 0) + 1
    cov['diagnostics'] = {'note': 'records that differ from the exact lexer/escape model where the statement does not fix the detail; never a violation',
                          'counts': counts}
    return [m for m in mism if not m['clause'].startswith('diag.')]


def run(tier: str, seed: int) -> int:
    t0 = time.time()
    work = core.Work()
    try:
        cov = {'states': 0, 'transitions': 0, 'models': {}}
        # 1. the design: every action of the step machine is taken (small constants, with coverage)
        r = run_tlc('Escape', 'Escape_cov.cfg', coverage=True)
        core.require_mc(r, 'Escape_cov.cfg')
        never = sorted(a for a in ACTIONS if r.coverage.get(a, (0, 0))[1] == 0)
        if never:
            raise core.MachineryError(f'vacuous model: actions never taken: {never} ({r.coverage})')
        cov['actions_covered'] = {a: r.coverage[a][1] for a in sorted(ACTIONS)}
        # 2. exhaustive model checking of the law
        cfg = 'Escape_mc5.cfg' if tier == 'thorough' else 'Escape_mc.cfg'
        r = run_tlc('Escape', cfg, timeout=1500)
        core.require_mc(r, cfg)
        fam = [p for p in r.prints if isinstance(p, dict) and p.get('tag') == 'FAMILY']
        if len(fam) != 1:
            raise core.MachineryError(f'{cfg}: no FAMILY line')
        fam = fam[0]
        cov['models'][cfg] = {'generated': r.generated, 'distinct': r.distinct, 'depth': r.depth, 'family': fam['n']}
        cov['states'] += r.distinct
        cov['transitions'] += r.generated
        # 3. the real code on the same family, on random strings, in writer lines
        env = {'VERIF_SEED': seed, 'VERIF_TIER': tier}
        outs = []
        p = work.path('exh.ndjson')
        st = json.loads(core.run_driver('c02_driver.py', ['exh', json.dumps(fam['alphabet']), fam['maxlen'], p], env=env).strip().splitlines()[-1])
        if st['inputs'] != fam['n']:
            raise core.MachineryError(f'coverage handshake: driver enumerated {st["inputs"]} inputs, the model has {fam["n"]}')
        cov['exhaustive_inputs'] = st['inputs']
        outs.append(p)
        for mode in ('random', 'lines'):
            p = work.path(mode + '.ndjson')
            st = json.loads(core.run_driver('c02_driver.py', [mode, p], env=env).strip().splitlines()[-1])
            if mode == 'lines':
                seen = {json.loads(ln)['writer'] for ln in p.read_text(encoding='utf-8').splitlines()}
                if st['positions'] < 70 or len(seen) != st['positions']:
                    raise core.MachineryError(f'writer positions exercised: {len(seen)} of {st["positions"]} (70 expected)')
                cov['writer_positions'] = sorted(seen)
            outs.append(p)
        # 4. TLC validates every record (one pass)
        allp = work.path('all.ndjson')
        samples = []
        with open(allp, 'w', encoding='utf-8') as out:
            for p in outs:
                txt = p.read_text(encoding='utf-8')
                if not txt.strip():
                    raise core.MachineryError(f'driver produced no records: {p.name}')
                out.write(txt)
                lines = txt.splitlines()
                samples.append({k: v for k, v in json.loads(lines[(len(lines) * 2) // 3]).items() if k not in ('sig', 'fold', 'msg')})
        allm, st = tokcheck.validate_records('EscapeTrace', 'EscapeTrace.cfg', allp, work=work, timeout=3000)
        total = st['records']
        cov['states'] += st['states']
        cov['transitions'] += st['transitions']
        cov['traces_validated_against_impl'] = total
        cov['records_validated'] = total
        cov['mismatches'] = len(allm)
        cov['samples'] = samples
        cov['exhaustive'] = True
        cov['rule'] = (f'every string of length <= {fam["maxlen"]} over the code points {fam["alphabet"]} x multiline in '
                       '{False, True} (model and implementation, same count); seeded random strings over all Unicode '
                       'scalar values with forced trailing backslash / backslash-LF / CR-LF cases, alone, embedded '
                       'between random token soup, and in each of the writer positions listed under writer_positions')
        allm = _split_diag(allm, cov)
        known, new = core.classify(PROP, [sig_of(m) for m in allm])
        return core.finish(PROP, tier=tier, seed=seed, t0=t0, coverage=cov, known=known, new=new,
                           assumptions=['pure-Python srctools.tokenizer from /repo/src (the Cython accelerator cannot be built here)',
                                        'TLC 1.8 evaluates EscapeOps/TokenizerOps correctly',
                                        'line breaks are CR and LF (the characters the tokenizer treats as line ends)'])
    finally:
        work.cleanup()


def replay(path: str) -> int:
    work = core.Work()
    try:
        out = work.path('replay.ndjson')
        core.run_driver('c02_driver.py', ['replay', path, out])
        mism, _ = tokcheck.validate_records('EscapeTrace', 'EscapeTrace.cfg', out, work=work, shards=1)
        mism = _split_diag(mism, {})
        known, new = core.classify(PROP, [sig_of(m) for m in mism])
        for s in new:
            print(f'VIOLATION property={PROP} replay={path} clause={s["clause"]}')
        if not new:
            print(f'OK replay={path}: no violation reproduced ({len(mism)} known)')
        return 1 if new else 0
    finally:
        work.cleanup()
