"""C01 - KeyValues1 serialise/parse round trip preserves the whole tree."""
from __future__ import annotations

import concurrent.futures as cf
import json
import re
import time

from vlib import core
from vlib.tlc import MachineryError, run_tlc

PROP = 'C01'

MANIFEST = dict(
    technique='TLA+ model (KV1Ops/KV1: Serialise, Lex, the token loop of Keyvalues.parse) checked by TLC; '
              'every tree, token document and text TLC explored is executed on the real code; all records '
              'validated by TLC (KV1Trace) with the same operators',
    category='model_checking',
    text='KV1Ops defines what the text of a tree must be character for character (names and values escaped, '
         'options only add blanks), the tokenizer as Keyvalues.parse configures it (one step per character, line '
         'numbers, every error) and the parse loop (block stack, block_line, can_flag_replace, [flags], single_line, '
         'single_block, newline options, every error, 31 branch labels). TLC checks Parse(Lex(Serialise(t, o))) = t, '
         'blanks-only difference between 4 option sets, the token skeleton and line-number invariants over every small '
         'tree (quick/thorough: every string of length <= 2/3 over 13 name / 15 value characters in each slot of 9 fixed '
         'shapes, pairs of strings of length <= 2 over 4/8 characters; every shape with names a/A, <= 2 children, block '
         'depth <= 2/3), walks the parse loop one iteration per state over every token document the loop reads to its '
         'end (length <= 5/7 over 9/12 token symbols + 10 longer seeds, 7 parse option sets) and over every text of '
         'length <= 4/5 over 10 characters (lexer invariants: total, one final EOF or error, monotone lines). Every '
         'job TLC finished is executed on the real Keyvalues/Tokenizer: serialise to str and to a file object, export(), '
         'tree snapshot after serialising, parse from str / chunk list / file object / ready-made Tokenizer, token stream; '
         'plus seeded random trees (all Unicode scalar values, depth 50, width 200, 2000-character strings, random '
         'whitespace options), 138 fixed hostile trees (BOM, Unicode line separators, CR LF, quotes/backslashes at '
         'either end, in every slot) and random documents with random flags/options. TLC judges each record. Verdict '
         'clauses are the property: every real parse of the text (str, character-by-character/arbitrary chunks, file '
         'object, the text written by serialise(file), export()) gives the tree back; the tree is unchanged; the texts '
         'of two option sets are equal after removing whitespace outside quoted strings; a document parses alike from '
         'str / chunks / file object. Exact conformance with the model (text = Serialise(tree, opts) character for '
         'character, parse result = Parse(Lex(text)) with line numbers and error kinds, tokens = Lex(text)) is '
         'reported as diagnostics in the evidence and never makes a violation.',
    design_ref='4 (C01)',
    note='Pure-Python tokenizer only. str.casefold() of non-ASCII flag/directive characters is supplied by the '
         'harness as a table. Trusts TLC and the projection (Keyvalues._real_name/_value/line_num).',
)

QUICK = ['KV1_strings_mc.cfg', 'KV1_shapes_mc.cfg', 'KV1_docs_mc.cfg', 'KV1_texts_mc.cfg']
THOROUGH = ['KV1_strings_big.cfg', 'KV1_shapes_big.cfg', 'KV1_shapes2_big.cfg', 'KV1_docs_big.cfg', 'KV1_texts_big.cfg']


def sig_of(m: dict) -> dict:
    rec = m['rec']
    sig = dict(rec.get('sig', {}))
    sig['clause'] = m['clause']
    sig['expected'] = m['exp'] if not isinstance(m['exp'], (list, dict)) or len(json.dumps(m['exp'])) < 4000 else '(large)'
    if isinstance(m['exp'], dict) and 'runs' in m['exp']:
        sig['runs'] = sorted(m['exp']['runs'])
    sig['record'] = {k: v for k, v in rec.items() if k != 'sig'}
    return sig


def _check_doc_closure(cfg: str, jobs: list) -> None:
    """Coverage handshake for the growing family: TLC printed a job for every one-symbol extension
    of every document it declared growable, so nothing was dropped between TLC and the harness."""
    key = lambda j, syms: (json.dumps(syms), json.dumps(j['po'], sort_keys=True))
    have = {key(j, j['syms'] or []) for j in jobs}
    if len(have) != len(jobs):
        raise MachineryError(f'{cfg}: duplicate document jobs')
    alpha: dict = {}
    for j in jobs:
        pk = json.dumps(j['po'], sort_keys=True)
        alpha.setdefault(pk, set()).update(j['syms'] or [])
    grown = 0
    for j in jobs:
        if j['grow']:
            pk = json.dumps(j['po'], sort_keys=True)
            lost = [y for y in sorted(alpha[pk]) if key(j, list(j['syms'] or []) + [y]) not in have]
            if lost:
                raise MachineryError(f'{cfg}: growable document {j["syms"]} lacks the extensions {lost}')
            grown += 1
    if grown == 0:
        raise MachineryError(f'{cfg}: no document was extended')


def run(tier: str, seed: int) -> int:
    t0 = time.time()
    work = core.Work()
    try:
        cov = {'states': 0, 'transitions': 0, 'models': {}}
        cfgs = THOROUGH if tier == 'thorough' else QUICK
        # 1. the design: exhaustive model checking; every finished job is printed
        with cf.ThreadPoolExecutor(max_workers=len(cfgs)) as ex:
            results = list(ex.map(lambda c: run_tlc('KV1', c, workers=4, timeout=2400, heap='3g'), cfgs))
        branches_seen: dict = {}
        all_branches: set = set()
        job_files = []
        n_jobs = 0
        for cfg, r in zip(cfgs, results):
            core.require_mc(r, cfg)
            jobs = [p for p in r.prints if isinstance(p, dict) and p.get('tag') == 'JOB']
            for p in r.prints:
                if isinstance(p, dict) and p.get('tag') == 'BRANCHES':
                    all_branches |= set(p['all'])
            m = re.search(r'Finished computing initial states: (?:(\d+) distinct|\d+ states generated, with (\d+) of them distinct)', r.raw)
            n_init = int(m.group(1) or m.group(2)) if m else -1
            if 'docs' in cfg:
                _check_doc_closure(cfg, jobs)
            elif len(jobs) != n_init:
                raise MachineryError(f'{cfg}: {len(jobs)} jobs printed for {n_init} initial states')
            if not jobs:
                raise MachineryError(f'{cfg}: no jobs')
            for j in jobs:
                for b in j['hist']:
                    branches_seen[b] = branches_seen.get(b, 0) + 1
            cov['models'][cfg] = {'generated': r.generated, 'distinct': r.distinct, 'depth': r.depth, 'jobs': len(jobs),
                                  'wall_s': round(r.wall_s, 1)}
            cov['states'] += r.distinct
            cov['transitions'] += r.generated
            jf = work.path(cfg + '.jobs.json')
            jf.write_text(json.dumps(jobs))
            job_files.append((cfg, jf, len(jobs)))
            n_jobs += len(jobs)
            r.raw, r.prints = '', []          # the job lists are large: keep them on disk only
            del jobs
        del results
        missing = all_branches - set(branches_seen)
        if missing or not all_branches:
            raise MachineryError(f'vacuous model: branches of the parse loop never taken: {sorted(missing)}')
        cov['branches_covered'] = branches_seen
        cov['model_jobs'] = n_jobs

        # 2. every job on the real code (direction A) + random trees/documents (direction B)
        def drive(item):
            cfg, jf, n = item
            out = work.path(cfg + '.ndjson')
            st = json.loads(core.run_driver('c01_driver.py', ['jobs', jf, out],
                                            env={'VERIF_SEED': seed, 'VERIF_TIER': tier}).strip().splitlines()[-1])
            done = st.get('rt_jobs', 0) + st.get('doc_jobs', 0) + st.get('txt_jobs', 0)
            if done != n:
                raise MachineryError(f'{cfg}: driver executed {done} of {n} jobs')
            return out, st

        def drive_random(_):
            out = work.path('random.ndjson')
            st = json.loads(core.run_driver('c01_driver.py', ['random', out],
                                            env={'VERIF_SEED': seed, 'VERIF_TIER': tier}).strip().splitlines()[-1])
            return out, st
        with cf.ThreadPoolExecutor(max_workers=5) as ex:
            futs = [ex.submit(drive, it) for it in job_files] + [ex.submit(drive_random, None)]
            outs = [f.result() for f in futs]
        line_rep = _merge_lines([st.pop('lines', {}) for _, st in outs])
        cov['driver'] = {str(p.name): st for p, st in outs}
        cov['anchored_lines'] = {k: {'lines': v['lines'], 'never_executed': v['missed']} for k, v in line_rep.items()}
        cov['jobs_replayed'] = n_jobs

        # 3. TLC validates every record.  All files are interleaved line by line (balanced shards) and
        #    cut into parts of at most PART records, each part validated by 16 TLC processes.
        PART = 50000
        handles = [open(p, encoding='utf-8') for p, _ in outs]
        samples = []
        parts = []
        cur = None
        n_lines = 0
        live = list(handles)
        while live:
            for h in list(live):
                line = h.readline()
                if not line:
                    live.remove(h)
                    continue
                if n_lines % PART == 0:
                    if cur:
                        cur.close()
                    parts.append(work.path(f'all{len(parts)}.ndjson'))
                    cur = open(parts[-1], 'w', encoding='utf-8')
                cur.write(line)
                n_lines += 1
                if n_lines % 9973 == 1 and len(samples) < 6:
                    samples.append(_sample(json.loads(line)))
        if cur:
            cur.close()
        for h in handles:
            h.close()
        allm = []
        total = 0
        n_mism = 0
        diag: dict = {}
        val_wall = 0.0
        for part in parts:
            mism, st = core.validate_records('KV1Trace', 'KV1Trace.cfg', part, work=work, timeout=3000, heap='2g')
            # keep the (large) record only with mismatches that are not known findings
            for mm in mism:
                if mm['clause'].startswith('diag.'):      # exact-model comparisons: evidence, never a verdict
                    diag[mm['clause']] = diag.get(mm['clause'], 0) + 1
                    continue
                sg = sig_of(mm)
                kn, nw = core.classify(PROP, [sg])
                if kn:
                    sg.pop('record', None)
                allm.append(sg)
            n_mism += sum(1 for mm in mism if not mm['clause'].startswith('diag.'))
            del mism
            total += st['records']
            cov['states'] += st['states']
            cov['transitions'] += st['transitions']
            val_wall += st['wall_s']
            for q in work.dir.glob(part.stem + '.shard*'):
                q.unlink()
            part.unlink()
        cov['validation_wall_s'] = round(val_wall, 1)
        if total != sum(st.get('records', 0) for _, st in outs):
            raise MachineryError(f'{total} records validated, drivers wrote {sum(st.get("records", 0) for _, st in outs)}')
        cov['traces_validated_against_impl'] = total
        cov['records_validated'] = total
        cov['mismatches'] = n_mism
        cov['diagnostics'] = {'note': 'records whose exact text / tokens / parser outcome differ from the KV1Ops model '
                                      '(layout, line numbers, error kinds, flags): reported, not demanded by C01',
                              'counts': diag}
        cov['samples'] = samples
        cov['exhaustive'] = True
        cov['rule'] = ('every job of the bounded KV1 families (trees x serialise options, token documents x parse options, '
                       'short texts) printed by TLC and executed on the real code; seeded random trees and documents beyond the bounds')
        known, new = core.classify(PROP, allm)
        if not new:
            _check_lines(line_rep)
        return core.finish(PROP, tier=tier, seed=seed, t0=t0, coverage=cov, known=known, new=new,
                           assumptions=['pure-Python srctools from /repo/src (Cython tokenizer cannot be built here)',
                                        'str.casefold() of non-ASCII characters in [flags] and #directives is taken from Python',
                                        'file objects: io.StringIO and a UTF-8 text file opened with the default newline mode',
                                        'TLC 1.8 evaluates KV1Ops correctly'])
    finally:
        work.cleanup()


# Vacuity guard on the unchanged source: every line of these functions must have been executed by
# the drivers, except lines that cannot run the way Keyvalues.parse configures the tokenizer.  Enforced
# only while the function is the pinned one (hash); for a modified source the list is evidence only.
PINNED = {
    'Keyvalues.parse': ('25b554b076ed', ['raise tokenizer.error(', "'Keyvalue split across lines!"]),   # dead: block_line is NONE here
    'Keyvalues.serialise': ('49623aba6273', []),
    'Keyvalues._serialise': ('553a2075c4c4', []),
    'Keyvalues.export': ('50dbe0740356', []),
    '_read_flag': ('1a607a531026', []),
    'Tokenizer._handle_string': ('74c89d830db7', ["raise self.error('Unterminated string!') from None"]),   # dead: None handled above
    'Tokenizer._get_token': ('8e30f2b7dad0', ['return comm', "return Token.BRACK_OPEN", "return Token.PAREN_OPEN", "return Token.COLON",
                                              "return Token.PLUS", "return Token.BRACK_CLOSE", "return Token.PAREN_CLOSE"]),   # options parse() never sets
}


def _check_lines(rep: dict) -> None:
    for name, (pinned, allowed) in PINNED.items():
        v = rep.get(name)
        if v is None:
            raise MachineryError(f'no line report for {name}')
        if v['hash'] != pinned:
            continue
        bad = [x for x in v['missed'] if not any(x[1].startswith(a) for a in allowed)]
        if bad:
            raise MachineryError(f'vacuous harness: lines of {name} never executed: {bad}')


def _merge_lines(reps: list) -> dict:
    """Lines of the anchored functions no driver process executed."""
    out: dict = {}
    for rep in reps:
        for name, v in rep.items():
            cur = out.setdefault(name, {'hash': v['hash'], 'lines': v['lines'], 'missed': None})
            miss = {tuple(x) for x in v['missed']}
            cur['missed'] = miss if cur['missed'] is None else cur['missed'] & miss
    for v in out.values():
        v['missed'] = sorted(list(x) for x in (v['missed'] or ()))
    return out


def _sample(rec: dict) -> dict:
    if rec['k'] == 'rt':
        run0 = rec['runs'][0]
        return {'k': 'rt', 'doc': rec['doc'] if len(json.dumps(rec['doc'])) < 1500 else '(large)',
                'o': run0['o'], 'text': ''.join(map(chr, run0['text']))[:300], 'parsed_ok': run0['p_str']['ok']}
    return {'k': rec['k'], 'text': ''.join(map(chr, rec['text']))[:300], 'po': rec.get('po'),
            'res': {k: rec['res'][k] for k in ('ok', 'err', 'arg', 'line')}}


def replay(path: str) -> int:
    """Re-execute a replay file's tree or text on the current source and let TLC judge it again."""
    work = core.Work()
    try:
        out = work.path('replay.ndjson')
        core.run_driver('c01_driver.py', ['replay', path, out])
        mism, _ = core.validate_records('KV1Trace', 'KV1Trace.cfg', out, work=work, shards=1)
        known, new = core.classify(PROP, [sig_of(m) for m in mism if not m['clause'].startswith('diag.')])
        for c in sorted({s['clause'] for s in new}):
            print(f'VIOLATION property={PROP} replay={path} clause={c}')
        if not new:
            print(f'OK replay={path}: no violation reproduced ({len(mism)} known)')
        return 1 if new else 0
    finally:
        work.cleanup()
