"""C17 - Instance collapse transforms contents exactly and leaves the template intact."""
from __future__ import annotations

import json
import re
import time

from vlib import core
from vlib.tlc import run_tlc

PROP = 'C17'

MANIFEST = dict(
    technique='TLA+ model (Instances, InstancesOps) checked by TLC; TLC-enumerated collapse scenarios and every model '
              'transition replayed on real VMFs; implementation records validated by TLC (InstancesTrace)',
    category='model_checking',
    text='TLC exhausts the collapse_all design (all inclusion graphs over 2-3 instance files incl. self/mutual inclusion, '
         'any order of collapses, recursion limit) with template-frozen, order-independence, bounded-rounds and '
         'termination properties; a Share=TRUE variant must violate them. TLC enumerates collapse scenarios (8 templates '
         'x all 24 lattice rotations x origins x 3 fixup styles x 4 $fixup tables, and sequences of collapses of one '
         'cached template); each is run through collapse_one / collapse_all on real VMFs and TLC recomputes the exact '
         'placement (planes, texture axes and offsets, displacements, origin, orientation incl. pitch/yaw keys, typed '
         'keyvalues, names, outputs, nested $fixups, face-ID lists) from the logged template and compares template '
         'export hashes before/after every collapse. EntityFixup.substitute is validated exhaustively over short texts. '
         'Arbitrary real rotations are a numeric residue compared with an independent matrix computation.',
    design_ref='4 (C17)',
    note='Trusts TLC, the projection (exported values read back at 6 decimals onto the integer lattice; keyvalue meaning '
         'taken from the bundled entity database) and float arithmetic for the numeric residue (reported separately). '
         'Instance I/O proxies and visgroup modes other than the default are not covered. Pure-Python tree only.',
)

ASSUMPTIONS = ['pure-Python srctools from /repo/src (Cython accelerators cannot be built here)',
               'the bundled engine entity database gives the meaning (value type) of each keyvalue',
               'numbers of the exported map within 1e-6 of an integer are that integer (export keeps 6 decimals)',
               'arbitrary real rotations: evaluated numerically by the harness (1e-6), not by TLC',
               'TLC 1.8 evaluates InstancesOps correctly']


def sig_of(m: dict) -> dict:
    rec = m['rec']
    sig = dict(rec.get('sig', {}))
    sig['clause'] = m['clause']
    sig['expected'] = m['exp']
    sig['record'] = {k: v for k, v in rec.items() if k not in ('sig',)}
    return sig


def _driver(args, tier, seed, timeout=3000) -> dict:
    out = core.run_driver('c17_driver.py', args, env={'VERIF_SEED': seed, 'VERIF_TIER': tier}, timeout=timeout)
    return json.loads(out.strip().splitlines()[-1])


def run(tier: str, seed: int) -> int:
    t0 = time.time()
    phases: dict = {}
    last = [t0]

    def _tick(name: str) -> None:
        now = time.time()
        phases[name] = round(phases.get(name, 0) + now - last[0], 1)
        last[0] = now
    work = core.Work()
    thorough = tier == 'thorough'
    try:
        cov: dict = {'states': 0, 'transitions': 0, 'models': {}}
        # 1. the design: exhaustive model checking (safety + termination), and the defective variant must fail
        for cfg in (['Instances_small.cfg', 'Instances_mid.cfg'] + (['Instances_mc.cfg'] if thorough else [])):
            r = run_tlc('Instances', cfg, timeout=3000)
            core.require_mc(r, cfg)
            cov['models'][cfg] = {'generated': r.generated, 'distinct': r.distinct, 'depth': r.depth}
            cov['states'] += r.distinct
            cov['transitions'] += r.generated
        _tick('model checking')
        r = run_tlc('Instances', 'Instances_bug.cfg', workers=4)
        if r.ok or 'TemplateFrozen' not in ' '.join(r.errors):
            raise core.MachineryError(f'the model with shared $fixup values does not violate TemplateFrozen: {r.errors}')
        cov['models']['Instances_bug.cfg'] = {'violated': 'TemplateFrozen (as required)'}
        _tick('defective variant')
        recs = []
        # 2. every transition of the bounded machine on a real map; collapse_all on every inclusion graph
        actions: dict = {}
        cov['model_edges'] = cov['edges_replayed'] = cov['collapse_all_runs'] = 0
        for ecfg in (['Instances_edges.cfg'] + (['Instances_edges2.cfg'] if thorough else [])):
            r = run_tlc('Instances', ecfg, workers=1, timeout=1800)
            core.require_mc(r, ecfg)
            edges = [p for p in r.prints if isinstance(p, dict) and p.get('tag') == 'EDGE']
            m = re.search(r'Finished computing initial states: (\d+) states? generated', r.raw)
            n_init = int(m.group(1)) if m else 1
            if len(edges) != r.generated - n_init or not edges:
                raise core.MachineryError(f'{ecfg}: {len(edges)} edges printed for {r.generated} generated states ({n_init} initial)')
            acts: dict = {}
            for e in edges:
                acts[e['a']['op']] = acts.get(e['a']['op'], 0) + 1
            want = {'roundstart', 'collapse', 'done', 'limit', 'limitexact'}
            if not want <= set(acts):
                raise core.MachineryError(f'vacuous model {ecfg}: actions never taken: {want - set(acts)}')
            for k, v in acts.items():
                actions[k] = actions.get(k, 0) + v
            cov['model_edges'] += len(edges)
            _tick('edge dump')
            ef = work.path(ecfg + '.json')
            ef.write_text(json.dumps(edges))
            out = work.path(ecfg + '.steps.ndjson')
            st = _driver(['edges', ef, out], tier, seed)
            if st.get('edges_replayed', 0) != acts['roundstart'] + acts['collapse']:
                raise core.MachineryError(f'edge replay incomplete: {st} vs {acts}')
            cov['edges_replayed'] += st['edges_replayed']
            recs.append(out)
            out = work.path(ecfg + '.runs.ndjson')
            st = _driver(['runs', ef, out], tier, seed)
            cov['collapse_all_runs'] += st.get('runs', 0)
            recs.append(out)
        cov['actions_covered'] = actions
        _tick('edge replay + collapse_all runs')
        # 3. TLC-generated collapse scenarios (coverage handshake: one record family per scenario)
        r = run_tlc('InstancesScen', f'InstancesScen_{tier}.cfg', workers=1, timeout=1800)
        core.require_mc(r, 'InstancesScen')
        scens = [p['sc'] for p in r.prints if isinstance(p, dict) and p.get('tag') == 'SCEN']
        if len(scens) != r.generated - 1 or not scens:
            raise core.MachineryError(f'scenario dump: {len(scens)} printed for {r.generated} generated states')
        cov['states'] += r.distinct
        cov['transitions'] += r.generated
        sf = work.path('scen.json')
        sf.write_text(json.dumps(scens))
        out = work.path('scen.ndjson')
        st = _driver(['scen', sf, out], tier, seed)
        if st.get('scenarios') != len(scens):
            raise core.MachineryError(f'scenario handshake failed: {st} vs {len(scens)}')
        n_step = sum(len(s['insts']) if s['t'] != 'io' else 1 for s in scens)
        n_final = sum(len(s['insts']) for s in scens if s['t'] != 'io' and len(s['insts']) > 1)
        cov['io_scenarios'] = sum(1 for s in scens if s['t'] == 'io')
        if not cov['io_scenarios']:
            raise core.MachineryError('no instance I/O scenarios')
        if st['records'] != n_step + n_final:
            raise core.MachineryError(f'scenario handshake failed: {st["records"]} records for {n_step}+{n_final} collapses')
        cov['scenarios'] = len(scens)
        recs.append(out)
        _tick('scenarios')
        # 4. substitute / fixup_name; seeded random templates outside the bounds
        for mode in ('subst', 'random'):
            out = work.path(mode + '.ndjson')
            _driver([mode, out], tier, seed)
            recs.append(out)
        _tick('substitute + random')
        # 5. TLC validates every record
        allm = []
        total = 0
        samples = []
        kinds: dict = {}
        merged = work.path('all.ndjson')
        with open(merged, 'w', encoding='utf-8') as f:
            for p in recs:
                rs = core.read_ndjson(p)
                for x in rs:
                    kinds[x['k']] = kinds.get(x['k'], 0) + 1
                mid = rs[len(rs) // 2]
                samples.append({'k': mid['k'], 'sig': mid['sig'], 'hist': mid.get('hist') if mid['k'] in ('subst', 'name') else
                                {k: ([a['op'] for a in v] if k == 'path' else v) for k, v in (mid.get('hist') or {}).items()
                                 if k in ('gen', 'sc', 'seed', 'limit', 'path')}})
                f.write(open(p, encoding='utf-8').read())
        allm, st = core.validate_records('InstancesTrace', 'InstancesTrace.cfg', merged, work=work, shards=12)
        total = st['records']
        cov['states'] += st['states']
        cov['transitions'] += st['transitions']
        for k in ('collapse', 'step', 'run', 'subst', 'name', 'io'):
            if not kinds.get(k):
                raise core.MachineryError(f'no records of kind {k}')
        cov['traces_validated_against_impl'] = total
        cov['records_validated'] = total
        cov['records_by_kind'] = kinds
        cov['mismatches'] = len(allm)
        cov['samples'] = samples
        cov['exhaustive'] = True
        _tick('record validation')
        # 6. numeric residue: arbitrary real rotations (evaluated by the harness, reported separately)
        nf = work.path('numeric.json')
        _driver(['numeric', nf], tier, seed)
        num = json.loads(nf.read_text())
        cov['numeric_residue'] = {'cases': num['cases'], 'checks': num['checks'], 'failed': num['n_bad'], 'tolerance': 1e-6}
        _tick('numeric residue')
        cov['phase_wall_s'] = phases
        sigs = [sig_of(m) for m in allm]
        for b in num['bad'][:5]:
            sigs.append({'kind': 'numeric', 'action': 'collapse', 'clause': 'numeric.' + b['what'], 'expected': b.get('want'),
                         'record': b})
        cov['rule'] = ('every transition of the bounded Instances machine (2 files, <=2 instances per file, limit 2) replayed '
                       'by its shortest path on real maps; collapse_all on every inclusion graph of it with limits 1..3 and '
                       'seeded larger graphs; every TLC-enumerated collapse scenario; substitute over all texts up to '
                       'length 4 (5 thorough) over {$,a,b,A,1,!}; seeded random templates')
        known, new = core.classify(PROP, sigs)
        return core.finish(PROP, tier=tier, seed=seed, t0=t0, coverage=cov, known=known, new=new, assumptions=ASSUMPTIONS)
    finally:
        work.cleanup()


def replay(path: str) -> int:
    """Re-execute a replay file's scenario on the current tree and let TLC judge it again."""
    work = core.Work()
    try:
        rp = json.loads(open(path).read())
        if rp.get('kind') == 'numeric':
            # numeric residue: the seeded cases are evaluated again by the harness
            nf = work.path('numeric.json')
            core.run_driver('c17_driver.py', ['numeric', nf])
            num = json.loads(nf.read_text())
            if num['n_bad']:
                print(f'VIOLATION property={PROP} replay={path} clause=numeric.{num["bad"][0]["what"]}')
                return 1
            print(f'OK replay={path}: numeric residue holds ({num["checks"]} comparisons)')
            return 0
        out = work.path('replay.ndjson')
        core.run_driver('c17_driver.py', ['replay', path, out])
        mism, _ = core.validate_records('InstancesTrace', 'InstancesTrace.cfg', out, work=work, shards=1)
        known, new = core.classify(PROP, [sig_of(m) for m in mism])
        for s in new:
            print(f'VIOLATION property={PROP} replay={path} clause={s["clause"]}')
        if not new:
            print(f'OK replay={path}: no violation reproduced ({len(mism)} known)')
        return 1 if new else 0
    finally:
        work.cleanup()
