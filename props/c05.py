"""C05 - Angle stays in [0,360), frozen values never change, text form is canonical."""
from __future__ import annotations

import concurrent.futures as cf
import json
import time

from vlib import core
from vlib.tlc import run_tlc

PROP = 'C05'

MANIFEST = dict(
    technique='TLA+ models (MathObj/MathObjOps: reference slots over Vec/Angle/Matrix objects and frozen twins; FloatText: canonical decimal text) checked by TLC; every model transition replayed on the real objects, exactly and with hostile floats; implementation records validated by TLC (MathObjTrace, FloatTextTrace)',
    category='model_checking',
    text='TLC exhausts all histories of up to 3 (thorough: 4) public operations (constructors, conversions, setters, *, *=, @, @=, transform(), to_angle, from_angle, from_basis, copy/deepcopy/pickle, freeze/thaw, str/from_str incl. from_str(instance) and with_axes) over 2 and 3 reference slots on the exact integer domain, with the range invariant, frozen immutability, copy equality/independence as action properties. Every transition is executed on real objects by its shortest history, once with the model values (the whole post-state must be the one the specification computes) and again with hostile floats (-1e-14, 359.99999999999994, exact multiples of 360, -0.0, denormals, 1e15...) where TLC predicts which object is returned or mutated and judges range on exact (sign, floor) triples, immutability and hashes on bit patterns, and copy equality; independence probes derive an object by every public path that accepts an instance, mutate one side in place by every in-place path and watch the other side. The canonical text is model-checked for all numbers with 3 places up to 12.999 and validated on the real formatter for every model number, for str() of every Vec/Angle produced in the histories and for seeded floats.',
    design_ref='4 (C05)',
    note='Values of hostile-float histories are not predicted by TLC (no floats); only structure, range, immutability, equality and text are judged there. Pure-Python math.py only.',
)


def sig_of(m: dict) -> dict:
    rec = m['rec']
    sig = dict(rec.get('sig', {}))
    sig['clause'] = m['clause']
    sig['expected'] = m['exp']
    sig['record'] = dict(rec)
    return sig


def _edges(module: str, cfg: str) -> tuple[list, object]:
    r = run_tlc(module, cfg, workers=1, timeout=1500)
    core.require_mc(r, cfg)
    edges = [p for p in r.prints if isinstance(p, dict) and p.get('tag') == 'EDGE']
    if len(edges) != r.generated - 1:
        raise core.MachineryError(f'{cfg}: {len(edges)} edges printed for {r.generated} generated states')
    return edges, r


ALL_OPS = {'new', 'conv', 'set', 'mul', 'imul', 'mm', 'imm', 'transform', 'to_angle', 'from_angle', 'from_basis',
           'copy', 'freeze', 'thaw', 'str'}


def run(tier: str, seed: int) -> int:
    t0 = time.time()
    work = core.Work()
    try:
        cov = {'states': 0, 'transitions': 0, 'models': {}}
        mcs = [('MathObj', 'MathObj_mc.cfg'), ('MathObj', 'MathObj_mc3.cfg'), ('FloatText', 'FloatText_mc.cfg')]
        if tier == 'thorough':
            mcs.append(('MathObj', 'MathObj_mc5.cfg'))
        with cf.ThreadPoolExecutor(max_workers=6) as ex:
            futs = [(cfg, ex.submit(run_tlc, mod, cfg, workers=5, timeout=1500)) for mod, cfg in mcs]
            fe1 = ex.submit(_edges, 'MathObj', 'MathObj_edges3.cfg' if tier == 'thorough' else 'MathObj_edges.cfg')
            fe2 = ex.submit(_edges, 'FloatText', 'FloatText_edges.cfg')
            for cfg, fut in futs:
                r = fut.result()
                core.require_mc(r, cfg)
                if r.distinct < 1000:
                    raise core.MachineryError(f'{cfg}: suspiciously small state space ({r.distinct})')
                cov['models'][cfg] = {'generated': r.generated, 'distinct': r.distinct, 'depth': r.depth}
                cov['states'] += r.distinct
                cov['transitions'] += r.generated
            edges, _ = fe1.result()
            tedges, _ = fe2.result()
        env = {'VERIF_SEED': seed, 'VERIF_TIER': tier}
        # every transition of the object model on real objects (exact + hostile floats)
        ops = {e['a']['op'] for e in edges}
        if ops != ALL_OPS:
            raise core.MachineryError(f'vacuous model: operations never taken: {ALL_OPS - ops}')
        ef = work.path('medges.json')
        ef.write_text(json.dumps(edges))
        steps, text1 = work.path('steps.ndjson'), work.path('steptext.ndjson')
        st = json.loads(core.run_driver('c05_driver.py', ['edges', ef, steps, text1], env=env).strip().splitlines()[-1])
        if st.get('edges_replayed') != len(edges):
            raise core.MachineryError(f'driver replayed {st.get("edges_replayed")} of {len(edges)} transitions')
        tainted = st.get('tainted_exact', 0)
        if tainted * 4 > len(edges):
            raise core.MachineryError(f'{tainted} of {len(edges)} transitions unreachable on the implementation')
        cov['edges_replayed'] = st['edges_replayed']
        cov['model_edges'] = len(edges)
        cov['independence_probes'] = st.get('independence_probes', 0)
        cov['actions_covered'] = st['ops']
        cov['edges_skipped_after_earlier_deviation'] = {'exact': tainted, 'hostile': st.get('tainted_hostile', 0)}
        # the text model on the real formatter + seeded floats
        tf = work.path('tedges.json')
        tf.write_text(json.dumps(tedges))
        text2 = work.path('text.ndjson')
        st2 = json.loads(core.run_driver('c05_driver.py', ['text', tf, text2], env=env).strip().splitlines()[-1])
        if st2['model_numbers'] + st2['model_vectors'] != len(tedges):
            raise core.MachineryError('text driver did not cover the FloatText model')
        cov['text_model_numbers'] = st2['model_numbers']
        cov['seeded_floats'] = st2['seeded_floats']
        allm, total, samples = [], 0, []
        kinds: dict = {}
        for mod, p in (('MathObjTrace', steps), ('FloatTextTrace', text1), ('FloatTextTrace', text2)):
            mism, vs = core.validate_records(mod, mod + '.cfg', p, work=work)
            allm += mism
            total += vs['records']
            cov['states'] += vs['states']
            cov['transitions'] += vs['transitions']
            rs = core.read_ndjson(p)
            for rec in rs:
                kinds[rec['k']] = kinds.get(rec['k'], 0) + 1
            samples.append({k: v for k, v in rs[len(rs) // 2].items() if k != 'hist'})
        if not {'step', 'hstep', 'indep', 'str3', 'fmt'} <= set(kinds):
            raise core.MachineryError(f'missing record kinds: {kinds}')
        domain = [m for m in allm if m['clause'] in ('domain', 'indep.vacuous')]
        if domain:
            raise core.MachineryError(f'{len(domain)} records outside the model domain, e.g. {json.dumps(domain[0])[:600]}')
        cov['traces_validated_against_impl'] = total
        cov['records_validated'] = total
        cov['record_kinds'] = kinds
        cov['mismatches'] = len(allm)
        cov['samples'] = samples
        cov['exhaustive'] = True
        cov['rule'] = ('every transition of the bounded MathObj model (2 slots, thorough: 3 slots; 3 operations deep, 15 operation kinds over 6 '
                       'classes) replayed by its shortest history, exactly and with hostile floats; every number of the '
                       'FloatText model (2 places, 0..11.99, both signs) formatted by the real code; seeded floats')
        known, new = core.classify(PROP, [sig_of(m) for m in allm])
        return core.finish(PROP, tier=tier, seed=seed, t0=t0, coverage=cov, known=known, new=new,
                           assumptions=['pure-Python srctools.math from /repo/src (Cython _math cannot be built here)',
                                        'values of hostile-float histories are not predicted by TLC; range, immutability, '
                                        'identity, equality and text are judged on exact encodings of the logged doubles',
                                        'the text round trip of an Angle is compared on the circle (359.9999996 prints as 360 and reads back as 0)',
                                        'TLC 1.8 evaluates the specifications correctly'])
    finally:
        work.cleanup()


def replay(path: str) -> int:
    work = core.Work()
    try:
        steps, text = work.path('steps.ndjson'), work.path('text.ndjson')
        core.run_driver('c05_driver.py', ['replay', path, steps, text])
        mism = []
        for mod, p in (('MathObjTrace', steps), ('FloatTextTrace', text)):
            if p.exists() and p.stat().st_size:
                m, _ = core.validate_records(mod, mod + '.cfg', p, work=work, shards=1)
                mism += m
        known, new = core.classify(PROP, [sig_of(m) for m in mism])
        for s in new:
            print(f'VIOLATION property={PROP} replay={path} clause={s["clause"]}')
        if not new:
            print(f'OK replay={path}: no violation reproduced ({len(mism)} known)')
        return 1 if new else 0
    finally:
        work.cleanup()
