"""C11 - every BSP lump writer is the inverse of its reader."""
from __future__ import annotations

import concurrent.futures as cf
import json
import os
import time

from vlib import core
from vlib.tlc import run_tlc

PROP = 'C11'

MANIFEST = dict(
    technique='TLA+ model (BspTables): run-length code, find_or_insert/find_or_extend table machine, cross-reference graph of '
              'the shared lump tables, static-prop field presence per version, Fits range law; TLC-enumerated transitions and '
              'worlds replayed on real BSP objects; implementation records validated by TLC (BspTablesTrace)',
    category='model_checking',
    text='TLC checks the laws of the visibility run-length code over 2827 run patterns, the index builders as a table machine '
         '(indexes handed out stay valid, tables only grow; the laws hold on every table of the bounded domain and reject the '
         'tail-prefix variant of find_or_extend). Every transition of the table machine is executed on the real functions. Abstract cross-reference worlds '
         '(planes, texinfo/texdata/texture names, edges, primitives, original/split/HDR faces, brushes and sides, leafs, nodes, '
         'water info, overlays, brush models, static props - 2592 enumerated by TLC plus seeded random ones) are realised as real '
         'objects, assigned to a synthesised empty BSP of each layout, saved and re-read; TLC demands that every reference the '
         'reader returns resolves to the object assigned and that every assigned view comes back as a prefix of the view read '
         '(where the writers place added objects in the shared tables is not judged). Visibility lumps are decoded by an independent reader: '
         'count, offsets in range, the bytes at every offset decode to the row, and the re-read value written again gives the same lump '
         '(block order and sharing are the writer\'s business); static props are round-tripped in all 13 format versions against the field-presence table; boundary values '
         'of the integer and string fields are judged by the Fits law; all views parsed from independently encoded files of every '
         'layout are transplanted into an empty BSP and must project equal after save and re-read. The optional parts of each '
         'structured value (brush model keyvalues x solids, overlay faces/fades/levels, cubemap count x size, static prop count x '
         'leafs x format, detail prop kinds, entity keys x outputs x separator, visibility None/0/n clusters, texinfo/texdata sharing '
         'patterns, brush side counts, primitive vertex/index counts, pakfile and texture-name lists) are enumerated by TLC as '
         'independent cross products, realised with generic values, and must come back as enumerated. The deferred-offset writer used by the binary writers (binformat.DeferredWrites) has its own model (Deferred), transitions replayed by path on the real class over a BytesIO.',
    design_ref='4 (C11)',
    note='Trusts TLC, the independent BSP synthesiser/decoder (vlib/bspsynth.py) and the tagging of objects by scalar fields. '
         'Float fields carry float32-representable values. Pure-Python tree only.',
)

ASSUMPTIONS = ['pure-Python srctools from /repo/src (Cython accelerators cannot be built here)',
               'objects are identified after re-reading by a scalar field that carries their id',
               'float fields are given float32-representable values, so equality is exact',
               'TLC 1.8 evaluates BspTablesOps correctly']

KINDS = ('rle', 'unrle', 'foi', 'foe', 'vis', 'graph', 'prop', 'fits', 'rt', 'part')


def sig_of(m: dict) -> dict:
    rec = m['rec']
    sig = dict(rec.get('sig', {}))
    sig['clause'] = m['clause']
    exp = m['exp'] if isinstance(m['exp'], dict) else {}
    sig['item'] = exp.get('item', '')
    sig['field'] = exp.get('field', '')
    sig['expected'] = m['exp']
    small = {k: v for k, v in rec.items() if k not in ('sig',)}
    if rec.get('k') == 'graph':
        small = {'k': 'graph', 'w': rec['w'], 'obs': rec['obs'], 'waterSelf': rec.get('waterSelf'), 'noneRefs': rec.get('noneRefs')}
    sig['record'] = small
    return sig


def deep_stack() -> None:
    """The run-level operators recurse once per run / table entry; TLC's worker threads get a larger
    Java stack (HotSpot reads _JAVA_OPTIONS; vlib.tlc passes the environment on)."""
    os.environ['_JAVA_OPTIONS'] = '-Xss64m'


def run(tier: str, seed: int) -> int:
    t0 = time.time()
    work = core.Work()
    marks = []
    deep_stack()
    try:
        cov = {'states': 0, 'transitions': 0, 'models': {}}
        env = {'VERIF_SEED': seed, 'VERIF_TIER': tier}
        pool = cf.ThreadPoolExecutor(max_workers=24)
        # 1. the design: laws of the run-length code, the table machine; transitions and worlds for the replay
        mc_cfgs = ['BspTables_rle.cfg', 'BspTables_mc.cfg'] + (['BspTables_mc5.cfg'] if tier == 'thorough' else [])
        mc_jobs = {cfg: pool.submit(run_tlc, 'BspTables', cfg, workers=8, timeout=2400) for cfg in mc_cfgs}
        fe = pool.submit(run_tlc, 'BspTables', 'BspTables_edges.cfg', workers=1, timeout=900)
        fd = pool.submit(run_tlc, 'BspTables', 'BspTables_diag.cfg', workers=1, timeout=900)
        re_ = fe.result()
        core.require_mc(re_, 'BspTables_edges.cfg')
        edges = [p for p in re_.prints if isinstance(p, dict) and p.get('tag') == 'EDGE']
        if len(edges) != re_.generated - Cardinality_init(re_) or not edges:
            raise core.MachineryError(f'BspTables_edges.cfg: {len(edges)} edges printed for {re_.generated} generated states')
        ops = {e['a']['op'] for e in edges}
        if ops != {'insert', 'extend'}:
            raise core.MachineryError(f'vacuous table machine: actions {ops}')
        cov['model_edges'] = len(edges)
        cov['states'] += re_.distinct
        cov['transitions'] += re_.generated
        ef = work.path('tedges.json')
        ef.write_text(json.dumps(edges))
        rd = fd.result()
        core.require_mc(rd, 'BspTables_diag.cfg')
        if not any(isinstance(p, dict) and p.get('tag') == 'DIAGDONE' for p in rd.prints):
            raise core.MachineryError('BspTables_diag.cfg did not complete')
        worlds = [p['w'] for p in rd.prints if isinstance(p, dict) and p.get('tag') == 'WORLD']
        diag = {p['what']: p for p in rd.prints if isinstance(p, dict) and p.get('tag') == 'DIAG'}
        fam = [p for p in rd.prints if isinstance(p, dict) and p.get('tag') == 'FAMILY'][0]['rle']
        parts_list = [p['c'] for p in rd.prints if isinstance(p, dict) and p.get('tag') == 'PART']
        done = [p for p in rd.prints if isinstance(p, dict) and p.get('tag') == 'DIAGDONE'][0]
        if not parts_list or len(parts_list) != done['parts']:
            raise core.MachineryError(f'{len(parts_list)} part combinations printed, the spec has {done["parts"]}')
        pf = work.path('parts.json')
        pf.write_text(json.dumps(parts_list))
        cov['tlc_part_combinations'] = len(parts_list)
        if len(worlds) < 1000:
            raise core.MachineryError(f'only {len(worlds)} worlds enumerated')
        wf = work.path('worlds.json')
        wf.write_text(json.dumps(worlds))
        cov['tlc_worlds'] = len(worlds)
        cov['foe_diagnosis'] = {k: diag['foe'][k] for k in ('lawBroken', 'cases', 'tailCases', 'tailCaught')}
        if not diag['foe']['tailCases'] or not diag['foe']['tailCaught']:
            raise core.MachineryError(f'vacuous index-builder laws: the excluded tail-prefix variant is not told apart: {diag["foe"]}')
        cov['prop_sizes'] = diag['propsize']['sizes']
        marks.append(('tlc-enumeration', round(time.time() - t0, 1)))
        model_sigs = []
        if diag['foe']['lawBroken']:
            model_sigs.append({'kind': 'model', 'action': 'foe', 'clause': 'model.finderLaw', 'item': 'find_or_extend',
                               'field': str(diag['foe']['lawBroken'])})
        # 2. the real code
        parts = 16
        jobs = [('funcs', ['funcs', ef, work.path('funcs.ndjson')]), ('vis', ['vis', work.path('vis.ndjson')]),
                ('props', ['props', work.path('props.ndjson')]), ('fits', ['fits', work.path('fits.ndjson')]),
                ('transplant', ['transplant', work.path('transplant.ndjson')]),
                ('parts', ['parts', pf, work.path('parts.ndjson')])]
        jobs += [(f'graph{n}', ['graph', n, parts, work.path(f'graph{n}.ndjson'), wf]) for n in range(parts)]

        def one(job):
            name, args = job
            out = core.run_driver('c11_driver.py', args, env=env, timeout=3000)
            return name, json.loads(out.strip().splitlines()[-1])
        stats = dict(pool.map(one, jobs))
        crashed = sorted(k for k, v in stats.items() if v.get('crashed'))
        cov['driver_crashes'] = crashed
        if crashed:
            pass    # reported through the crash records below; the coverage handshakes cannot hold
        elif stats['funcs']['rle_family'] != fam:
            raise core.MachineryError(f'coverage handshake: driver ran {stats["funcs"]["rle_family"]} run patterns, the spec has {fam}')
        if not crashed and stats['parts']['parts'] != len(parts_list):
            raise core.MachineryError('coverage handshake: not every part combination was realised')
        if not crashed and stats['funcs']['finder_edges'] != len(edges):
            raise core.MachineryError('coverage handshake: not every edge of the table machine was replayed')
        need = len(worlds) if tier == 'thorough' else len(worlds) // 2 - parts
        if not crashed and sum(stats[f'graph{n}']['worlds'] for n in range(parts)) < need:
            raise core.MachineryError('coverage handshake: not every enumerated world was replayed')
        cov['driver_stats'] = {k: v for k, v in stats.items() if not k.startswith('graph')}
        cov['worlds_replayed'] = sum(stats[f'graph{n}']['worlds'] for n in range(parts))
        marks.append(('drivers', round(time.time() - t0, 1)))
        # 3. TLC validates every record
        graph_all = work.path('graph.ndjson')
        with open(graph_all, 'w') as f:
            for n in range(parts):
                for cand in (work.path(f'graph{n}.ndjson'), work.path(f'graph{n}.ndjson.crash')):
                    if cand.exists():
                        f.write(cand.read_text())
        files = []
        for x in ('funcs', 'vis', 'props', 'fits', 'transplant', 'parts'):
            for cand in (work.path(x + '.ndjson'), work.path(x + '.ndjson.crash')):
                if cand.exists() and cand.stat().st_size:
                    files.append(cand)
        files.append(graph_all)
        allm = []
        total = 0
        kinds: dict = {}
        samples = []
        def check(p):
            return core.validate_records('BspTablesTrace', 'BspTablesTrace.cfg', p, work=work,
                                         shards=16 if p == graph_all or p.name == 'funcs.ndjson' else 4)
        for p in files:
            recs = core.read_ndjson(p)
            for rec in recs:
                kinds[rec['k']] = kinds.get(rec['k'], 0) + 1
            mid = recs[len(recs) // 2]
            samples.append({k: v for k, v in mid.items() if k in ('k', 'in', 'out', 'tbl', 'arg', 'res', 'fmt', 'field', 'v', 'outcome',
                                                                 'count', 'layout', 'diff', 'sig')})
        for mism, st in pool.map(check, files):
            allm += mism
            total += st['records']
            cov['states'] += st['states']
            cov['transitions'] += st['transitions']
        for k in KINDS:
            if not kinds.get(k) and not crashed:
                raise core.MachineryError(f'no record of kind {k}')
        marks.append(('validate', round(time.time() - t0, 1)))
        for cfg, fut in mc_jobs.items():
            r = fut.result()
            core.require_mc(r, cfg)
            cov['models'][cfg] = {'generated': r.generated, 'distinct': r.distinct, 'depth': r.depth}
            cov['states'] += r.distinct
            cov['transitions'] += r.generated
        pool.shutdown()
        marks.append(('mc', round(time.time() - t0, 1)))
        cov['stage_s'] = marks
        cov['record_kinds'] = kinds
        cov['traces_validated_against_impl'] = total
        cov['records_validated'] = total
        cov['mismatches'] = len(allm) + len(model_sigs)
        cov['samples'] = samples
        cov['exhaustive'] = True
        cov['rule'] = ('run-length code: all strings of <= 3 runs over {0,1,255} x lengths {1,2,254,255,256,511}; table machine: '
                       '3 items, tables <= 4 (5 thorough), sub-lists <= 3, every transition replayed; 2592 enumerated worlds + '
                       'seeded random worlds on 6 layouts; 13 static prop formats; 23 boundary values per integer field; count / index / packed '
                       'fields at the reader-derived maximum, +1 and at the full field width (lists of n references to one object)')
        sigs = model_sigs + [sig_of(m) for m in allm]
        # the deferred-offset writer every binary writer relies on (binformat.DeferredWrites)
        from props import sub_deferred
        dw = sub_deferred.collect(tier, seed, work)
        cov['states'] += dw['cov']['states']
        cov['transitions'] += dw['cov']['transitions']
        cov['models'].update(dw['cov']['models'])
        for k in ('deferred_actions', 'deferred_model_edges', 'deferred_records'):
            cov[k] = dw['cov'][k]
        cov['traces_validated_against_impl'] += dw['records']
        cov['records_validated'] += dw['records']
        cov['samples'] = samples + dw['samples'][:1]
        sigs += dw['sigs']
        cov['mismatches'] = len(sigs)
        known, new = core.classify(PROP, sigs)
        return core.finish(PROP, tier=tier, seed=seed, t0=t0, coverage=cov, known=known, new=new, assumptions=ASSUMPTIONS)
    finally:
        work.cleanup()


def Cardinality_init(res) -> int:
    """Number of initial states of the table machine (tables of length <= 2 over 3 items): generated
    states = initial states + transitions."""
    return 1 + 3 + 9


def replay(path: str) -> int:
    work = core.Work()
    deep_stack()
    try:
        rp = json.loads(open(path).read())
        if rp.get('kind') == 'model':
            print(f'replay of a model-level deviation: re-run ./check {PROP}')
            return run('quick', 0)
        out = work.path('replay.ndjson')
        core.run_driver('c11_driver.py', ['replay', path, out])
        mism, _ = core.validate_records('BspTablesTrace', 'BspTablesTrace.cfg', out, work=work, shards=1)
        sigs = [sig_of(m) for m in mism]
        if rp['record']['k'] in ('prop', 'fits', 'vis', 'rt'):
            # the whole family was regenerated: keep what the replay file is about
            sigs = [s for s in sigs if all(s.get(k) == rp.get(k) for k in ('clause', 'item', 'field', 'layout'))]
        known, new = core.classify(PROP, sigs)
        for s in new:
            print(f'VIOLATION property={PROP} replay={path} clause={s["clause"]} item={s["item"]} field={s["field"]}')
        if not new:
            print(f'OK replay={path}: no violation reproduced ({len(sigs)} known)')
        return 1 if new else 0
    finally:
        work.cleanup()
