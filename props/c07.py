"""C07 - VMF class/name indexes always agree with the entities in the map."""
from __future__ import annotations

import concurrent.futures as cf
import json
import time

from vlib import core
from vlib.tlc import MachineryError, run_tlc

PROP = 'C07'

MANIFEST = dict(
    technique='TLA+ model (VmfIndex: by_class/by_target as maintained state, one action per mutation path) checked by TLC; every model transition executed on real VMF/Entity objects; implementation records validated by TLC (VmfIndexTrace)',
    category='model_checking',
    text='TLC exhausts the index-maintenance design (2 maps with worldspawn (which can be named), 2-3 entities, classnames/targetnames with case variants, empty and absent keys, two spellings of the key; 16 mutation paths: Entity(), create_ent, add_ent, add_ents, remove_ent, Entity.remove, []=, update, del, pop, clear, make_unique, copy to either map, iteration of an index set, and lookups spanning several buckets - search() generators, items() snapshots - with a mutation in the middle) with the invariants index = scan of the entities in the map (case-folded), search() = scan, worldspawn rule, isolation of the two maps. Every (state, action) pair of the bounded model is executed on real objects (source state built on fresh objects, also reached by its TLC path from the initial state) and every logged call is judged by TLC: raw by_class/by_target content and list(search(q)) against a scan of vmf.entities computed by the spec. Seeded random histories with up to 20 entities, Unicode names with non-trivial case folding, and VMF.parse results are validated the same way.',
    design_ref='4 (C07)',
    note='Trusts TLC, the projection (public attributes by_class, by_target, entities, spawn, Entity mapping interface) and str.casefold as the definition of case-insensitive (supplied to TLC as a table). A record is judged only if the state before the call was in order; later calls of a broken history are reported as tainted, not judged. Only the agreement of the indexes with the entities after a call is judged; whether a call is refused or carried out, its exception and return value are free (a call whose effect on the entities is neither the modelled one nor none is counted as unexplained, its post-state judged all the same). Source states are built through the API and by VMF.parse() of a document holding them; the worldspawn is filed and judged like any entity in the map (targetname operations included). Adding one entity twice is outside the explored histories. Pure-Python tree only.',
)

# clauses TLC reports for bookkeeping only: 'tainted' (the state before the call was already broken by an earlier,
# blamed call), 'unexplained' (the call's effect on the entities is neither the modelled one nor none - free by the
# property, the post-state is judged all the same)
NOT_VERDICTS = ('tainted', 'unexplained')

OPS = {'new', 'create_ent', 'add_ent', 'add_ents', 'remove_ent', 'ent_remove', 'set_class', 'set_name', 'update',
       'del_name', 'del_class', 'pop_name', 'pop_class', 'clear', 'copy', 'make_unique', 'iter', 'scan', 'setdefault_name'}


def sig_of(m: dict) -> dict:
    rec = m['rec']
    sig = dict(rec.get('sig', {}))
    sig['clause'] = m['clause']
    sig['expected'] = m['exp']
    sig['record'] = {k: v for k, v in rec.items() if k not in ('sig',)}
    return sig


def _edges(cfg: str, work: core.Work) -> tuple:
    r = run_tlc('VmfIndex', cfg, workers=1, timeout=1500, heap='8g')
    core.require_mc(r, cfg)
    edges = [p for p in r.prints if isinstance(p, dict) and p.get('tag') == 'EDGE']
    if len(edges) < r.distinct - 1 or not edges:
        raise MachineryError(f'{cfg}: {len(edges)} edges printed for {r.distinct} distinct states')
    ef = work.path(cfg + '.json')
    ef.write_text(json.dumps(edges))
    return edges, ef, r


def run(tier: str, seed: int) -> int:
    t0 = time.time()
    work = core.Work()
    thorough = tier == 'thorough'
    try:
        cov = {'states': 0, 'transitions': 0, 'models': {}}
        # 1. the design: exhaustive model checking
        for cfg in (('VmfIndex_mcq.cfg', 'VmfIndex_mc.cfg') if thorough else ('VmfIndex_mcq.cfg',)):
            r = run_tlc('VmfIndex', cfg, timeout=1500)
            core.require_mc(r, cfg)
            cov['models'][cfg] = {'generated': r.generated, 'distinct': r.distinct, 'depth': r.depth}
            cov['states'] += r.distinct
            cov['transitions'] += r.generated
        # 2. every transition of the bounded model, executed on the real objects
        recs = []
        actions: dict = {}
        env = {'VERIF_SEED': seed, 'VERIF_TIER': tier}
        edge_total = 0
        cfgs = ('VmfIndex_edgesq.cfg', 'VmfIndex_edges.cfg') if thorough else ('VmfIndex_edgesq.cfg',)
        for cfg in cfgs:
            edges, ef, r = _edges(cfg, work)
            for e in edges:
                op = e['a']['op']
                actions[op] = actions.get(op, 0) + 1
            edge_total += len(edges)
            nparts = 8 if thorough else 4
            outs = [work.path(f'{cfg}.{p}.ndjson') for p in range(nparts)]

            def one(p, ef=ef, outs=outs, nparts=nparts):
                return json.loads(core.run_driver('c07_driver.py', ['edges', ef, outs[p], p, nparts], env=env)
                                  .strip().splitlines()[-1])
            with cf.ThreadPoolExecutor(max_workers=nparts) as ex:
                stats = list(ex.map(one, range(nparts)))
            done = sum(s.get('edges_replayed', 0) for s in stats)
            if done != len(edges):
                raise MachineryError(f'{cfg}: {done} edges executed, TLC enumerated {len(edges)}')
            cov['edges_replayed'] = cov.get('edges_replayed', 0) + done
            merged = work.path(f'{cfg}.ndjson')
            with open(merged, 'w', encoding='utf-8') as f:
                for o in outs:
                    f.write(o.read_text(encoding='utf-8'))
            recs.append(('edge', merged))
            if cfg == cfgs[0]:
                out = work.path('paths.ndjson')
                st = json.loads(core.run_driver('c07_driver.py', ['paths', ef, out], env=env).strip().splitlines()[-1])
                if st.get('paths_replayed', 0) != r.distinct - 1:
                    raise MachineryError(f'paths: {st} but the model has {r.distinct} states')
                cov['paths_replayed'] = st['paths_replayed']
                cov['longest_path'] = st.get('max_path')
                recs.append(('path', out))
        if not OPS <= set(actions):
            raise MachineryError(f'vacuous model: actions never taken: {OPS - set(actions)}')
        cov['actions_covered'] = actions
        cov['model_edges'] = edge_total
        # 3. random histories outside the bounds, parsed documents
        out = work.path('random.ndjson')
        st = json.loads(core.run_driver('c07_driver.py', ['random', out], env=env).strip().splitlines()[-1])
        if not st.get('random_steps') or not st.get('parsed'):
            raise MachineryError(f'random driver produced nothing: {st}')
        cov['random_steps'] = st['random_steps']
        cov['parsed_documents'] = st['parsed']
        recs.append(('random', out))
        # 4. TLC validates every record
        allm = []
        total = 0
        tainted: dict = {}
        unexplained: dict = {}
        samples = []
        for kind, p in recs:
            mism, vst = core.validate_records('VmfIndexTrace', 'VmfIndexTrace.cfg', p, work=work, timeout=3000)
            n_t = sum(1 for m in mism if m['clause'] == 'tainted')
            tainted[kind] = tainted.get(kind, 0) + n_t
            n_u = sum(1 for m in mism if m['clause'] == 'unexplained')
            unexplained[kind] = unexplained.get(kind, 0) + n_u
            if n_u * 2 > vst["records"]:
                raise MachineryError(f'{kind}: {n_u} of {vst["records"]} calls did to the entities neither what the model '
                                     f'says nor nothing: the action table of the driver and the model have drifted apart')
            allm += [m for m in mism if m['clause'] not in NOT_VERDICTS]
            total += vst['records']
            cov['states'] += vst['states']
            cov['transitions'] += vst['transitions']
            rs = core.read_ndjson(p)
            mid = rs[len(rs) // 2]
            samples.append({k: mid[k] for k in ('k', 'a', 'exc', 'sig') if k in mid})
            if kind == 'random' and vst['records'] - n_t < vst['records'] // 4:
                raise MachineryError(f'random histories: only {vst["records"] - n_t} of {vst["records"]} records judged')
        cov['traces_validated_against_impl'] = total - sum(tainted.values())
        cov['records_validated'] = total
        cov['records_not_judged_tainted'] = tainted
        cov['calls_with_outcome_outside_model'] = unexplained      # post-state judged all the same
        cov['mismatches'] = len(allm)
        cov['samples'] = samples
        cov['exhaustive'] = True
        cov['rule'] = ('every (state, action) pair of the bounded VmfIndex model (edge configurations, see specs/VmfIndex_edges*.cfg) '
                       'executed on fresh real objects and every model state reached by its shortest TLC path; seeded random '
                       'histories (<= 20 entities, Unicode case folding) and VMF.parse(export) documents')
        known, new = core.classify(PROP, [sig_of(m) for m in allm])
        if tainted.get('edge') and not new and not known:
            raise MachineryError(f'{tainted["edge"]} edge source states were not in order although no call was blamed')
        return core.finish(PROP, tier=tier, seed=seed, t0=t0, coverage=cov, known=known, new=new,
                           assumptions=['pure-Python srctools from /repo/src (Cython accelerators cannot be built here)',
                                        'str.casefold() is what "case-insensitively" means (given to TLC as a table per record)',
                                        'the projection reads vmf.by_class, vmf.by_target, vmf.entities, vmf.spawn and the Entity mapping interface faithfully',
                                        'TLC 1.8 evaluates VmfIndexOps correctly'])
    finally:
        work.cleanup()


def replay(path: str) -> int:
    """Re-execute a replay file's call (source state or history included) on the current tree; TLC judges again."""
    work = core.Work()
    try:
        out = work.path('replay.ndjson')
        core.run_driver('c07_driver.py', ['replay', path, out])
        mism, _ = core.validate_records('VmfIndexTrace', 'VmfIndexTrace.cfg', out, work=work, shards=1)
        known, new = core.classify(PROP, [sig_of(m) for m in mism if m['clause'] not in NOT_VERDICTS])
        for s in new:
            print(f'VIOLATION property={PROP} replay={path} clause={s["clause"]}')
        if not new:
            print(f'OK replay={path}: no violation reproduced ({sum(len(v) for v in known.values())} known)')
        return 1 if new else 0
    finally:
        work.cleanup()
