"""C19 driver: materialises abstract file sets on the four real backends (VirtualFileSystem,
ZipFileSystem in memory, VPKFileSystem from a VPK written by the encoder below, RawFileSystem)
and real FileSystemChains, runs look-ups and walks, and logs what happened.  Modes:
  single <maxrep> <out>           the sequence family SeqFamily(maxrep) of specs/FsSem x backends x concretisations
  edges <edges.json> <out> [nproc part]   every add_sys transition of specs/FsSem replayed on a real chain
  random <out>                    seeded random file sets / chains beyond the model's bounds
  replay <replay.json> <out>      re-execute the record stored in a replay file
The driver only executes and serialises; every verdict is TLC's (specs/FsSemTrace.tla).
"""
from __future__ import annotations

import io
import itertools
import json
import os
import random
import re
import warnings
import shutil
import struct
import sys
import tempfile
import zipfile
import zlib

from vlib import hlib
from vlib.c19sig import split_both

hlib.require_repo_src()
from srctools.filesys import (  # noqa: E402
    FileSystem, FileSystemChain, RawFileSystem, VirtualFileSystem, VPKFileSystem, ZipFileSystem,
)

BS = '\\'
NAMES_MC = [['a', 'x'], ['a', 'X'], ['ab', 'x'], ['a', 'b', 'x'], ['x'], ['A', 'x']]
BACKENDS = ['virtual', 'zip', 'vpk', 'raw']
# Concretisations of the model's symbols.  Each keeps what the model relies on: a/A, x/X, ab/AB, b/B
# are case-fold equivalent pairs with different spellings, 'ab' extends the text of 'a', everything
# else is distinct.  In 1 and 2 the case folding is not str.lower(): 'ß' folds to 'ss' (two
# characters), the ligature to 'fi', a capital final sigma lower-cases to another letter than it
# folds to.  VPK names are ASCII by format, so the VPK backend takes part in concretisation 0 only.
SYMBOLS = ['a', 'A', 'ab', 'AB', 'b', 'B', 'x', 'X', 'zz']
CONC = [
    {c: c for c in SYMBOLS},
    {'a': 'straße', 'A': 'STRASSE', 'ab': 'straßeb', 'AB': 'STRASSEB', 'b': 'b', 'B': 'B', 'x': 'ﬁx', 'X': 'FIX', 'zz': 'zz'},
    {'a': 'ΟΔΟΣ', 'A': 'οδος', 'ab': 'ΟΔΟΣb', 'AB': 'οδοςB', 'b': 'ſ', 'B': 'S', 'x': 'x', 'X': 'X', 'zz': 'zz'},
]


def cz(cm: dict, comps: list) -> list:
    return [cm[c] for c in comps]


def cz_toks(cm: dict, toks: list) -> list:
    return [[s_, cm[c]] for s_, c in toks]


def conc_field(ci: int) -> list:
    return [[k, v] for k, v in CONC[ci].items()] if ci else []


# ------------------------------------------------------------------ the harness's own VPK encoder
def encode_vpk(files: list, footer: bool = False, sep: str = '/') -> bytes:
    """VPK version 1 directory file, written from the format description: a tree
    extension -> folder -> file name of NUL-terminated strings (' ' stands for an empty
    string, an empty string ends a level), each file followed by
    <crc32 u32, preload length u16, archive index u16, offset u32, length u32, 0xffff> and its
    preload bytes.  Archive index 0x7fff = data stored after the tree of this very file."""
    tree: dict = {}
    for comps, data in files:
        folder = sep.join(comps[:-1])
        base = comps[-1]
        name, ext = base.rsplit('.', 1) if '.' in base else (base, '')
        tree.setdefault(ext, {}).setdefault(folder, []).append((name, data))

    def nstr(s: str) -> bytes:
        return (s.encode('ascii') if s else b' ') + b'\x00'
    body = bytearray()
    tail = bytearray()
    for ext, folders in tree.items():
        body += nstr(ext)
        for folder, entries in folders.items():
            body += nstr(folder)
            for name, data in entries:
                body += nstr(name)
                if footer:
                    body += struct.pack('<IHHIIH', zlib.crc32(data), 0, 0x7fff, len(tail), len(data), 0xffff)
                    tail += data
                else:
                    body += struct.pack('<IHHIIH', zlib.crc32(data), len(data), 0x7fff, 0, 0, 0xffff) + data
            body += b'\x00'
        body += b'\x00'
    body += b'\x00'
    return struct.pack('<III', 0x55aa1234, 1, len(body)) + bytes(body) + bytes(tail)


# ------------------------------------------------------------------ backends
VARIANTS = {'virtual': ['plain', 'alt', 'bs'], 'zip': ['plain', 'alt', 'bs'], 'vpk': ['plain', 'alt', 'bs'], 'raw': ['plain']}


def norm_variant(v) -> str:
    return v if isinstance(v, str) else ('alt' if v else 'plain')      # (older replay files hold a boolean)


class Factory:
    def __init__(self) -> None:
        self.dir = tempfile.mkdtemp(prefix='vc19_', dir='/tmp')
        self.n = 0
        self.cache: dict = {}

    def build(self, backend: str, files: list, variant='plain'):
        """files: [(comps, cid)] in storing order (names may repeat or differ only in case) -> a real
        filesystem object holding them, and the positions of `files` in the container's own order.
        variant: 'plain'; 'alt' = the other layout of the fixture (VPK: data after the tree instead of
        preload; zip: explicit directory entries; virtual: text instead of bytes values); 'bs' = names
        stored with backslashes between components (not for the directory backend)."""
        variant = norm_variant(variant)
        key = (backend, variant, json.dumps(files))
        if key in self.cache:
            return self.cache[key]
        self.n += 1
        sep = BS if variant == 'bs' and backend != 'raw' else '/'
        named = [(sep.join(c), tagged(cid)) for c, cid in files]
        order = list(range(len(files)))
        # A mapping, a directory and the VPK tree hold one entry per exact name: storing a name again
        # replaces the content and keeps the place (what the container then holds, in its own order,
        # is what the record reports).  A zip keeps every entry.
        if backend in ('virtual', 'raw'):
            slot: dict = {}
            for i, (n, _) in enumerate(named):
                slot[n] = i
            order = list(slot.values())
        if backend == 'virtual':
            fs = VirtualFileSystem({n: (d.decode('utf-8') if variant == 'alt' else d) for n, d in named})
        elif backend == 'zip':
            buf = io.BytesIO()
            with warnings.catch_warnings():
                warnings.simplefilter('ignore')      # "Duplicate name": that is the point
                with zipfile.ZipFile(buf, 'w') as zf:
                    if variant == 'alt':
                        for folder in sorted({'/'.join(c[:k]) + '/' for c, _ in files for k in range(1, len(c))}):
                            zf.writestr(folder, b'')
                    for name, data in named:
                        zf.writestr(name, data)
            fs = ZipFileSystem('<mem>', zipfile=zipfile.ZipFile(io.BytesIO(buf.getvalue())))
        elif backend == 'vpk':
            # the container's own order is the order of its tree: extension, then folder, then file
            groups: dict = {}
            for i, (c, _) in enumerate(files):
                base = c[-1]
                ext = base.rsplit('.', 1)[1] if '.' in base else ''
                groups.setdefault(ext, {}).setdefault(sep.join(c[:-1]), {})[base] = i
            order = [i for folders in groups.values() for names in folders.values() for i in names.values()]
            path = os.path.join(self.dir, f'p{self.n}.vpk')
            with open(path, 'wb') as f:
                f.write(encode_vpk([(files[i][0], tagged(files[i][1])) for i in order], variant == 'alt', sep))
            fs = VPKFileSystem(path)
        elif backend == 'raw':
            root = os.path.join(self.dir, f'r{self.n}')
            os.makedirs(root)
            for name, data in named:
                p = os.path.join(root, name)
                os.makedirs(os.path.dirname(p), exist_ok=True)
                with open(p, 'wb') as f:
                    f.write(data)
            fs = RawFileSystem(root)
        else:
            raise ValueError(backend)
        self.cache[key] = (fs, order)
        return fs, order

    def cleanup(self) -> None:
        shutil.rmtree(self.dir, ignore_errors=True)


def unambiguous(files: list) -> bool:
    """No two stored names (or their folders) differ only in case: usable on the directory backend."""
    seen: dict = {}
    for comps, _ in files:
        for k in range(1, len(comps) + 1):
            key = tuple(c.casefold() for c in comps[:k])
            if seen.setdefault(key, tuple(comps[:k])) != tuple(comps[:k]):
                return False
    return True


# ------------------------------------------------------------------ observation helpers
def exc_name(fn):
    try:
        return fn(), ''
    except Exception as exc:
        return None, type(exc).__name__


def tagged(cid: str) -> bytes:
    """File content: one KV1 keyvalue carrying the content id, so that every reader - bytes, text,
    read_kv1 - can say which file it got."""
    assert '"' not in cid and BS not in cid, cid
    return f'"tag" "{cid}"\n'.encode('utf-8')


_TAG = re.compile(r'"tag" "([^"]*)"\s*')


def untag(text) -> str:
    if isinstance(text, (bytes, bytearray, memoryview)):
        text = bytes(text).decode('utf-8', 'replace')
    m = _TAG.fullmatch(text)
    return m.group(1) if m else '?' + text[:40]


def read_bin(f) -> str:
    with f:
        return untag(f.read())


def kv_tag(kv) -> str:
    vals = [c.value for c in kv if c.name == 'tag' and not c.has_children()]
    return vals[0] if len(vals) == 1 else '?kv' + repr(vals)[:40]


# Every public way of getting content.  NAME_PROBES take a name, HANDLE_PROBES a File handle (from a
# look-up, a walk, a repeating walk or iteration).  'cache_key' returns no content: it is only
# required not to fail for a handle of an existing file (its value is not part of the property).
NAME_PROBES = [
    ('fs[n].open_bin()', lambda fs, n: read_bin(fs[n].open_bin())),
    ('fs[n].open_str()', lambda fs, n: read_bin(fs[n].open_str())),
    ('fs.open_bin(n)', lambda fs, n: read_bin(fs.open_bin(n))),
    ('fs.open_str(n)', lambda fs, n: read_bin(fs.open_str(n))),
    ('fs.read_kv1(n)', lambda fs, n: kv_tag(fs.read_kv1(n))),
    ('fs.read_prop(n)', lambda fs, n: kv_tag(fs.read_prop(n))),
]
HANDLE_PROBES = [
    ('File.open_bin()', lambda fs, f: read_bin(f.open_bin())),
    ('File.open_str()', lambda fs, f: read_bin(f.open_str())),
    ('fs.open_bin(File)', lambda fs, f: read_bin(fs.open_bin(f))),
    ('fs.open_str(File)', lambda fs, f: read_bin(fs.open_str(f))),
    ('fs.read_kv1(File)', lambda fs, f: kv_tag(fs.read_kv1(f))),
    ('fs.read_prop(File)', lambda fs, f: kv_tag(fs.read_prop(f))),
    ('File.cache_key()', lambda fs, f: (f.cache_key(), read_bin(f.open_bin()))[1]),
]
# public callables of the filesystem classes and of File, and the probe (or record field) that covers
# each; one that takes a name / file / folder and is not listed here is a machinery failure
COVERED = {
    'open_bin': 'NAME_PROBES/HANDLE_PROBES', 'open_str': 'NAME_PROBES/HANDLE_PROBES', 'read_kv1': 'NAME_PROBES/HANDLE_PROBES',
    'read_prop': 'NAME_PROBES/HANDLE_PROBES', 'walk_folder': 'walks', 'walk_folder_repeat': 'walks[].rep',
    'get_system': 'lookups[].owner', 'cache_key': 'HANDLE_PROBES', 'add_sys': 'act',
}
NO_NAME_ARG = {'open_ref', 'close_ref'}


def require_probe_coverage() -> None:
    import inspect
    from srctools.filesys import File
    for cls in (FileSystem, FileSystemChain, RawFileSystem, VirtualFileSystem, VPKFileSystem, ZipFileSystem, File):
        for name in dir(cls):
            attr = getattr(cls, name)
            if name.startswith('_') or not callable(attr) or name in COVERED or name in NO_NAME_ARG:
                continue
            try:
                params = list(inspect.signature(attr).parameters)
            except (TypeError, ValueError):
                params = ['?']
            if any(p in ('name', 'path', 'file', 'folder', 'item', 'filename', '?') for p in params):
                sys.stderr.write(f'MACHINERY: public method {cls.__name__}.{name}({", ".join(params)}) has no probe\n')
                sys.exit(2)


def run_probes(probes, fs, arg) -> tuple:
    """-> (contents, exception type names); collapsed to one entry when all probes agree."""
    pc, pe = [], []
    with warnings.catch_warnings():
        warnings.simplefilter('ignore')
        for _, fn in probes:
            c, e = exc_name(lambda: fn(fs, arg))
            pc.append(c or '')
            pe.append(e)
    if len(set(zip(pc, pe))) == 1:
        return pc[:1], pe[:1]
    return pc, pe


def tok_str(toks: list) -> str:
    return ''.join(s + c for s, c in toks)


def do_lookup(fs, toks: list) -> dict:
    name = tok_str(toks)
    has, hase = exc_name(lambda: name in fs)
    pc, pe = run_probes(NAME_PROBES, fs, name)
    f, fe = exc_name(lambda: fs[name])
    hc, he = run_probes(HANDLE_PROBES, fs, f) if f is not None else ([], [])
    return {'toks': toks, 'has': bool(has), 'hase': hase, 'pc': pc, 'pe': pe, 'hc': hc, 'he': he}


def item_of(fs, f) -> dict:
    """One walked handle: its name, what every way of reading through the handle yields, and what a
    look-up of the listed name yields."""
    hc, he = run_probes(HANDLE_PROBES, fs, f)
    lk, le = exc_name(lambda: read_bin(fs[f.path].open_bin()))
    return {'n': f.path.replace(BS, '/').split('/'), 'c': hc[0], 'ce': he[0], 'hc': hc, 'he': he, 'l': lk or '', 'le': le}


def do_walk(fs, toks: list, via_iter: bool = False) -> dict:
    arg = tok_str(toks)
    items = []
    try:
        for f in (iter(fs) if via_iter else fs.walk_folder(arg)):
            items.append(item_of(fs, f))
        e = ''
    except Exception as exc:
        e = type(exc).__name__
    return {'toks': toks, 'e': e, 'items': items}


def fold_table(*comp_lists) -> list:
    comps = sorted({c for cl in comp_lists for c in cl})
    return [[c, c.casefold()] for c in comps if c.casefold() != c]


def all_comps(files: list, queries: list) -> list:
    out = [c for comps, _ in files for c in comps]
    out += [c for toks in queries for _, c in toks]
    return out


# ------------------------------------------------------------------ query families
def spellings(comps: list) -> list:
    """Case variants x separator patterns of one name, as token lists."""
    cases = [list(comps), [c.lower() for c in comps], [c.upper() for c in comps], [c.swapcase() for c in comps]]
    out, seen = [], set()
    for cs in cases:
        n = len(cs)
        seps = [['/'] * (n - 1), [BS] * (n - 1), [('/' if i % 2 else BS) for i in range(n - 1)]]
        for sp in seps:
            toks = [['' if i == 0 else sp[i - 1], c] for i, c in enumerate(cs)]
            k = json.dumps(toks)
            if k not in seen:
                seen.add(k)
                out.append(toks)
    return out


SINGLE_LOOKUP_NAMES = NAMES_MC + [['b', 'x'], ['a'], ['a', 'b'], ['ab'], ['a', 'x', 'x'], ['zz']]
SINGLE_FOLDERS = [[], ['a'], ['A'], ['ab'], ['AB'], ['a', 'b'], ['A', 'B'], ['b'], ['x'], ['X'], ['a', 'x'], ['zz']]


def fs_record(fac: Factory, backend: str, files: list, lookups: list, folders: list, src: str, footer='plain') -> dict:
    footer = norm_variant(footer)
    fs, order = fac.build(backend, files, footer)
    files = [files[i] for i in order]
    lks = []
    for toks in lookups:
        r = do_lookup(fs, toks)
        lks.append(r)
    wks = []
    for toks in folders:
        r = do_walk(fs, toks)
        wks.append(r)
        if not toks:      # iteration is defined as the walk of the empty folder
            wks.append(do_walk(fs, toks, via_iter=True))
    return {'k': 'fs', 'src': src, 'backend': backend, 'files': [[c, cid] for c, cid in files],
            'fold': fold_table(all_comps(files, lookups + folders), [c for w in wks for it in w['items'] for c in it['n']]),
            'lookups': lks, 'walks': wks, 'footer': footer, 'variant': footer, 'order': order, 'ci': 0, 'conc': [], 'afiles': [],
            'sig': {'kind': 'fs', 'backend': backend, 'src': src}}


def folder_toks(folder: list) -> list:
    out = [[['' if i == 0 else '/', c] for i, c in enumerate(folder)]]
    if len(folder) > 1:
        out.append([['' if i == 0 else BS, c] for i, c in enumerate(folder)])
    return out


def seq_family(maxrep: int) -> list:
    """specs/FsSem.tla SeqFamily(R): containers as sequences of up to 3 of the model's names, grouped by
    folded name (groups in a fixed order), every order within a group, repeats up to length R."""
    key = lambda n: tuple(AbsFoldPy.get(c, c) for c in n)
    rank = lambda n: min(i for i, x in enumerate(NAMES_MC) if key(x) == key(n))
    out = []
    for ln in range(4):
        for q in itertools.product(NAMES_MC, repeat=ln):
            if all(rank(q[i]) <= rank(q[j]) for i in range(ln) for j in range(i + 1, ln)) \
                    and (len({tuple(n) for n in q}) == ln or ln <= maxrep):
                out.append([list(n) for n in q])
    return out


AbsFoldPy = {'A': 'a', 'X': 'x', 'AB': 'ab', 'B': 'b'}


def single_family(out: hlib.RecWriter, fac: Factory, maxrep: int) -> None:
    seqs = seq_family(maxrep)
    for ci, cm in enumerate(CONC):
        lookups = [t for n in SINGLE_LOOKUP_NAMES for t in spellings(cz(cm, n))]
        folders = [t for f in SINGLE_FOLDERS for t in folder_toks(cz(cm, f))]
        for si, seq in enumerate(seqs):
            files = [(cz(cm, c), f'k1.{i}:' + '/'.join(cz(cm, c))) for i, c in enumerate(seq)]
            for bi, backend in enumerate(BACKENDS):
                if backend == 'vpk' and ci:
                    continue
                variant = VARIANTS[backend][(si + bi + ci) % len(VARIANTS[backend])]
                rec = fs_record(fac, backend, files, lookups, folders, 'exh', variant)
                rec['ci'] = ci
                rec['conc'] = conc_field(ci)
                rec['aseq'] = seq
                rec['afiles'] = [seq[i] for i in rec['order']]
                rec['fold'] = fold_table([c for f in rec['fold'] for c in f[:1]], list(cm.values()),
                                         all_comps(files, lookups + folders),
                                         [c for w in rec['walks'] for it in w['items'] for c in it['n']])
                out.write(rec)


# ------------------------------------------------------------------ chains
class Spy(FileSystem):
    """A chain member that forwards to a real backend and notes what the chain asked of it."""
    def __init__(self, inner, log: list, idx: int) -> None:
        super().__init__(inner.path)
        self.inner, self.log, self.idx = inner, log, idx

    def _get_file(self, name):
        try:
            f = self.inner._get_file(name)
        except Exception as exc:
            self.log.append({'op': 'get', 'm': self.idx, 'arg': name, 'found': False, 'e': type(exc).__name__, 'c': ''})
            raise
        self.log.append({'op': 'get', 'm': self.idx, 'arg': name, 'found': True, 'e': '', 'c': read_bin(f.open_bin())})
        return f

    def walk_folder(self, folder=''):
        items = list(self.inner.walk_folder(folder))
        self.log.append({'op': 'walk', 'm': self.idx, 'arg': folder,
                         'items': [{'n': f.path.replace(BS, '/').split('/'), 'c': read_bin(f.open_bin())} for f in items]})
        return iter(items)

    def open_bin(self, name):
        return self.inner.open_bin(name)

    def open_str(self, name, encoding='utf8'):
        return self.inner.open_str(name, encoding)


def _t(text: str) -> list:
    """'a/b\\x' -> tokens"""
    out, cur, sep = [], '', ''
    for ch in text:
        if ch in '/' + BS:
            out.append([sep, cur])
            cur, sep = '', ch
        else:
            cur += ch
    out.append([sep, cur])
    return out if text else []


CHAIN_LOOKUPS = [_t(x) for x in ('x', 'X', 'a/x', 'A' + BS + 'X', 'ab/x', 'a/b/x', 'a' + BS + 'b' + BS + 'x', 'b/x', 'B/X', 'zz')]
CHAIN_FOLDERS = [_t(x) for x in ('', 'a', 'A', 'ab', 'a/b', 'a' + BS + 'b', 'b', 'x')]


PREFIX_SPELLINGS = ['plain', 'trail', 'dot', 'dbl', 'back']


def spell_prefix(comps: list, how: str) -> str:
    """One text for a prefix given as components.  All of them denote the same sub-folder."""
    if not comps:
        return ''
    if how == 'trail':
        return '/'.join(comps) + '/'
    if how == 'dot':
        return './' + '/'.join(comps)
    if how == 'dbl':      # doubled separator (after the only component when there is one)
        return '//'.join(comps) if len(comps) > 1 else comps[0] + '//'
    if how == 'back':     # the other slash (trailing when there is only one component)
        return BS.join(comps) if len(comps) > 1 else comps[0] + BS
    return '/'.join(comps)


def spelled(m: dict) -> str:
    return m['pfxs'] if 'pfxs' in m else '/'.join(m['pfx'])


def chain_record(fac: Factory, pre: list, act: dict, lookups: list, folders: list, src: str) -> dict:
    """pre: members [{names, pfx, k, backend}] of the chain before; act: the add_sys call
    {names, pfx, pr, k, backend}.  Members' contents are 'k<k>:<name>'."""
    log: list = []

    def member(m):
        files = [(list(n), f'k{m["k"]}.{i}:' + '/'.join(n)) for i, n in enumerate(m['names'])]
        fs, order = fac.build(m['backend'], files, m.get('footer', 'plain'))
        m['order'] = order
        return [files[i] for i in order], fs
    chain = FileSystemChain()
    spies = {}
    mem_files = {}
    for m in pre:
        files, fs = member(m)
        spies[m['k']] = Spy(fs, log, m['k'])
        mem_files[m['k']] = files
        chain.add_sys(spies[m['k']], spelled(m))
    files, fs = member(act)
    spies[act['k']] = Spy(fs, log, act['k'])
    mem_files[act['k']] = files
    chain.add_sys(spies[act['k']], spelled(act), priority=act['pr'])
    order = [s.idx for s, _ in chain.systems]
    by_k = {m['k']: m for m in pre + [act]}
    members = [{'k': k, 'backend': by_k[k]['backend'], 'pfx': list(by_k[k]['pfx']), 'pfxs': spelled(by_k[k]),
                'afiles': [by_k[k]['anames'][i] for i in by_k[k]['order']] if by_k[k].get('anames') else [],
                'apfx': by_k[k].get('apfx', []), 'footer': norm_variant(by_k[k].get('footer', 'plain')),
                'variant': norm_variant(by_k[k].get('footer', 'plain')),
                'files': [[c, cid] for c, cid in mem_files[k]]} for k in order]
    pos = {k: i + 1 for i, k in enumerate(order)}

    def calls(op):
        out = []
        for ent in log:
            if ent['op'] != op:
                continue
            ent = dict(ent)
            k = ent.pop('m')
            ent['m'] = pos[k]
            del ent['op']
            out.append(ent)
        log.clear()
        return out
    lks = []
    for toks in lookups:
        name = tok_str(toks)
        log.clear()
        c, ce = exc_name(lambda: read_bin(chain[name].open_bin()))
        cl = calls('get')
        owner, _ = exc_name(lambda: pos[next(k for k, sp in spies.items() if sp.inner is FileSystemChain.get_system(chain[name]))])
        log.clear()
        has, hase = exc_name(lambda: name in chain)
        pc, pe = run_probes(NAME_PROBES, chain, name)
        f, fe = exc_name(lambda: chain[name])
        hc, he = run_probes(HANDLE_PROBES, chain, f) if f is not None else ([], [])
        log.clear()
        lks.append({'toks': toks, 'has': bool(has), 'hase': hase, 'pc': pc, 'pe': pe, 'hc': hc, 'he': he,
                    'calls': cl, 'owner': owner or 0})
    wks = []
    def one_walk(toks, start):
        log.clear()
        items, e, rep = [], '', []
        try:
            listed = list(start())
            cl = calls('walk')
            for f in listed:
                items.append(item_of(chain, f))
            # the same walk without de-duplication
            log.clear()
            rep = [item_of(chain, f) for f in chain.walk_folder_repeat(tok_str(toks))]
        except Exception as exc:
            e = type(exc).__name__
            cl = calls('walk')
        log.clear()
        return {'toks': toks, 'e': e, 'items': items, 'calls': cl, 'rep': rep}
    for toks in folders:
        wks.append(one_walk(toks, lambda: chain.walk_folder(tok_str(toks))))
        if not toks:
            wks.append(one_walk(toks, lambda: iter(chain)))
    comps = all_comps([f for k in order for f in mem_files[k]], lookups + folders)
    comps += [c for w in wks for it in w['items'] + w['rep'] for c in it['n']]
    comps += [c for m in members for c in m['pfx']]
    comps += [c for q in lks + wks for cl in q['calls'] for c in split_both(cl['arg'])]
    comps += [c for w in wks for cl in w['calls'] for it in cl['items'] for c in it['n']]
    return {'k': 'chain', 'src': src, 'pre': [m['k'] for m in pre],
            'act': {'k': act['k'], 'pr': act['pr'], 'pfx': list(act['pfx'])}, 'order': order,
            'members': members, 'fold': fold_table(comps), 'lookups': lks, 'walks': wks, 'ci': 0, 'conc': [],
            'sig': {'kind': 'chain', 'src': src}}


def pick_backend(rng_key: str, names: list, ascii_only: bool = True) -> str:
    h = zlib.crc32(rng_key.encode())
    order = BACKENDS[h % 4:] + BACKENDS[:h % 4]
    if not ascii_only:
        order = [b for b in order if b != 'vpk']
    files = [(list(n), '') for n in names]
    for b in order:
        if b != 'raw' or unambiguous(files):
            return b
    return 'virtual'


def replay_edges(out: hlib.RecWriter, fac: Factory, edge_file: str, stats: dict, nproc: int = 1, part: int = 0) -> None:
    edges = [e for e in json.load(open(edge_file)) if e.get('tag') == 'EDGE']
    seed = hlib.seed()
    for ei, e in enumerate(edges):
        if ei % nproc != part:
            continue
        a = e['a']
        k_new = len(e['s']) + 1
        def how(k):
            return PREFIX_SPELLINGS[zlib.crc32(f'{seed}:{ei}:{k}:pfx'.encode()) % len(PREFIX_SPELLINGS)]
        ci = (0, 0, 1, 2)[zlib.crc32(f'{seed}:{ei}:conc'.encode()) % 4]
        cm = CONC[ci]

        def member(names, pfx, k):
            h = zlib.crc32(f'{seed}:{ei}:{k}:store'.encode())
            an = sorted(names, reverse=bool(h & 1))      # both storing orders of names that fold alike
            cn = [cz(cm, n) for n in an]
            backend = pick_backend(f'{seed}:{ei}:{k}', cn, ascii_only=(ci == 0))
            return {'names': cn, 'anames': [list(n) for n in an], 'pfx': cz(cm, pfx), 'apfx': list(pfx), 'k': k,
                    'pfxs': spell_prefix(cz(cm, pfx), how(k)), 'backend': backend,
                    'footer': (['plain'] * 2 + VARIANTS[backend])[(h >> 1) % (2 + len(VARIANTS[backend]))]}
        pre = [member(m['names'], m['pfx'], m['k']) for m in e['s']]
        act = dict(member(a['names'], a['pfx'], k_new), pr=a['pr'])
        rec = chain_record(fac, pre, act, [cz_toks(cm, t) for t in CHAIN_LOOKUPS], [cz_toks(cm, t) for t in CHAIN_FOLDERS], 'edge')
        rec['ci'] = ci
        rec['conc'] = conc_field(ci)
        rec['fold'] = fold_table([f[0] for f in rec['fold']], list(cm.values()))
        stats[f'conc{ci}'] = stats.get(f'conc{ci}', 0) + 1
        rec['want'] = [m['k'] for m in e['t']]
        out.write(rec)
        stats['edges_replayed'] = stats.get('edges_replayed', 0) + 1


# ------------------------------------------------------------------ random, beyond the bounds
R_NAMES = [['materials', 'foo', 'bar.vmt'], ['materials', 'foobar', 'baz.vmt'], ['Materials', 'Foo', 'x.vtf'],
           ['materials', 'foo.vmt'], ['MATERIALS', 'FOO', 'BAR.VMT'], ['models', 'props', 'a.mdl'],
           ['models', 'props_c17', 'a.mdl'], ['models', 'a.mdl'], ['sound', 'ui', 'beep.wav'], ['scripts.txt'],
           ['sound', 'ui', 'Beep.wav'], ['Sound', 'UI', 'click.wav'], ['materials', 'foo', 'sub', 'deep', 'n.vmt'],
           ['m', 'noext'], ['cfg', '.hidden'], ['a.b', 'c.d', 'e.f.g']]
R_UNI = [['matériaux', 'Straße.vmt'], ['MATÉRIAUX', 'STRASSE.VMT'], ['ǅ', 'x.txt'],
         ['maps', 'Straße', 'road.vmf'], ['MAPS', 'STRASSE', 'Road.vmf'], ['maps', 'Straßenbahn', 'tram.vmf'],
         ['ΟΔΟΣ', 'a.txt'], ['οδος', 'b.txt'], ['ﬁles', 'ﬂag.txt'], ['FILES', 'c.txt'], ['ſet', 'ſ.txt']]
R_UNI_PREFIXES = [['maps', 'Straße'], ['MAPS', 'STRASSE'], ['ΟΔΟΣ'], ['ﬁles'], ['maps']]
R_PREFIXES = [[], ['materials'], ['materials', 'foo'], ['Materials'], ['models'], ['sound', 'ui'], ['m']]


def random_tier(out: hlib.RecWriter, fac: Factory, rng: random.Random, n_fs: int, n_chain: int) -> None:
    def rand_spelling(comps):
        cs = [rng.choice([c, c.lower(), c.upper(), c.swapcase()]) for c in comps]
        return [['' if i == 0 else rng.choice(['/', '/', BS]), c] for i, c in enumerate(cs)]

    def queries(files, extra_prefixes=()):
        names = [c for c, _ in files] + [rng.choice(R_NAMES) for _ in range(3)]
        lk = [rand_spelling(n) for n in names for _ in range(2)] + [rand_spelling(n) for n in names if rng.random() < 0.3]
        for p in extra_prefixes:
            lk += [rand_spelling(n[len(p):]) for n in names if len(n) > len(p) and [c.casefold() for c in n[:len(p)]] == [c.casefold() for c in p]]
        folders = {json.dumps(n[:k]) for n in names for k in range(0, len(n))}
        folders |= {json.dumps([n[0][:3]]) for n in names}      # a text prefix of a folder name
        fl = [rand_spelling(json.loads(f)) for f in sorted(folders)]
        return lk, fl
    for i in range(n_fs):
        backend = BACKENDS[i % 4]
        pool = R_NAMES + (R_UNI if backend in ('virtual', 'zip', 'raw') else [])
        names = rng.sample(pool, rng.randint(1, 7))
        files = [(list(n), f'k1.{i}:{"/".join(n)}') for i, n in enumerate(names)]
        if backend == 'raw' and not unambiguous(files):
            backend = 'zip'
        lk, fl = queries(files)
        if rng.random() < 0.3 and files:      # one name stored twice, with other content
            c, _ = rng.choice(files)
            files.append((list(c), f'k1.{len(files)}:{"/".join(c)}'))
        out.write(fs_record(fac, backend, files, lk, fl, 'rnd', footer=rng.choice(VARIANTS[backend])))
    for i in range(n_chain):
        n_mem = rng.randint(2, 5)
        mems = []
        for k in range(1, n_mem + 1):
            uni = rng.random() < 0.35
            names = [list(n) for n in rng.sample(R_NAMES + (R_UNI if uni else []), rng.randint(0, 5))]
            b = rng.choice([x for x in BACKENDS if not (uni and x == 'vpk')])
            if b == 'raw' and not unambiguous([(n, '') for n in names]):
                b = rng.choice(['virtual', 'zip'] + ([] if uni else ['vpk']))
            pfx = list(rng.choice(R_PREFIXES + (R_UNI_PREFIXES if uni else [])))
            if pfx and rng.random() < 0.5:      # free-form spelling: './', any separator between, any tail
                pfxs = rng.choice(['', './', '.' + BS]) + pfx[0]
                for c in pfx[1:]:
                    pfxs += rng.choice(['/', '/', '//', BS, '/./']) + c
                pfxs += rng.choice(['', '/', '//', BS, '/.'])
            else:
                pfxs = spell_prefix(pfx, rng.choice(PREFIX_SPELLINGS))
            if names and rng.random() < 0.2:
                names.append(list(rng.choice(names)))      # one name stored twice
            mems.append({'names': names, 'pfx': pfx, 'pfxs': pfxs, 'k': k, 'backend': b,
                         'footer': rng.choice(VARIANTS[b])})
        # build by a random insertion history: the record checks the last add_sys
        pre_order = []
        for m in mems[:-1]:
            if rng.random() < 0.4:
                pre_order.insert(0, m)
            else:
                pre_order.append(m)
        act = dict(mems[-1], pr=rng.random() < 0.5)
        allfiles = [(n, '') for m in mems for n in m['names']]
        lk, fl = queries(allfiles, [m['pfx'] for m in mems])
        out.write(chain_record(fac, pre_order, act, lk, fl, 'rnd'))


def main() -> None:
    require_probe_coverage()
    mode = sys.argv[1]
    stats: dict = {}
    fac = Factory()
    try:
        if mode == 'single':
            out = hlib.RecWriter(sys.argv[3])
            single_family(out, fac, int(sys.argv[2]))
        elif mode == 'edges':
            out = hlib.RecWriter(sys.argv[3])
            replay_edges(out, fac, sys.argv[2], stats, int(sys.argv[4]) if len(sys.argv) > 4 else 1,
                         int(sys.argv[5]) if len(sys.argv) > 5 else 0)
        elif mode == 'random':
            out = hlib.RecWriter(sys.argv[2])
            rng = random.Random(hlib.seed() * 15485863 + 19)
            thorough = hlib.tier() == 'thorough'
            random_tier(out, fac, rng, 1200 if thorough else 160, 1500 if thorough else 150)
        elif mode == 'replay':
            rp = json.load(open(sys.argv[2]))
            rec = rp['record']
            out = hlib.RecWriter(sys.argv[3])
            if rec['k'] == 'fs':
                files = [(c, cid) for c, cid in rec['files']]
                new = fs_record(fac, rec['backend'], files, [q['toks'] for q in rec['lookups']],
                                [w['toks'] for w in rec['walks']], 'replay', rec.get('footer', False))
            else:
                by_k = {m['k']: {'names': [f[0] for f in m['files']], 'pfx': m['pfx'], 'k': m['k'],
                                 'pfxs': m.get('pfxs', '/'.join(m['pfx'])),
                                 'backend': m['backend'], 'footer': m.get('footer', False)} for m in rec['members']}
                pre = [by_k[k] for k in rec['pre']]
                act = dict(by_k[rec['act']['k']], pr=rec['act']['pr'])
                new = chain_record(fac, pre, act, [q['toks'] for q in rec['lookups']],
                                   [w['toks'] for w in rec['walks']], 'replay')
            out.write(new)
        else:
            raise SystemExit(2)
    finally:
        fac.cleanup()
    out.close()
    stats['records'] = out.n
    print(json.dumps(stats))


if __name__ == '__main__':
    main()
