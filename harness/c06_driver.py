"""C06 driver: builds VMF documents through the real srctools API, exports, parses, exports again,
and logs projected documents / token streams for TLC (VmfDocTrace) to judge.  Modes:
  sim <hist.json> <out>      replay TLC-simulated builder histories (symbolic values concretised by seed)
  edges <edges.json> <out>   replay every transition of the bounded entity model (BFS paths)
  random <out>               seeded random documents far outside the model's bounds
  files <out>                every .vmf under <repo>/tests as Parse + ExportParse
  replay <replay.json> <out> re-execute the history stored in a replay file

Python only executes the implementation, projects its state and serialises; every comparison is
made by TLC.  Numbers are logged as exact integer limbs:
  fixed   [sgn, int part, nano-units]        (coordinates, axes, colours, exact fields)
  sig     [sgn, 9-digit mantissa, exponent]  (rotation, output delay, multiblend)
"""
from __future__ import annotations

import json
import os
import random
import re
import sys
from decimal import ROUND_HALF_EVEN, Decimal

from vlib import hlib

hlib.require_repo_src()
from srctools.keyvalues import Keyvalues  # noqa: E402
from srctools.math import Angle, Vec  # noqa: E402
from srctools.vmf import (  # noqa: E402
    VMF, Camera, Cordon, DispFlag, Entity, EntityGroup, Output, Side, Solid, Strata2DViewport,
    Strata3DViewport, StrataInstanceVisibility, TriangleTag, UVAxis, Vec4, VisGroup,
)

NANO = Decimal(10) ** 9
REPO_ROOT = os.path.dirname(os.path.realpath(os.environ.get('VERIF_SRC', '/repo/src')))
if not os.path.isdir(os.path.join(REPO_ROOT, 'tests')):     # a scratch copy of src only (mutants): the shipped maps
    REPO_ROOT = '/repo'


class Machinery(Exception):
    pass


# ------------------------------------------------------------------ numbers
def enc_m(v) -> list:
    """float -> [sgn, integer part, nano-units] (exact to 1e-9; 1000x finer than the property)."""
    d = Decimal(float(v))
    s = 1 if d < 0 else 0
    n = int((abs(d) * NANO).to_integral_value(ROUND_HALF_EVEN))
    ip, fp = divmod(n, 10 ** 9)
    if ip >= 2 ** 31 - 1:
        raise Machinery(f'number too large for the limb encoding: {v!r}')
    return [s if n else 0, ip, fp]


def dec_m(t) -> float:
    s, i, f = t
    return float((-1 if s else 1) * (Decimal(i) + Decimal(f) / NANO))


def enc_g(v) -> list:
    """float -> [sgn, 9 significant digits, decimal exponent of the first digit]."""
    d = Decimal(float(v))
    if d == 0:
        return [0, 0, 0]
    s = 1 if d < 0 else 0
    d = abs(d)
    e = d.adjusted()
    m = int(d.scaleb(8 - e).to_integral_value(ROUND_HALF_EVEN))
    if m >= 10 ** 9:
        m //= 10
        e += 1
    return [s, m, e]


def dec_g(t) -> float:
    s, m, e = t
    return float((-1 if s else 1) * Decimal(m).scaleb(e - 8))


def safe_m(t) -> bool:
    """not within 2 nano-units of a 6-decimal rounding boundary"""
    return abs(t[2] % 1000 - 500) >= 2


def safe_g(t) -> bool:
    return abs(t[1] % 1000 - 500) >= 2


def V3(v) -> list:
    return [enc_m(v.x), enc_m(v.y), enc_m(v.z)]


def vec_of(t) -> Vec:
    return Vec(dec_m(t[0]), dec_m(t[1]), dec_m(t[2]))


# ------------------------------------------------------------------ projection
def p_vert(vt) -> dict:
    mb, ma = vt.multi_blend, vt.multi_alpha
    return {
        'n': V3(vt.normal), 'd': enc_m(vt.distance), 'o': V3(vt.offset), 'on': V3(vt.offset_norm),
        'a': enc_m(vt.alpha), 'ta': vt.triangle_a.value, 'tb': vt.triangle_b.value,
        'mb': [enc_g(c) for c in (mb.x, mb.y, mb.z, mb.w)],
        'ma': [enc_g(c) for c in (ma.x, ma.y, ma.z, ma.w)],
        'mc': [] if vt.multi_colors is None else [V3(c) for c in vt.multi_colors],
    }


def p_axis(ax) -> list:
    return [enc_m(ax.x), enc_m(ax.y), enc_m(ax.z), enc_m(ax.offset), enc_m(ax.scale)]


def p_side(s) -> dict:
    out = {
        'id': s.id, 'plane': [V3(p) for p in s.planes], 'mat': s.mat, 'u': p_axis(s.uaxis), 'v': p_axis(s.vaxis),
        'rot': enc_g(s.ham_rot), 'lightmap': s.lightmap, 'smooth': s.smooth,
        'points': {'has': s.strata_points is not None, 'p': [V3(p) for p in (s.strata_points or [])]},
    }
    if s.disp_power > 0:
        out['disp'] = {
            'power': s.disp_power, 'pos': V3(s.disp_pos), 'elev': enc_m(s.disp_elevation),
            'flags': (s.disp_flags & DispFlag.COLL_ALL).value, 'subdiv': DispFlag.SUBDIV in s.disp_flags,
            'allowed': list(s.disp_allowed_vert), 'verts': [p_vert(v) for v in s._disp_verts],
        }
    else:
        out['disp'] = {'power': 0}
    return out


def p_solid(s) -> dict:
    return {
        'id': s.id, 'sides': [p_side(f) for f in s.sides], 'vis': sorted(s.visgroup_ids), 'hidden': bool(s.hidden),
        'group': -1 if s.group_id is None else s.group_id, 'visShown': bool(s.vis_shown),
        'visAuto': bool(s.vis_auto_shown), 'cordon': bool(s.is_cordon), 'color': V3(s.editor_color),
    }


def p_out(o) -> dict:
    return {'name': o.output, 'io': o.inst_out or '', 'target': o.target, 'inp': o.input, 'ii': o.inst_in or '',
            'params': o.params, 'delay': enc_g(o.delay), 'times': o.times, 'comma': bool(o.comma_sep)}


# A keyvalue named "replace" + two or more decimal digits (any case) cannot be told from an instance fixup in
# the file: the writer itself names fixups replace%02d (replace100 for the 100th).  The projection states what
# fixup such a keyvalue denotes; Keep moves it to the fixups.  "replace" + ONE digit, "replace", "replace0x",
# "replacement01" ... are ordinary keyvalues and must survive.
_AMB = re.compile(r'replace(\d\d{1,3})\Z')


def fx_of(fold: str, value: str) -> dict:
    m = _AMB.match(fold)
    if not m:
        return {}
    parts = value.split(' ', 1)
    var = parts[0].lstrip('$')
    return {'idx': int(m.group(1)), 'var': var, 'val': parts[1] if len(parts) > 1 else '', 'f': var.casefold()}


def p_ent(e) -> dict:
    fix = {}
    if e._fixup is not None:
        fix = {f: {'var': fv.var, 'val': fv.value, 'idx': fv.id} for f, fv in e._fixup._fixup.items()}
    return {
        'id': e.id, 'keys': {k.casefold(): {'k': k, 'v': v, 'fx': fx_of(k.casefold(), v)} for k, v in e._keys.items()}, 'fix': fix,
        'outs': [p_out(o) for o in e.outputs], 'solids': [p_solid(s) for s in e.solids], 'hidden': bool(e.hidden),
        'groups': sorted(e.groups), 'vis': sorted(e.visgroup_ids), 'visShown': bool(e.vis_shown),
        'visAuto': bool(e.vis_auto_shown), 'color': V3(e.editor_color), 'logical': e.logical_pos,
        'comments': e.comments,
    }


def p_vis(v) -> dict:
    return {'id': v.id, 'name': v.name, 'color': V3(v.color), 'kids': [p_vis(c) for c in v.child_groups]}


def p_view(v) -> dict:
    if isinstance(v, Strata2DViewport):
        return {'k': '2d', 'axis': v.axis, 'n': [enc_m(v.u), enc_m(v.v), enc_m(v.zoom)]}
    return {'k': '3d', 'axis': '', 'n': V3(v.position) + [enc_m(v.angle.pitch), enc_m(v.angle.yaw), enc_m(v.angle.roll)]}


def project(vmf: VMF) -> dict:
    return {
        'set': {
            'prefab': bool(vmf.is_prefab), 'mapVer': vmf.map_ver, 'formatVer': vmf.format_ver,
            'hammerVer': vmf.hammer_ver, 'hammerBuild': vmf.hammer_build, 'snap': bool(vmf.snap_grid),
            'showGrid': bool(vmf.show_grid), 'showLogic': bool(vmf.show_logic_grid), 'show3d': bool(vmf.show_3d_grid),
            'grid': vmf.grid_spacing, 'activeCam': vmf.active_cam, 'cordonOn': bool(vmf.cordon_enabled),
            'quickhide': vmf.quickhide_count,
            'instVis': -1 if vmf.strata_instance_vis is None else vmf.strata_instance_vis.value,
            'views': [p_view(v) for v in (vmf.strata_viewports or [])],
        },
        'vis': [p_vis(v) for v in vmf.vis_tree],
        'groups': [{'id': g.id, 'shown': bool(g.shown), 'auto': bool(g.auto_shown), 'color': V3(g.color)}
                   for g in vmf.groups.values()],
        'cams': [{'pos': V3(c.pos), 'look': V3(c.target)} for c in vmf.cameras],
        'cordons': [{'name': c.name, 'active': bool(c.active), 'mins': V3(c.bounds_min), 'maxs': V3(c.bounds_max)}
                    for c in vmf.cordons],
        'world': p_ent(vmf.spawn),
        'ents': [p_ent(e) for e in vmf.entities],
    }


# ------------------------------------------------------------------ independent tokeniser of the exported text
_ESC = {'n': '\n', 't': '\t', 'v': '\v', 'b': '\b', 'r': '\r', 'f': '\f', 'a': '\a', '"': '"', "'": "'",
        '/': '/', '\\': '\\', '?': '?'}
_INT = re.compile(r'-?\d+\Z')
_ID_KEY = {'world': 'ent', 'entity': 'ent', 'solid': 'solid', 'side': 'side', 'group': 'group'}


def lex(text: str) -> list:
    toks = []
    i, n = 0, len(text)
    while i < n:
        c = text[i]
        if c in ' \t\r\n':
            i += 1
        elif c in '{}':
            toks.append((c, c))
            i += 1
        elif c == '"':
            i += 1
            buf = []
            while True:
                if i >= n:
                    raise ValueError('unterminated string')
                c = text[i]
                if c == '"':
                    i += 1
                    break
                if c == '\\' and i + 1 < n:
                    buf.append(_ESC.get(text[i + 1], '\\' + text[i + 1]))
                    i += 2
                    continue
                buf.append(c)
                i += 1
            toks.append(('S', ''.join(buf)))
        else:
            j = i
            while j < n and text[j] not in ' \t\r\n{}"':
                j += 1
            toks.append(('S', text[i:j]))
            i = j
    return toks


def tokens(text: str) -> list:
    """Exported text -> [{d, t, k, v, ik, n}]: blocks, keyvalues, and which keyvalues are object IDs
    (ik = kind, n = the ID; v is blanked) so that TLC can apply the ID renumbering."""
    toks = lex(text)
    out = []
    stack: list = []

    def path() -> str:
        # block path without the "hidden" wrappers, so clause names stay in a finite list
        return ''.join('/' + b for b in stack if b != 'hidden')

    def label(key: str, is_id: bool = False) -> str:
        # clause label of a token: path/key, with row numbers and user-chosen key names abstracted
        top = stack[-1] if stack else ''
        if re.match(r'row\d+\Z', key):
            key = 'row'
        elif top in ('world', 'entity') and not is_id:
            key = '<key>'      # ordinary keyvalues and replaceNN fixup lines alike (a plain key may be named "id")
        elif top == 'connections':
            key = '<output>'
        return path() + '/' + key
    i = 0
    while i < len(toks):
        ty, val = toks[i]
        if ty == '}':
            if not stack:
                raise ValueError('unbalanced }')
            stack.pop()
            out.append({'d': len(stack), 't': 'close', 'k': '', 'v': '', 'ik': '', 'n': 0, 'p': path(), 'c': path() + '/}', 'amb': False})
            i += 1
        elif ty == '{':
            raise ValueError('{ without a name')
        else:
            if i + 1 >= len(toks):
                raise ValueError('dangling name')
            ty2, val2 = toks[i + 1]
            if ty2 == '{':
                out.append({'d': len(stack), 't': 'open', 'k': val, 'v': '', 'ik': '', 'n': 0, 'p': path(), 'c': path() + '/' + val, 'amb': False})
                stack.append(val.casefold())
                i += 2
            elif ty2 == 'S':
                top = stack[-1] if stack else ''
                kind = ''
                if _INT.match(val2) and abs(int(val2)) < 2 ** 31 - 1:
                    if val == 'id':
                        kind = _ID_KEY.get(top, '')
                    elif val == 'visgroupid' and top in ('visgroup', 'editor'):
                        kind = 'vis'
                    elif val == 'groupid' and top == 'editor':
                        kind = 'group'
                if kind:
                    out.append({'d': len(stack), 't': 'kv', 'k': val, 'v': '', 'ik': kind, 'n': int(val2), 'p': path(), 'c': label(val, True), 'amb': False})
                else:
                    out.append({'d': len(stack), 't': 'kv', 'k': val, 'v': val2, 'ik': '', 'n': 0, 'p': path(), 'c': label(val),
                                'amb': top in ('world', 'entity') and bool(_AMB.match(val.casefold()))})
                    if out[-1]['amb']:
                        out[-1]['kf'] = val.casefold()     # fixup lines have no spelling of their own
                i += 2
            else:
                raise ValueError('name followed by }')
    if stack:
        raise ValueError('unclosed block')
    return out


def memberships(text: str) -> dict:
    """What a file says about group / visgroup membership and group flags, read off its tokens:
    pairs [object ID, referenced ID] per category (for the parse records of hand-written / shipped files)."""
    toks = lex(text)
    out = {'wsolid_group': [], 'wsolid_vis': [], 'esolid_group': [], 'esolid_vis': [], 'ent_group': [], 'ent_vis': [],
           'group_auto': [], 'group_shown': []}
    stack: list = []      # [name, object id]
    i = 0
    while i < len(toks):
        ty, val = toks[i]
        if ty == '}':
            stack.pop()
            i += 1
        elif i + 1 < len(toks) and toks[i + 1][0] == '{':
            stack.append([val.casefold(), 0])
            i += 2
        else:
            key, v = val, toks[i + 1][1]
            names = [b[0] for b in stack if b[0] != 'hidden']
            if key == 'id' and stack and _INT.match(v):
                stack[-1][1] = int(v)
            elif names[-1:] == ['editor'] and len(names) >= 2 and _INT.match(v):
                owner = [b for b in stack if b[0] != 'hidden'][-2]
                inworld = names[0] == 'world'
                if owner[0] == 'solid' and key in ('groupid', 'visgroupid'):
                    out[('w' if inworld else 'e') + 'solid_' + ('group' if key == 'groupid' else 'vis')].append([owner[1], int(v)])
                elif owner[0] == 'entity' and key in ('groupid', 'visgroupid'):
                    out['ent_' + ('group' if key == 'groupid' else 'vis')].append([owner[1], int(v)])
                elif owner[0] == 'group' and key in ('visgroupautoshown', 'visgroupshown'):
                    out['group_auto' if key == 'visgroupautoshown' else 'group_shown'].append([owner[1], int(v)])
            i += 2
    return {k: sorted(v) for k, v in out.items()}


# A map the way Hammer writes it (structure as documented for the format: group / visgroup membership as
# "groupid" / "visgroupid" in the editor blocks of world brushes and entities, group blocks in the world).
HAMMER_TEXT = r'''versioninfo
{
	"editorversion" "400"
	"editorbuild" "8456"
	"mapversion" "3"
	"formatversion" "100"
	"prefab" "0"
}
visgroups
{
	visgroup
	{
		"name" "Tree_1"
		"visgroupid" "5"
		"color" "65 45 0"
		visgroup
		{
			"name" "Branch_left"
			"visgroupid" "8"
			"color" "234 123 60"
		}
	}
}
viewsettings
{
	"bSnapToGrid" "1"
	"bShowGrid" "1"
	"bShowLogicalGrid" "0"
	"nGridSpacing" "32"
	"bShow3DGrid" "0"
}
world
{
	"id" "1"
	"mapversion" "3"
	"classname" "worldspawn"
	"skyname" "sky_day01_01"
	solid
	{
		"id" "2"
		side
		{
			"id" "1"
			"plane" "(-64 64 64) (64 64 64) (64 -64 64)"
			"material" "BRICK/BRICKFLOOR001A"
			"uaxis" "[1 0 0 0] 0.25"
			"vaxis" "[0 -1 0 0] 0.25"
			"rotation" "0"
			"lightmapscale" "16"
			"smoothing_groups" "0"
		}
		side
		{
			"id" "2"
			"plane" "(-64 -64 -64) (64 -64 -64) (64 64 -64)"
			"material" "BRICK/BRICKFLOOR001A"
			"uaxis" "[1 0 0 0] 0.25"
			"vaxis" "[0 -1 0 0] 0.25"
			"rotation" "0"
			"lightmapscale" "16"
			"smoothing_groups" "0"
		}
		editor
		{
			"color" "0 255 0"
			"groupid" "7"
			"visgroupid" "5"
			"visgroupid" "8"
			"visgroupshown" "1"
			"visgroupautoshown" "1"
		}
	}
	hidden
	{
		solid
		{
			"id" "3"
			side
			{
				"id" "3"
				"plane" "(0 0 0) (1 0 0) (0 1 0)"
				"material" "TOOLS/TOOLSNODRAW"
				"uaxis" "[1 0 0 0] 0.25"
				"vaxis" "[0 -1 0 0] 0.25"
				"rotation" "0"
				"lightmapscale" "16"
				"smoothing_groups" "0"
			}
			editor
			{
				"color" "0 255 0"
				"groupid" "7"
				"visgroupshown" "0"
				"visgroupautoshown" "1"
			}
		}
	}
	group
	{
		"id" "7"
		editor
		{
			"color" "0 255 0"
			"visgroupshown" "1"
			"visgroupautoshown" "0"
		}
	}
	group
	{
		"id" "9"
		editor
		{
			"color" "10 20 30"
			"visgroupshown" "0"
			"visgroupautoshown" "1"
		}
	}
}
entity
{
	"id" "19"
	"classname" "func_detail"
	solid
	{
		"id" "4"
		side
		{
			"id" "4"
			"plane" "(0 0 0) (1 0 0) (0 1 0)"
			"material" "TOOLS/TOOLSNODRAW"
			"uaxis" "[1 0 0 0] 0.25"
			"vaxis" "[0 -1 0 0] 0.25"
			"rotation" "0"
			"lightmapscale" "16"
			"smoothing_groups" "0"
		}
		editor
		{
			"color" "0 180 0"
			"visgroupshown" "1"
			"visgroupautoshown" "1"
		}
	}
	editor
	{
		"color" "0 180 0"
		"groupid" "7"
		"groupid" "9"
		"visgroupid" "5"
		"visgroupshown" "1"
		"visgroupautoshown" "1"
		"logicalpos" "[0 500]"
	}
}
entity
{
	"id" "20"
	"classname" "info_target"
	"origin" "0 0 0"
	editor
	{
		"color" "220 30 220"
		"groupid" "9"
		"visgroupshown" "1"
		"visgroupautoshown" "0"
		"logicalpos" "[0 1000]"
	}
}
cameras
{
	"activecamera" "-1"
}
'''


# ------------------------------------------------------------------ the builder: one public API call per action
class Builder:
    _next_tid = 0

    def __init__(self) -> None:
        self.vmf = VMF()
        self.hist: list = []
        Builder._next_tid += 1
        self.tid = Builder._next_tid
        self.logged = 0

    def ent(self, e: int) -> Entity:
        return self.vmf.spawn if e == 0 else self.vmf.entities[e - 1]

    def vis_at(self, path: list) -> VisGroup:
        node = self.vmf.vis_tree[path[0] - 1]
        for p in path[1:]:
            node = node.child_groups[p - 1]
        return node

    def apply(self, a: dict) -> None:
        vmf = self.vmf
        op = a['op']
        if op == 'SetSetting':
            n, v = a['name'], a['val']
            attr = {'prefab': 'is_prefab', 'mapVer': 'map_ver', 'hammerVer': 'hammer_ver', 'hammerBuild': 'hammer_build',
                    'snap': 'snap_grid', 'showGrid': 'show_grid', 'showLogic': 'show_logic_grid', 'show3d': 'show_3d_grid',
                    'grid': 'grid_spacing', 'activeCam': 'active_cam', 'cordonOn': 'cordon_enabled',
                    'quickhide': 'quickhide_count'}
            if n == 'instVis':
                vmf.strata_instance_vis = None if v < 0 else StrataInstanceVisibility(v)
            else:
                setattr(vmf, attr[n], v)
        elif op == 'SetViews':
            views = []
            for w in a['views']:
                nums = [dec_m(t) for t in w['n']]
                if w['k'] == '2d':
                    views.append(Strata2DViewport(w['axis'], nums[0], nums[1], nums[2]))
                else:
                    views.append(Strata3DViewport(Vec(nums[0], nums[1], nums[2]), Angle(nums[3], nums[4], nums[5])))
            vmf.strata_viewports = views
        elif op == 'AddCamera':
            Camera(vmf, vec_of(a['pos']), vec_of(a['look']))
        elif op == 'CamSetActive':
            vmf.cameras[a['i'] - 1].set_active()
        elif op == 'AddCordon':
            Cordon(vmf, vec_of(a['mins']), vec_of(a['maxs']), a['active'], a['name'])
        elif op == 'AddVisgroup':
            col = vec_of(a['color'])
            if not a['path']:
                vmf.create_visgroup(a['name'], col)
            else:
                self.vis_at(a['path']).child_groups.append(VisGroup(vmf, a['name'], -1, col))
        elif op == 'AddGroup':
            g = EntityGroup(vmf, shown=a['shown'], auto_shown=a['auto'], color=vec_of(a['color']))
            vmf.groups[g.id] = g
        elif op == 'AddEnt':
            vmf.create_ent(a['cls'])
        elif op == 'SetKey':
            self.ent(a['e'])[a['k']] = a['v']
        elif op == 'DelKey':
            del self.ent(a['e'])[a['k']]
        elif op == 'SetFixup':
            self.ent(a['e']).fixup[a['var']] = a['val']
        elif op == 'DelFixup':
            del self.ent(a['e']).fixup[a['var']]
        elif op == 'AddOut':
            o = a['out']
            self.ent(a['e']).add_out(Output(
                o['name'], o['target'], o['inp'], o['params'], dec_g(o['delay']), times=o['times'],
                inst_out=o['io'] or None, inst_in=o['ii'] or None, comma_sep=o['comma']))
        elif op == 'SetEntAttr':
            e, n, v = self.ent(a['e']), a['name'], a['val']
            if n == 'color':
                e.editor_color = vec_of(v)
            else:
                setattr(e, {'hidden': 'hidden', 'visShown': 'vis_shown', 'visAuto': 'vis_auto_shown',
                            'logical': 'logical_pos', 'comments': 'comments'}[n], v)
        elif op == 'EntJoin':
            (self.ent(a['e']).groups if a['what'] == 'group' else self.ent(a['e']).visgroup_ids).add(a['id'])
        elif op == 'EntJoinSeq':
            # several memberships, added one by one in the given order (the sets' iteration order depends on it
            # when the IDs collide in the hash table: k, k+8, k+16, ...)
            tgt = self.ent(a['e']).groups if a['what'] == 'group' else self.ent(a['e']).visgroup_ids
            for x in a['ids']:
                tgt.add(x)
        elif op == 'SolidJoinSeq':
            for x in a['ids']:
                self.ent(a['e']).solids[a['s'] - 1].visgroup_ids.add(x)
        elif op == 'AddPrism':
            pr = vmf.make_prism(vec_of(a['p1']), vec_of(a['p2']), a['mat'], a['points'])
            if a['e'] == 0:
                vmf.add_brush(pr)
            else:
                self.ent(a['e']).solids.append(pr.solid)
        elif op == 'AddSolid':
            s = Solid(vmf)
            if a['e'] == 0:
                vmf.add_brush(s)
            else:
                self.ent(a['e']).solids.append(s)
        elif op == 'AddSide':
            sd = Side(vmf, [vec_of(p) for p in a['plane']], mat=a['mat'], rotation=dec_g(a['rot']),
                      lightmap=a['lightmap'], smoothing=a['smooth'],
                      uaxis=UVAxis(*[dec_m(t) for t in a['u']]), vaxis=UVAxis(*[dec_m(t) for t in a['v']]),
                      disp_power=a['power'])
            self.ent(a['e']).solids[a['s'] - 1].sides.append(sd)
        elif op == 'SetSolidAttr':
            s, n, v = self.ent(a['e']).solids[a['s'] - 1], a['name'], a['val']
            if n == 'color':
                s.editor_color = vec_of(v)
            elif n == 'group':
                s.group_id = None if v < 0 else v
            elif n == 'joinvis':
                s.visgroup_ids.add(v)
            else:
                setattr(s, {'hidden': 'hidden', 'visShown': 'vis_shown', 'visAuto': 'vis_auto_shown',
                            'cordon': 'is_cordon'}[n], v)
        elif op == 'SetSideAttr':
            f, n, v = self.ent(a['e']).solids[a['s'] - 1].sides[a['f'] - 1], a['name'], a['val']
            if n == 'mat':
                f.mat = v
            elif n == 'u':
                f.uaxis = UVAxis(*[dec_m(t) for t in v])
            elif n == 'v':
                f.vaxis = UVAxis(*[dec_m(t) for t in v])
            elif n == 'rot':
                f.ham_rot = dec_g(v)
            elif n == 'lightmap':
                f.lightmap = v
            elif n == 'smooth':
                f.smooth = v
            elif n == 'points':
                f.strata_points = [vec_of(p) for p in v['p']] if v['has'] else None
            elif n == 'plane':
                f.planes = [vec_of(p) for p in v]
            else:
                raise Machinery(n)
        elif op == 'SetDispAttr':
            f, n, v = self.ent(a['e']).solids[a['s'] - 1].sides[a['f'] - 1], a['name'], a['val']
            if n == 'pos':
                f.disp_pos = vec_of(v)
            elif n == 'elev':
                f.disp_elevation = dec_m(v)
            elif n == 'flags':
                f.disp_flags = DispFlag(v) | (f.disp_flags & DispFlag.SUBDIV)
            elif n == 'subdiv':
                f.disp_flags = (f.disp_flags & DispFlag.COLL_ALL) | (DispFlag.SUBDIV if v else DispFlag.COLL_NONE)
            elif n == 'allowed':
                for i, x in enumerate(v):
                    f.disp_allowed_vert[i] = x
            else:
                raise Machinery(n)
        elif op == 'SetVert':
            f = self.ent(a['e']).solids[a['s'] - 1].sides[a['f'] - 1]
            vt = f._disp_verts[a['i'] - 1]
            w = a['vert']
            vt.normal = vec_of(w['n'])
            vt.distance = dec_m(w['d'])
            vt.offset = vec_of(w['o'])
            vt.offset_norm = vec_of(w['on'])
            vt.alpha = dec_m(w['a'])
            vt.triangle_a = TriangleTag(w['ta'])
            vt.triangle_b = TriangleTag(w['tb'])
            vt.multi_blend = Vec4(*[dec_g(t) for t in w['mb']])
            vt.multi_alpha = Vec4(*[dec_g(t) for t in w['ma']])
            vt.multi_colors = [vec_of(c) for c in w['mc']] if w['mc'] else None
        else:
            raise Machinery(f'unknown op {op}')

    def step(self, a: dict, out, sig_src: str, log: bool = True) -> None:
        """apply one action; log (pre, action, post) unless the document is large (displacements of
        power 3-4): the history is stored once, in the ExportParse record with the same tid"""
        pre = project(self.vmf) if log else None
        if log and len(self.hist) > 3 and _size(pre) > 30000:
            log = False
        self.apply(a)
        self.hist.append(a)
        if log:
            out.write({'k': 'step', 'tid': self.tid, 'j': len(self.hist), 'pre': pre, 'a': a, 'post': project(self.vmf),
                       'sig': {'kind': 'step', 'action': a['op'], 'src': sig_src}})
            self.logged += 1


def _size(doc: dict) -> int:
    n = 0
    for e in [doc['world']] + doc['ents']:
        for s in e['solids']:
            for f in s['sides']:
                n += 300 + 600 * len(f['disp'].get('verts', ()))
        n += 400
    return n


# ------------------------------------------------------------------ export -> parse -> export
_TRI_ERR = re.compile(r'Displacement array for triangle_tags')


def err_class(exc: BaseException) -> str:
    msg = re.sub(r'"[^"]*("|$)', '"~"', str(exc), flags=re.S)      # quoted data out of the class name
    msg = msg.split('\n')[0]
    return (type(exc).__name__ + ': ' + re.sub(r'\d+', 'N', msg))[:140]


def patch_triangle_tags(text: str) -> str:
    """What a writer following the format (2^power rows of 2*2^power tags) would have emitted:
    drop the last row and the last pair of every row of each triangle_tags block."""
    lines = text.split('\n')
    out = []
    i = 0
    while i < len(lines):
        if lines[i].strip() == 'triangle_tags':
            j = i + 2
            rows = []
            while lines[j].strip() != '}':
                rows.append(lines[j])
                j += 1
            out += lines[i:i + 2]
            for r in rows[:-1]:
                m = re.match(r'(\s*"row\d+" ")([^"]*)(")', r)
                vals = m.group(2).split()
                out.append(m.group(1) + ' '.join(vals[:-2]) + m.group(3))
            i = j
        else:
            out.append(lines[i])
            i += 1
    return '\n'.join(out)


def doc_flags(doc: dict) -> dict:
    """Abstract parameters of a document used only to keep known-finding signatures narrow."""
    special = re.compile(r'["\\\n\r\t]')
    mats, keyn, tiny = set(), set(), False
    hidden_first = False
    seen_hidden = False
    for e in doc['ents']:
        if e['hidden']:
            seen_hidden = True
        elif seen_hidden:
            hidden_first = True
    n_disp = 0
    for e in [doc['world']] + doc['ents']:
        for kk in e['keys'].values():
            if special.search(kk['k']):
                keyn.add('special')
            if re.match(r'replace.*\d\d\Z', kk['k'], re.S):
                keyn.add('replaceNN')
        for fv in e['fix'].values():
            if special.search(fv['var']):
                keyn.add('fixvar')
        if special.search(e['logical']):
            keyn.add('logical')
        for s in e['solids']:
            for f in s['sides']:
                if special.search(f['mat']):
                    mats.add('special')
                if f['disp']['power']:
                    n_disp += 1
    views = doc['set']['views']
    view_zero = any(w['k'] == '2d' and (w['n'][0][1:] == [0, 0] or w['n'][1][1:] == [0, 0]) for w in views)
    return {'mat_special': bool(mats), 'key_special': sorted(keyn), 'hidden_first': hidden_first,
            'view_zero': view_zero, 'has_disp': n_disp > 0, 'has_views': bool(views)}


def _has_tinyneg(obj) -> bool:
    """any fixed-point number that is negative but rounds to zero at 6 places (exports as '-0')"""
    if isinstance(obj, list):
        if len(obj) == 3 and all(isinstance(x, int) and not isinstance(x, bool) for x in obj):
            return obj[0] == 1 and obj[1] == 0 and obj[2] < 500
        return any(_has_tinyneg(x) for x in obj)
    if isinstance(obj, dict):
        return any(_has_tinyneg(x) for k, x in obj.items() if k not in ('rot', 'delay', 'mb', 'ma'))
    return False


def id_lists(vmf: VMF) -> dict:
    """object IDs per kind in document order (the order of EntsOf / SolidsOf / SidesOf / FlatVis / groups)"""
    ents = [vmf.spawn] + list(vmf.entities)
    solids = [s for e in ents for s in e.solids]
    return {'ent': [e.id for e in ents], 'solid': [s.id for s in solids], 'side': [f.id for s in solids for f in s.sides],
            'vis': [v['id'] for v in _flat_vis(vmf)], 'group': [g.id for g in vmf.groups.values()]}


def export_parse(vmf: VMF, opts: dict, out, src: str, hist, extra_sig: dict | None = None, tid: int = 0) -> dict:
    doc = project(vmf)
    text1 = vmf.export(inc_version=opts['inc'], minimal=opts['minimal'], disp_multiblend=opts['mb'])
    sig = {'kind': 'xp', 'action': 'ExportParse', 'src': src, 'minimal': opts['minimal'], 'mb': opts['mb'],
           'preserve': opts['preserve'], 'patched': '', 'err': ''}
    sig.update(doc_flags(doc))
    sig['tinyneg'] = _has_tinyneg(doc)
    fv = features_of(doc, opts)
    if extra_sig:
        sig.update(extra_sig)
    try:
        toks1 = tokens(text1)
        tokfail = False
    except ValueError:
        toks1, tokfail = [], True
    sig['tokfail'] = tokfail
    stats = {'xp': 0, 'parse_fail': 0, 'patched': 0}

    def attempt(text: str, sig: dict) -> str:
        rec = {'k': 'xp', 'tid': tid, 'c3': {'status': 'none'}, 'raw1': text if tokfail else '', 'raw2': '', 'patched': bool(sig['patched']), 'opts': opts, 'doc': doc, 'toks1': toks1, 'tokfail': tokfail, 'sig': sig, 'fv': fv, 'hist': hist}
        err = ''
        try:
            vmf2 = VMF.parse(Keyvalues.parse(text), preserve_ids=opts['preserve'])
        except Exception as exc:   # noqa: BLE001 - every failure to re-read the writer's own output is logged
            err = err_class(exc)
            rec.update(status='error', doc2={}, toks2=[])
        else:
            doc2 = project(vmf2)   # before the second export (which strips worldspawn's mapversion key again)
            text2 = vmf2.export(inc_version=False, minimal=opts['minimal'], disp_multiblend=opts['mb'])
            try:
                toks2 = tokens(text2)
            except ValueError:
                toks2 = []
                rec.update(tokfail=True, raw1=text)    # compared as raw text instead (if IDs are preserved)
            rec.update(status='ok', doc2=doc2, toks2=toks2)
            if rec['tokfail']:
                rec['raw2'] = text2
            # third cycle: the second text re-read and exported once more must be the second text
            if not sig['patched']:
                c3 = {'status': 'ok', 'idl2': id_lists(vmf2), 'idl3': {}, 'toks3': []}
                try:
                    vmf3 = VMF.parse(Keyvalues.parse(text2), preserve_ids=opts['preserve'])
                    c3['idl3'] = id_lists(vmf3)
                    text3 = vmf3.export(inc_version=False, minimal=opts['minimal'], disp_multiblend=opts['mb'])
                except Exception as exc:   # noqa: BLE001
                    c3['status'] = 'error'
                    sig['err3'] = err_class(exc)
                else:
                    try:
                        c3['toks3'] = tokens(text3)
                    except ValueError:
                        c3['status'] = 'none'      # not readable by the independent tokeniser: nothing to compare
                rec['c3'] = c3
        sig['err'] = err
        out.write(rec)
        stats['xp'] += 1
        return err

    err = attempt(text1, sig)
    if err:
        stats['parse_fail'] += 1
    if err and _TRI_ERR.search(err):
        # Known writer defect (row count of triangle_tags): re-read the text a conforming writer
        # would have produced so that the rest of the displacement data is still checked.
        sig2 = dict(sig, patched='triangle_tags')
        attempt(patch_triangle_tags(text1), sig2)
        stats['patched'] += 1
    return stats


# ------------------------------------------------------------------ value tables
STR_CLASSES = {
    'plain': ['relay_1', 'lights/white', 'a b c', '0', '-12.5 3 4', 'x' * 300],
    'mixed': ['OnTrigger', 'TargetName', 'MiXeD case'],
    'quote': ['say "hi"', '"', 'a"b"c', '\'single\''],
    'bslash': ['C:\\maps\\new', 'tools\\toolsnodraw', 'a\\', '\\', '\\\\n'],
    'lf': ['line1\nline2', '\n', 'tab\there', 'cr\rlf\n'],
    'empty': [''],
    'uni': ['stra\u00dfe', '\u043f\u0440\u0438\u0432\u0435\u0442', '\u65e5\u672c', 'e\u0301', '\U0001f600 ok'],
    'punct': ['{brace}', '[flag]', '// comment', 'a;b:c,d', '$var %x #1', 'semi;colon'],
}
SAFE_NAME = ['plain', 'mixed']


def pick(rng: random.Random, classes) -> str:
    return rng.choice(STR_CLASSES[rng.choice(classes)])


# Concrete values for the symbols of the TLC model (VmfDoc.tla).  Key symbols k1/K1 fold alike.
KEY_SYMS = [{'k1': 'message', 'K1': 'Message', 'k2': 'origin'},
            {'k1': 'stra\u00dfe', 'K1': 'STRASSE', 'k2': 'spawnflags'},
            {'k1': 'targetname', 'K1': 'TargetName', 'k2': 'angles'}]
# k3: names around the replaceNN boundary and structural words of the entity block, as ordinary keyvalues;
# k4: a name the format reads as fixup replaceNN, with values f1/f2 in the fixup's canonical form "$var value"
TRICKY_SYMS = [{'k3': k} for k in ('replace', 'replace5', 'REPLACE7', 'replace0x', 'replacement01', 'Replace_tex42', 'replace0',
                                   'id', 'ID', 'solid', 'editor', 'connections', 'hidden', 'group', 'side', 'entity')]
AMB_SYMS = [{'k4': k} for k in ('replace07', 'REPLACE42', 'Replace99')]
FX_SYMS = [{'f1': '$fxa 10 20', 'f1v': 'fxa', 'f1r': '10 20', 'f1f': 'fxa',
            'f2': '$Fx_B say "hi"', 'f2v': 'Fx_B', 'f2r': 'say "hi"', 'f2f': 'fx_b'},
           {'f1': '$stra\u00dfe ', 'f1v': 'stra\u00dfe', 'f1r': '', 'f1f': 'strasse',
            'f2': '$q  two spaces\nand a line', 'f2v': 'q', 'f2r': ' two spaces\nand a line', 'f2f': 'q'}]
VAR_SYMS = [{'v1': 'skin', 'V1': '$SKIN', 'v2': 'connectioncount'},
            {'v1': '$start_enabled', 'V1': 'Start_Enabled', 'v2': '$x'}]
STR_SYMS = [{'s1': 'relay_1', 's2': 'say "hi"', 's3': 'C:\\maps\\new', 's4': 'line1\nline2', 's5': ''},
            {'s1': 'a b c', 's2': 'a"b"c', 's3': 'a\\', 's4': 'tab\there\n', 's5': ''},
            {'s1': 'stra\u00dfe \u65e5\u672c', 's2': '"', 's3': '\\\\n', 's4': '\n', 's5': ''}]
NAME_SYMS = [{'n1': 'tools/toolsnodraw', 'n2': 'Brick/BrickWall001a', 'c1': 'info_target', 'c2': 'func_detail',
              'o1': 'OnTrigger', 'o2': 'OnUser1', 'l1': '[0 500]', 'l2': '[-16 2500]'},
             {'n1': 'dev/dev_measuregeneric01', 'n2': 'NATURE/blend grass', 'c1': 'logic_relay', 'c2': 'func_brush',
              'o1': 'OnMapSpawn', 'o2': 'onpass', 'l1': '[64 -1000]', 'l2': '[0 0]'}]


def concretise(obj, table: dict):
    """replace every string of the form '@sym' by its concrete representative"""
    if isinstance(obj, str):
        if obj.startswith('@'):
            return table.get(obj[1:], obj)
        return obj
    if isinstance(obj, list):
        return [concretise(x, table) for x in obj]
    if isinstance(obj, dict):
        return {k: concretise(v, table) for k, v in obj.items()}
    return obj


def sym_table(rng: random.Random) -> dict:
    t = {}
    for fam in (KEY_SYMS, TRICKY_SYMS, AMB_SYMS, FX_SYMS, VAR_SYMS, STR_SYMS, NAME_SYMS):
        t.update(rng.choice(fam))
    return t


def finish_action(a: dict) -> dict:
    """add the derived arguments the specification needs but cannot compute (case folding)"""
    a = dict(a)
    if a['op'] in ('SetKey', 'DelKey'):
        a['f'] = a['k'].casefold()
    if a['op'] == 'SetKey':
        fx = fx_of(a['f'], a['v'])
        if a.get('fx') and a['fx'].get('var', '')[:1] != '@' and {k: a['fx'][k] for k in ('var', 'val', 'f')} != {k: fx[k] for k in ('var', 'val', 'f')}:
            raise Machinery(f'symbol table and fx_of disagree: {a}')
        a['fx'] = fx
    if a['op'] in ('SetFixup', 'DelFixup'):
        var = a['var'][1:] if a['var'][:1] == '$' else a['var']
        a['f'] = var.casefold()
        a['bare'] = var
    return a


def run_history(hist_sym: list, opts: dict, rng: random.Random, out, src: str, stats: dict, log_steps: bool = True,
                extra_sig: dict | None = None) -> None:
    table = sym_table(rng)
    b = Builder()
    for a in hist_sym:
        b.step(finish_action(concretise(a, table)), out, src, log=log_steps)
        stats['steps'] = stats.get('steps', 0) + 1
    stats['steps_logged'] = stats.get('steps_logged', 0) + b.logged
    st = export_parse(b.vmf, opts, out, src, list(b.hist), extra_sig, b.tid)
    for k, v in st.items():
        stats[k] = stats.get(k, 0) + v


# ------------------------------------------------------------------ feature vectors (pair coverage evidence)
def features_of(doc: dict, opts: dict) -> dict:
    ents = doc['ents']
    alle = [doc['world']] + ents
    solids = [(i, s) for i, e in enumerate(alle) for s in e['solids']]
    sides = [f for _, s in solids for f in s['sides']]
    powers = sorted({f['disp']['power'] for f in sides if f['disp']['power']})
    mbl = any(any(v['mb'] != [[0, 0, 0]] * 4 for v in f['disp']['verts']) for f in sides if f['disp']['power'])
    return {
        'minimal': opts['minimal'], 'mb_opt': opts['mb'], 'preserve': opts['preserve'], 'inc': opts['inc'],
        'ent_hidden': any(e['hidden'] for e in ents), 'brush_ent': any(e['solids'] for e in ents),
        'world_brush': bool(doc['world']['solids']), 'solid_hidden': any(s['hidden'] for _, s in solids),
        'disp': bool(powers), 'multiblend': mbl, 'points': any(f['points']['has'] for f in sides),
        'groups': bool(doc['groups']), 'ent_in_group': any(e['groups'] for e in ents),
        'solid_in_group': any(s['group'] >= 0 for _, s in solids),
        'visgroups': bool(doc['vis']), 'vis_nested': any(v['kids'] for v in doc['vis']),
        'ent_in_vis': any(e['vis'] for e in ents), 'solid_in_vis': any(s['vis'] for _, s in solids),
        'cameras': bool(doc['cams']), 'cordons': bool(doc['cordons']), 'views': bool(doc['set']['views']),
        'inst_vis': doc['set']['instVis'] >= 0, 'outputs': any(e['outs'] for e in alle),
        'fixups': any(e['fix'] for e in alle), 'comments': any(e['comments'] for e in alle),
        'quickhide': doc['set']['quickhide'] > 0,
    }


# ------------------------------------------------------------------ seeded random documents (direction B)
def rand_m(rng: random.Random, big: bool = True) -> list:
    """a fixed-point number away from rounding boundaries whose limbs survive the trip through a double"""
    while True:
        c = rng.random()
        s = rng.randint(0, 1)
        if c < 0.25:
            t = [s, rng.randint(0, 16384), 0]
        elif c < 0.4:
            t = [s, rng.randint(0, 4096), rng.randint(0, 63) * 15625000]
        elif c < 0.6:
            t = [s, rng.randint(0, 9999), rng.randint(0, 999999) * 1000]
        elif c < 0.85:
            t = [s, rng.randint(0, 99999 if big else 999), rng.randint(0, 999999999)]
        elif c < 0.93:
            t = [s, 0, rng.choice([400, 499, 502, 700, 1400, 999498, 999999502])]   # around the last kept digit
        else:
            t = [s, rng.choice([0, 1, 255, 65535, 99999]), rng.choice([0, 500000000, 999999498, 999999600])]
        if t[1] == 0 and t[2] == 0:
            t[0] = 0
        if t[0] == 1 and t[1] == 0 and t[2] < 500:
            continue    # "-0": left to the dedicated case
        if safe_m(t) and enc_m(dec_m(t)) == t:
            return t


def rand_g(rng: random.Random) -> list:
    while True:
        c = rng.random()
        if c < 0.2:
            return [0, 0, 0]
        if c < 0.5:
            t = [rng.randint(0, 1), rng.randint(1, 999) * 1000000, rng.randint(0, 3)]
            while t[1] < 100000000:
                t[1] *= 10
        else:
            t = [rng.randint(0, 1), rng.randint(100000000, 999999999), rng.randint(-7, 9)]
        if safe_g(t) and enc_g(dec_g(t)) == t:
            return t


def rand_v(rng, big=True) -> list:
    return [rand_m(rng, big), rand_m(rng, big), rand_m(rng, big)]


def rand_color(rng) -> list:
    return [[0, rng.randint(0, 255), 0] for _ in range(3)]


def rand_axis(rng) -> list:
    sc = rand_m(rng, False)
    while sc[1] == 0 and sc[2] < 1000:
        sc = rand_m(rng, False)
    return [rand_m(rng, False), rand_m(rng, False), rand_m(rng, False), rand_m(rng), sc]


ALL_STR = ['plain', 'mixed', 'quote', 'bslash', 'lf', 'empty', 'uni', 'punct']
KEYNAMES = ['origin', 'angles', 'targetname', 'Message', 'spawnflags', 'model', 'rendercolor', 'Straße', 'my key',
            'parentname', 'StartDisabled', 'x', '_light', 'file', 'a.b', 'UPPER', 'ключ']
TRICKYNAMES = ['replace', 'replace5', 'replace7', 'replace0', 'replace0x', 'replacement01', 'replace_tex42', 'replaceable99',
               'replace 12', 'id', 'solid', 'editor', 'connections', 'hidden', 'group', 'side', 'entity', 'world', 'camera']
VARNAMES = ['skin', '$skin', 'Start_Enabled', '$x', 'connectioncount', '$Timer_Delay', 'a', 'STRASSE', 'straße', 'var_1']
OUTNAMES = ['OnTrigger', 'OnUser1', 'onpass', 'OnMapSpawn', 'On "Quoted"', 'On\\Back']
INSTNAMES = ['relay', 'inst part', 'Branch_1', 'q"uote']


def rand_vert(rng, blend: int) -> dict:
    w = {'n': rand_v(rng, False), 'd': rand_m(rng), 'o': rand_v(rng), 'on': rand_v(rng, False), 'a': rand_m(rng, False),
         'ta': rng.choice([0, 1, 9]), 'tb': rng.choice([0, 1, 9]), 'mb': [[0, 0, 0]] * 4, 'ma': [[0, 0, 0]] * 4, 'mc': []}
    if blend:
        w['mb'] = [rand_g(rng) for _ in range(4)]
        if w['mb'] == [[0, 0, 0]] * 4:
            w['mb'][rng.randrange(4)] = [0, 500000000, -1]
        w['ma'] = [rand_g(rng) for _ in range(4)]
        if blend == 1:
            w['mc'] = [rand_v(rng, False) for _ in range(4)]
    return w


def random_doc(rng: random.Random, out, stats: dict, scale: int, special: str = '') -> None:
    b = Builder()
    vmf = b.vmf
    log = scale <= 2 and special != 'fix100'

    def do(a):
        b.step(finish_action(a), out, 'random', log=log)
        stats['steps'] = stats.get('steps', 0) + 1

    n_steps = rng.randint(3, 12) * scale * scale
    for _ in range(n_steps):
        ents = len(vmf.entities)
        e = rng.randint(0, ents)
        ent = b.ent(e)
        solids = ent.solids
        c = rng.random()
        if c < 0.08 or (ents == 0 and c < 0.3):
            do({'op': 'AddEnt', 'cls': pick(rng, ['plain', 'mixed', 'uni'])})
        elif c < 0.2:
            k = rng.choice(KEYNAMES if rng.random() < 0.7 else TRICKYNAMES)
            k = rng.choice([k, k.upper(), k.lower(), k.capitalize()])
            if e == 0 and k.casefold() in ('classname', 'mapversion'):
                continue
            v = pick(rng, ALL_STR)
            if k.casefold() == 'id' and v.isnumeric():
                continue    # "id" with a numeric value IS the entity's ID line in the file
            do({'op': 'SetKey', 'e': e, 'k': k, 'v': v})
        elif c < 0.205:
            # a keyvalue the format reads as fixup replaceNN, in the fixup's own form "$var value"; index and
            # variable distinct from the entity's fixups (which use indexes 1.. and the names in VARNAMES)
            k = rng.choice(['replace42', 'REPLACE57', 'Replace99'])
            if any(_AMB.match(x.casefold()) and x.casefold() != k.casefold() for x in ent._keys):
                continue
            do({'op': 'SetKey', 'e': e, 'k': k, 'v': '$' + rng.choice(['kvfix', 'KvFix_B', 'q']) + ' ' + rng.choice(['', pick(rng, ALL_STR)])})
        elif c < 0.22:
            ks = [k for k in ent._keys if k.casefold() not in ('classname', 'targetname', 'nodeid')]
            if ks:
                k = rng.choice(ks)
                do({'op': 'DelKey', 'e': e, 'k': rng.choice([k, k.upper()])})
        elif c < 0.3:
            do({'op': 'SetFixup', 'e': e, 'var': rng.choice(VARNAMES), 'val': pick(rng, ALL_STR)})
        elif c < 0.32:
            if ent._fixup:
                do({'op': 'DelFixup', 'e': e, 'var': rng.choice(list(ent._fixup))})
        elif c < 0.42:
            comma = rng.random() < 0.4
            fld = ['plain', 'mixed', 'quote', 'bslash', 'uni', 'empty']
            prm = pick(rng, ALL_STR)
            if comma and rng.random() < 0.3:
                prm = rng.choice(['a,b', ',', '1,2,3 4', 'x,,y'])
            o = {'name': rng.choice(OUTNAMES), 'io': rng.choice(['', '', rng.choice(INSTNAMES)]),
                 'target': pick(rng, fld).replace(',', '_'), 'inp': rng.choice(OUTNAMES + ['Kill', 'SetValue']),
                 'ii': rng.choice(['', '', rng.choice(INSTNAMES)]), 'params': prm, 'delay': rand_g(rng),
                 'times': rng.choice([-1, -1, 1, rng.randint(2, 1000)]), 'comma': comma}
            if o['delay'][0] == 1:
                o['delay'][0] = 0
            do({'op': 'AddOut', 'e': e, 'out': o})
        elif c < 0.5:
            if e == 0:
                do({'op': 'SetEntAttr', 'e': 0, 'name': 'comments', 'val': pick(rng, ALL_STR)})
            else:
                n = rng.choice(['hidden', 'visShown', 'visAuto', 'color', 'logical', 'comments'])
                v = {'hidden': rng.random() < 0.7, 'visShown': rng.random() < 0.4, 'visAuto': rng.random() < 0.4,
                     'color': rand_color(rng), 'logical': f'[{rng.randint(-5000, 5000)} {rng.randint(0, 20000)}]',
                     'comments': pick(rng, ALL_STR)}[n]
                if n == 'hidden' and v and special != 'hidden_first' and any(not x.hidden for x in vmf.entities[e:]):
                    continue    # a hidden entity before a visible one: dedicated case (known reordering defect)
                do({'op': 'SetEntAttr', 'e': e, 'name': n, 'val': v})
        elif c < 0.53:
            # memberships whose IDs collide in a small hash table (equal mod 8: k, k+8, k+16, k+32, k+64) together
            # with small ones, 3-6 of them, in a random insertion order; entities (groups, visgroups) and world brushes
            k = rng.randint(1, 40)
            ids = rng.sample([k, k + 8, k + 16, k + 32, k + 64, k + 128], rng.randint(2, 5)) + rng.sample([1, 2, 3, 4, 5], rng.randint(1, 2))
            ids = list(dict.fromkeys(ids))
            rng.shuffle(ids)
            if e and rng.random() < 0.7:
                do({'op': 'EntJoinSeq', 'e': e, 'what': rng.choice(['group', 'vis']), 'ids': ids})
            elif vmf.brushes:
                do({'op': 'SolidJoinSeq', 'e': 0, 's': rng.randrange(len(vmf.brushes)) + 1, 'ids': ids})
        elif c < 0.55:
            if e and rng.random() < 0.5 and vmf.groups:
                do({'op': 'EntJoin', 'e': e, 'what': 'group', 'id': rng.choice(list(vmf.groups))})
            elif e and vmf.vis_tree:
                ids = [v['id'] for v in _flat_vis(vmf)]
                do({'op': 'EntJoin', 'e': e, 'what': 'vis', 'id': rng.choice(ids)})
        elif c < 0.62:
            p1 = rand_v(rng)
            p2 = rand_v(rng)
            if any(p1[i] == p2[i] for i in range(3)):
                continue
            do({'op': 'AddPrism', 'e': e, 'p1': p1, 'p2': p2, 'mat': pick(rng, SAFE_NAME), 'points': rng.random() < 0.3})
        elif c < 0.64:
            do({'op': 'AddSolid', 'e': e})
        elif c < 0.72:
            if solids:
                s = rng.randrange(len(solids)) + 1
                power = rng.choice([0, 0, 1, 1, 2, 2, 3, 4]) if scale > 1 else rng.choice([0, 0, 1, 2])
                do({'op': 'AddSide', 'e': e, 's': s, 'plane': [rand_v(rng) for _ in range(3)], 'mat': pick(rng, SAFE_NAME),
                    'u': rand_axis(rng), 'v': rand_axis(rng), 'rot': rand_g(rng), 'lightmap': rng.randint(1, 1024),
                    'smooth': rng.randint(0, 2 ** 31 - 2), 'power': power})
                f = len(solids[s - 1].sides)
                if power:
                    side = solids[s - 1].sides[-1]
                    nv = len(side._disp_verts)
                    blend = rng.choice([0, 0, 1, 1, 2])
                    full = rng.random() < 0.5
                    idxs = range(1, nv + 1) if full else rng.sample(range(1, nv + 1), min(nv, 5))
                    for i in idxs:
                        do({'op': 'SetVert', 'e': e, 's': s, 'f': f, 'i': i, 'vert': rand_vert(rng, blend)})
                    for n, v in (('pos', rand_v(rng)), ('elev', rand_m(rng)), ('flags', rng.randint(0, 7)),
                                 ('subdiv', rng.random() < 0.5),
                                 ('allowed', [rng.choice([-1, 0, rng.randint(-2 ** 31 + 2, 2 ** 31 - 2)]) for _ in range(10)])):
                        if rng.random() < 0.6:
                            do({'op': 'SetDispAttr', 'e': e, 's': s, 'f': f, 'name': n, 'val': v})
        elif c < 0.78:
            if solids:
                s = rng.randrange(len(solids)) + 1
                n = rng.choice(['hidden', 'visShown', 'visAuto', 'cordon', 'color', 'group', 'joinvis'])
                if n in ('group', 'joinvis') and e != 0:
                    continue    # "not allowed inside brush entities" (Solid.export): membership is the entity's
                if n == 'group':
                    if not vmf.groups:
                        continue
                    v = rng.choice(list(vmf.groups))
                elif n == 'joinvis':
                    if not vmf.vis_tree:
                        continue
                    v = rng.choice([x['id'] for x in _flat_vis(vmf)])
                elif n == 'color':
                    v = rand_color(rng)
                else:
                    v = rng.random() < 0.6
                do({'op': 'SetSolidAttr', 'e': e, 's': s, 'name': n, 'val': v})
        elif c < 0.84:
            if solids and solids[-1].sides:
                s = len(solids)
                f = rng.randrange(len(solids[-1].sides)) + 1
                n = rng.choice(['mat', 'u', 'v', 'rot', 'lightmap', 'smooth', 'points', 'plane'])
                v = {'mat': pick(rng, SAFE_NAME), 'u': rand_axis(rng), 'v': rand_axis(rng), 'rot': rand_g(rng),
                     'lightmap': rng.randint(-4, 4096), 'smooth': rng.randint(0, 2 ** 24),
                     'points': {'has': True, 'p': [rand_v(rng) for _ in range(rng.randint(0, 9))]},
                     'plane': [rand_v(rng) for _ in range(3)]}[n]
                do({'op': 'SetSideAttr', 'e': e, 's': s, 'f': f, 'name': n, 'val': v})
        elif c < 0.88:
            flat = _flat_paths(vmf)
            path = rng.choice([[]] + flat) if len(flat) < 12 else []
            do({'op': 'AddVisgroup', 'path': path, 'name': pick(rng, ALL_STR), 'color': rand_color(rng)})
        elif c < 0.91:
            do({'op': 'AddGroup', 'shown': rng.random() < 0.5, 'auto': rng.random() < 0.5, 'color': rand_color(rng)})
        elif c < 0.94:
            do({'op': 'AddCamera', 'pos': rand_v(rng), 'look': rand_v(rng)})
            if rng.random() < 0.5:
                do({'op': 'CamSetActive', 'i': rng.randint(1, len(vmf.cameras))})
        elif c < 0.96:
            p1, p2 = rand_v(rng), rand_v(rng)
            do({'op': 'AddCordon', 'mins': p1, 'maxs': p2, 'active': rng.random() < 0.5, 'name': pick(rng, ALL_STR)})
        elif c < 0.985:
            n = rng.choice(['prefab', 'mapVer', 'hammerVer', 'hammerBuild', 'snap', 'showGrid', 'showLogic', 'show3d',
                            'grid', 'activeCam', 'cordonOn', 'quickhide', 'instVis'])
            if n in ('prefab', 'snap', 'showGrid', 'showLogic', 'show3d', 'cordonOn'):
                v = rng.random() < 0.5
            elif n == 'instVis':
                v = rng.choice([-1, 0, 1, 2])
            elif n == 'activeCam':
                v = rng.randint(-1, 5)
            elif n == 'quickhide':
                v = rng.randint(0, 50)
            else:
                v = rng.randint(0, 2 ** 31 - 10)
            do({'op': 'SetSetting', 'name': n, 'val': v})
        else:
            views = []
            for i in range(4):
                if rng.random() < 0.3:
                    ang = [[0, rng.randint(0, 359), rng.randint(0, 899) * 1000000] for _ in range(3)]
                    views.append({'k': '3d', 'axis': '', 'n': rand_v(rng) + ang})
                else:
                    u, v = rand_m(rng), rand_m(rng)
                    # a coordinate of exactly 0 or +-65536 makes the exported position ambiguous: dedicated case
                    while RoundM6(u) in ([0, 0], [65536, 0]) or RoundM6(v) in ([0, 0], [65536, 0]):
                        u, v = rand_m(rng), rand_m(rng)
                    z = rand_m(rng, False)
                    z[0] = 0
                    views.append({'k': '2d', 'axis': rng.choice('xyz'), 'n': [u, v, z]})
            do({'op': 'SetViews', 'views': views})
    # dedicated cases for the known defects: exactly one special feature per such document
    if special == 'mat':
        # address a world brush that has a face (an AddSolid brush may have none): make one if there is none
        si = next((i for i, b in enumerate(vmf.brushes) if b.sides), None)
        if si is None:
            do({'op': 'AddPrism', 'e': 0, 'p1': [[0, 0, 0]] * 3, 'p2': [[0, 64, 0]] * 3, 'mat': 'tools/toolsnodraw', 'points': False})
            si = len(vmf.brushes) - 1
        do({'op': 'SetSideAttr', 'e': 0, 's': si + 1, 'f': 1, 'name': 'mat',
            'val': rng.choice(['tools\\toolsnodraw', 'brick\\new_wall', 'a"b', 'trail\\'])})
    elif special == 'key':
        do({'op': 'SetKey', 'e': 0, 'k': rng.choice(['a\\nb', 'back\\', 'tab\\there']), 'v': 'value'})
    elif special == 'replaceNN':
        do({'op': 'SetKey', 'e': 0, 'k': rng.choice(['replacement01', 'replace_tex42', 'REPLACEABLE99']), 'v': 'some value'})
    elif special == 'fix100':
        # more than 99 fixups: the writer names them replace100, replace101, ...
        for i in range(101):
            do({'op': 'SetFixup', 'e': 0, 'var': f'v{i}', 'val': str(i)})
    elif special == 'replace3':
        do({'op': 'SetKey', 'e': 0, 'k': rng.choice(['replace123', 'REPLACE100']), 'v': '$big 1 2'})
    elif special == 'view_zero':
        views = [{'k': '3d', 'axis': '', 'n': [[0, 0, 0]] * 6}] + [{'k': '2d', 'axis': ax, 'n': [[0, 0, 0], [0, 5, 0], [0, 1, 0]]}
                                                                  for ax in 'xyz']
        do({'op': 'SetViews', 'views': views})
    elif special == 'tinyneg':
        do({'op': 'AddCamera', 'pos': [[1, 0, rng.choice([1, 400, 499])], [0, 1, 0], [0, 2, 0]], 'look': [[0, 0, 0]] * 3})
    elif special == 'hidden_first':
        do({'op': 'AddEnt', 'cls': 'info_hidden'})
        do({'op': 'SetEntAttr', 'e': len(vmf.entities), 'name': 'hidden', 'val': True})
        do({'op': 'AddEnt', 'cls': 'info_visible'})
    opts = {'minimal': rng.random() < 0.25, 'mb': rng.random() < 0.8, 'preserve': rng.random() < 0.5, 'inc': rng.random() < 0.7}
    stats['steps_logged'] = stats.get('steps_logged', 0) + b.logged
    st = export_parse(vmf, opts, out, 'random', list(b.hist), {'special': special, 'scale': scale}, b.tid)
    for k, v in st.items():
        stats[k] = stats.get(k, 0) + v


def RoundM6(t) -> list:
    f6 = (t[2] + 500) // 1000
    return [t[1] + 1, 0] if f6 == 1000000 else [t[1], f6]


def _flat_vis(vmf) -> list:
    out = []

    def rec(v):
        out.append({'id': v.id})
        for c in v.child_groups:
            rec(c)
    for v in vmf.vis_tree:
        rec(v)
    return out


def _flat_paths(vmf) -> list:
    out = []

    def rec(v, path):
        out.append(path)
        if len(path) < 4:
            for i, c in enumerate(v.child_groups):
                rec(c, path + [i + 1])
    for i, v in enumerate(vmf.vis_tree):
        rec(v, [i + 1])
    return out


def mode_random(out, stats: dict) -> None:
    rng = random.Random(hlib.seed() * 7919 + 606)
    thorough = hlib.tier() == 'thorough'
    n_small, n_mid, n_big = (400, 120, 12) if thorough else (60, 14, 2)
    for _ in range(n_small):
        random_doc(rng, out, stats, 1)
    for _ in range(n_mid):
        random_doc(rng, out, stats, 2)
    for _ in range(n_big):
        random_doc(rng, out, stats, 4)
    for special in ('mat', 'key', 'replaceNN', 'fix100', 'replace3', 'view_zero', 'tinyneg', 'hidden_first'):
        for _ in range(6 if thorough else 2):
            random_doc(rng, out, stats, 1, special)


# ------------------------------------------------------------------ modes
def mode_sim(hist_file: str, out, stats: dict, log_steps: bool = True) -> None:
    hists = json.load(open(hist_file))
    rng = random.Random(hlib.seed() * 104729 + 6)
    for h in hists:
        run_history(h['h'], h['opts'], rng, out, 'sim', stats, log_steps=log_steps)
    stats['histories'] = len(hists)


def mode_files(out, stats: dict, only: str | None = None) -> None:
    root = os.path.join(REPO_ROOT, 'tests')
    paths = []
    for dp, _, fns in os.walk(root):
        paths += [os.path.join(dp, f) for f in fns if f.lower().endswith('.vmf')]
    paths.sort()
    if only is not None:
        paths = [p for p in paths if os.path.relpath(p, REPO_ROOT) == only]
    stats['files'] = [os.path.relpath(p, REPO_ROOT) for p in paths]
    texts = []
    for path in paths:
        with open(path, encoding='cp1251') as f:
            texts.append((os.path.relpath(path, REPO_ROOT), f.read()))
    if only is None or only == '<hammer-style text>':
        texts.append(('<hammer-style text>', HAMMER_TEXT))
    for rel, text in texts:
        for preserve in (True, False):
            vmf = VMF.parse(Keyvalues.parse(text), preserve_ids=preserve)
            doc = project(vmf)
            toks = tokens(text)
            if preserve:
                idsets = {k: sorted({t['n'] for t in toks if t['ik'] == k and t['k'] == 'id'}) for k in ('ent', 'solid', 'side')}
                out.write({'k': 'parse', 'file': rel, 'toks': toks, 'doc': doc, 'idsets': idsets, 'memb': memberships(text),
                           'sig': {'kind': 'parse', 'action': 'Parse', 'src': 'file', 'file': rel}})
            for minimal in (False, True):
                opts = {'minimal': minimal, 'mb': True, 'preserve': preserve, 'inc': not minimal}
                vmf = VMF.parse(Keyvalues.parse(text), preserve_ids=preserve)
                st = export_parse(vmf, opts, out, 'file', [{'op': 'ParseFile', 'file': rel}], {'file': rel})
                for k, v in st.items():
                    stats[k] = stats.get(k, 0) + v


# ------------------------------------------------------------------ binding self-check: corrupted records
def _leaves(obj, path=()):
    if isinstance(obj, dict):
        for k in sorted(obj):
            yield from _leaves(obj[k], path + (k,))
    elif isinstance(obj, list):
        for i, x in enumerate(obj):
            yield from _leaves(x, path + (i,))
    else:
        yield path, obj


def _cls(path: tuple) -> str:
    out = []
    for i, p in enumerate(path):
        dyn = i > 0 and path[i - 1] in ('keys', 'fix')
        out.append('*' if isinstance(p, int) or dyn else p)
    return '/'.join(out)


def _set(obj, path, val):
    for p in path[:-1]:
        obj = obj[p]
    obj[path[-1]] = val


def mode_corrupt(in_paths: list, out, stats: dict) -> None:
    """For every class of leaf of the projected re-read document (and for the token streams), take a record
    TLC accepted without any mismatch, alter one such leaf and log the altered record: TLC must reject each."""
    import copy
    accepted = []
    for p in in_paths:
        info = json.load(open(p + '.clean'))     # indexes of xp records without mismatches (written by the check)
        clean = set(info)
        with open(p, encoding='utf-8') as f:
            for n, line in enumerate(f):
                if n in clean:
                    accepted.append(json.loads(line))
    done: dict = {}
    accepted = [(len(json.dumps(r['doc2'])), i, r) for i, r in enumerate(accepted)]
    accepted.sort(key=lambda t: t[:2])       # small documents first: the altered copies stay small
    accepted = [t[2] for t in accepted]
    n_base = 0
    for r in accepted:
        if r['k'] != 'xp' or r['status'] != 'ok':
            continue
        fresh = []
        for path, val in _leaves(r['doc2']):
            c = _cls(path)
            if c in done or c == 'world/logical':           # worldspawn's logicalpos is not in the file
                continue
            if path[-1] == 'id' and not (r['opts']['preserve'] and not r['patched']):
                continue                                     # a changed ID is a legal renumbering unless preserve_ids
            done[c] = True
            fresh.append((path, val, c))
        if not fresh and n_base:
            continue
        n_base += 1
        for path, val, c in fresh:
            q = copy.deepcopy(r)
            _set(q['doc2'], path, (not val) if isinstance(val, bool) else (val + 1 if isinstance(val, int) else val + 'x'))
            q['sig'] = {'kind': 'corrupt', 'action': 'ExportParse', 'cls': 'doc2:' + c}
            out.write(q)
        if n_base == 1 and not r['patched']:
            for which, how in (('toks2', 'drop'), ('toks2', 'value'), ('toks1', 'drop'), ('toks1', 'label'),
                               ('toks3', 'drop'), ('toks3', 'value')):
                q = copy.deepcopy(r)
                t = q['c3']['toks3'] if which == 'toks3' else q[which]
                j = next(i for i, x in enumerate(t) if x['t'] == 'kv' and x['ik'] == '' and i > 8)
                if how == 'drop':
                    del t[j]
                elif how == 'value':
                    t[j]['v'] += 'x'
                else:
                    t[j]['c'] += 'x'
                    t[j]['k'] += 'x'
                q['sig'] = {'kind': 'corrupt', 'action': 'ExportParse', 'cls': f'{which}:{how}'}
                out.write(q)
    stats['leaf_classes'] = sorted(done)
    stats['bases'] = n_base


def main() -> None:
    mode = sys.argv[1]
    stats: dict = {}
    if mode == 'sim':
        out = hlib.RecWriter(sys.argv[3])
        mode_sim(sys.argv[2], out, stats, log_steps=len(sys.argv) < 5)
    elif mode == 'random':
        out = hlib.RecWriter(sys.argv[2])
        mode_random(out, stats)
    elif mode == 'files':
        out = hlib.RecWriter(sys.argv[2])
        mode_files(out, stats)
    elif mode == 'corrupt':
        out = hlib.RecWriter(sys.argv[-1])
        mode_corrupt(sys.argv[2:-1], out, stats)
    elif mode == 'replay':
        # re-execute the concrete call history stored in a replay file against the current tree
        rp = json.load(open(sys.argv[2]))
        rec = rp['record']
        out = hlib.RecWriter(sys.argv[3])
        hist = rec.get('hist') or []
        if rec.get('file') or (hist and hist[0].get('op') == 'ParseFile'):
            mode_files(out, stats, rec.get('file') or hist[0]['file'])
        else:
            b = Builder()
            for a in hist:
                b.step(a, out, 'replay')
            opts = rec.get('opts') or {'minimal': False, 'mb': True, 'preserve': False, 'inc': True}
            extra = {k: rp[k] for k in ('special', 'scale') if k in rp}
            export_parse(b.vmf, opts, out, rp.get('src', 'replay'), list(b.hist), extra, b.tid)
    else:
        raise SystemExit(2)
    out.close()
    stats['records'] = out.n
    print(json.dumps(stats))


if __name__ == '__main__':
    main()
