"""C04 driver: executes rotation expressions on the real srctools.math objects and logs one record
per operator application / function call (operands exact, results rounded to the record's common
denominator Q together with the rounding error).  TLC (RotTrace) judges every record.  Modes:
  edges  <edges.json> <out>   replay every TLC-generated expression (Rot_edges.cfg) with its exact values
  funcs  <out>                from_angle / to_angle / transpose / inverse over all Euler triples of the MC domain
  shapes <edges.json> <out>   the same expression shapes with seeded other exact values, and with reals
                              (multiples of 15, near-pole, large magnitudes): numeric residues of the laws
  ctors  <out>                every constructor of a rotation (from_basis with every subset of axes, axis_angle, from_yaw/
                              pitch/roll, from_angstr, Vec.to_angle, to_angle_roll) swept through its special-case thresholds
  replay <replay.json> <out>  re-execute the history stored in a replay file
"""
from __future__ import annotations

import itertools
import json
import math
import operator
import random
import sys

from vlib import hlib

hlib.require_repo_src()
from srctools.math import Angle, FrozenAngle, FrozenMatrix, FrozenVec, Matrix, Vec  # noqa: E402

I31 = 2 ** 31 - 1
VEC = ('Vec', 'FrozenVec', 'Tuple3')
ANG = ('Angle', 'FrozenAngle')
MAT = ('Matrix', 'FrozenMatrix')
CLS = {'Vec': Vec, 'FrozenVec': FrozenVec, 'Angle': Angle, 'FrozenAngle': FrozenAngle,
       'Matrix': Matrix, 'FrozenMatrix': FrozenMatrix}


class Skip(Exception):
    """The chosen values do not fit TLC's 32-bit integers; choose others."""


def kind(cls: str) -> str:
    return 'V' if cls in VEC else 'A' if cls in ANG else 'M'


def cls_name(obj) -> str:
    return 'Tuple3' if type(obj) is tuple else type(obj).__name__


# ------------------------------------------------------------------ independent float algebra
def mmul(a, b):
    return [[sum(a[i][k] * b[k][j] for k in range(3)) for j in range(3)] for i in range(3)]


def vmul(v, m):
    return [sum(v[k] * m[k][j] for k in range(3)) for j in range(3)]


def euler_to_mat(p: float, y: float, r: float):
    """Source convention written out independently: roll about X, then pitch about Y, then yaw about Z
    (row vectors).  Used to project Angle values; never calls srctools."""
    rp, ry, rr = math.radians(p), math.radians(y), math.radians(r)
    cp, sp, cy, sy, cr, sr = math.cos(rp), math.sin(rp), math.cos(ry), math.sin(ry), math.cos(rr), math.sin(rr)
    roll = [[1.0, 0.0, 0.0], [0.0, cr, sr], [0.0, -sr, cr]]
    pitch = [[cp, 0.0, -sp], [0.0, 1.0, 0.0], [sp, 0.0, cp]]
    yaw = [[cy, sy, 0.0], [-sy, cy, 0.0], [0.0, 0.0, 1.0]]
    return mmul(mmul(roll, pitch), yaw)


def flat(m):
    return [m[i][j] for i in range(3) for j in range(3)]


def mat_of(obj):
    """Float 3x3 of a Matrix / Angle object (Angle through the independent euler_to_mat)."""
    if isinstance(obj, (Angle, FrozenAngle)):
        return euler_to_mat(obj.pitch, obj.yaw, obj.roll)
    return [[obj[i, j] for j in range(3)] for i in range(3)]


def floats_of(obj) -> list:
    if isinstance(obj, (Vec, FrozenVec, tuple)):
        return [float(x) for x in obj]
    return flat(mat_of(obj))


def pt_deg(p) -> float:
    c, s, _d = p
    return math.degrees(math.atan2(s, c)) % 360.0


# ------------------------------------------------------------------ projection to the exact domain
def rnd(xs, q: int, scale: float = 1.0):
    ns, err = [], 0.0
    for x in xs:
        n = round(x * q)
        if abs(n) > I31:
            raise Skip
        ns.append(n)
        err = max(err, abs(x - n / q) / scale)
    return ns, err


def eint(err: float) -> int:
    return min(I31, math.ceil(err * 1e12))


def project(obj, q: int):
    """(ints at denominator q, angle points or [], error relative to magnitude)."""
    xs = floats_of(obj)
    if isinstance(obj, (Vec, FrozenVec, tuple)):
        ns, err = rnd(xs, q, max(1.0, math.sqrt(sum(x * x for x in xs))))
        return ns, [], err
    ns, err = rnd(xs, q)
    return ns, [], err


def project_pts(obj, q: int):
    """(cos, sin) of each Euler component at denominator q and the rounding error (meaningful only when the
    exact angle is rational, which TLC decides)."""
    pts, err = [], 0.0
    if isinstance(obj, (Angle, FrozenAngle)):
        for a in (obj.pitch, obj.yaw, obj.roll):
            pn, pe = rnd([math.cos(math.radians(a)), math.sin(math.radians(a))], q)
            pts.append(pn)
            err = max(err, pe)
    return pts, err


# ------------------------------------------------------------------ operands
def build(cls: str, vals, how: int = 0):
    """A real object of the class from float values (xyz or pitch/yaw/roll in degrees)."""
    a, b, c = vals
    if cls == 'Tuple3':
        return (a, b, c) if how % 2 == 0 else (float(a), float(b), float(c))
    if cls in VEC:
        return CLS[cls](a, b, c) if how % 2 == 0 else CLS[cls]([a, b, c])
    if cls in ANG:
        return CLS[cls](a, b, c) if how % 2 == 0 else CLS[cls]([a, b, c])
    if how % 3 == 0:
        return CLS[cls].from_angle(a, b, c)
    if how % 3 == 1:
        return CLS[cls].from_angle(Angle(a, b, c))
    m = Matrix.from_roll(c)
    m @= Matrix.from_pitch(a)
    m @= Matrix.from_yaw(b)
    return m if cls == 'Matrix' else m.freeze()


def src_vals(cls: str, src):
    return [float(x) for x in src] if cls in VEC else [pt_deg(p) for p in src]


def src_den(cls: str, src) -> int:
    return 1 if cls in VEC else src[0][2] * src[1][2] * src[2][2]


def src_opnd(cls: str, src) -> dict:
    return {'t': 'rat', 'n': list(src), 'd': 1} if cls in VEC else {'t': 'ang', 'a': [list(p) for p in src]}


def apply(form: str, lhs, rhs):
    try:
        if form == 'mm':
            res = lhs @ rhs
        elif form == 'imm':
            res = operator.imatmul(lhs, rhs)
        else:
            meth = getattr(type(rhs), '__rmatmul__', None)
            if meth is None:
                raise TypeError('no __rmatmul__')
            res = meth(rhs, lhs)
            if res is NotImplemented:
                raise TypeError('NotImplemented')
    except Exception as exc:  # noqa: BLE001 - the type is logged and judged by TLC
        return None, type(exc).__name__
    return res, ''


# ------------------------------------------------------------------ exact-domain expressions
def run_expr(h: dict, out: hlib.RecWriter, src: str, exp=None) -> None:
    """h = {start: {c, src}, steps: [{f, c, src}], how}: evaluate left to right, one record per operator."""
    q = src_den(h['start']['c'], h['start']['src'])
    for s in h['steps']:
        q *= q if s['c'] == 'self' else src_den(s['c'], s['src'])
    if q > 4_000_000:
        raise Skip
    how = h.get('how', 0)
    recs = []
    cur = build(h['start']['c'], src_vals(h['start']['c'], h['start']['src']), how)
    cur_op = src_opnd(h['start']['c'], h['start']['src'])
    err_final = ''
    for idx, s in enumerate(h['steps']):
        lcls = cls_name(cur)
        selfop = s['c'] == 'self'
        rhs = cur if selfop else build(s['c'], src_vals(s['c'], s['src']), how + idx)
        rcls = lcls if selfop else s['c']
        res, et = apply(s['f'], cur, rhs)
        la, _, e1 = project(cur, q)
        ra, _, e2 = project(rhs, q)
        rec = {'k': 'step', 'Q': q, 'lcls': lcls, 'form': s['f'], 'rcls': rcls, 'l': cur_op, 'self': selfop,
               'r': cur_op if selfop else src_opnd(s['c'], s['src']), 'exc': bool(et), 'et': et, 'res': {}, 'la': la, 'ra': ra,
               'e': 0, 'ep': 0, 'tol': 1000,
               'sig': {'kind': 'step', 'action': s['f'], 'lcls': lcls, 'rcls': rcls, 'src': src, 'selfop': selfop},
               'hist': dict(h, steps=h['steps'][:idx + 1])}
        if not et:
            n, _, e3 = project(res, q)
            pt, ep = project_pts(res, q)
            rec['res'] = {'cls': cls_name(res), 'is_lhs': res is cur, 'is_rhs': res is rhs, 'n': n, 'pt': pt}
            rec['e'] = eint(max(e1, e2, e3))
            rec['ep'] = eint(ep)
        recs.append(rec)
        if et:
            err_final = et
            break
        if eint(e3) > 1000 or selfop:
            # the result is not a value of the exact domain (reported by this record's tolerance/value clauses),
            # or the object was its own operand (a wrong in-place product need not stay on the domain): the
            # expression is judged up to this operator only
            exp = None
            break
        cur, cur_op = res, {'t': 'rat', 'n': n, 'd': q}
    if exp is not None:
        fin = {'k': 'final', 'Q': q, 'exp': exp, 'exc': bool(err_final), 'res': {}, 'e': 0, 'ep': 0, 'tol': 1000,
               'sig': {'kind': 'final', 'action': h['steps'][-1]['f'] if h['steps'] else 'start',
                       'lcls': recs[-1]['lcls'] if recs else h['start']['c'],
                       'rcls': h['steps'][-1]['c'] if h['steps'] else '', 'src': src, 'selfop': False},
               'hist': h}
        if not err_final:
            n, _, e = project(cur, q)
            pt, ep = project_pts(cur, q)
            fin['res'] = {'cls': cls_name(cur), 'n': n, 'pt': pt}
            fin['e'] = eint(e)
            fin['ep'] = eint(ep)
        recs.append(fin)
    for r in recs:
        out.write(r)


def tla_src(cls: str, a):
    if cls in VEC:
        return list(a)
    return [[a[x]['c'], a[x]['s'], a[x]['d']] for x in ('p', 'y', 'r')]


def edge_hist(e: dict) -> dict:
    return {'start': {'c': e['start']['c'], 'src': tla_src(e['start']['c'], e['start']['a'])},
            'steps': [{'f': s['f'], 'c': s['c'], 'src': [] if s['c'] == 'self' else tla_src(s['c'], s['a'])} for s in e['hist']]}


def mode_edges(edge_file: str, out: hlib.RecWriter, stats: dict) -> None:
    edges = json.load(open(edge_file))
    for n, e in enumerate(edges):
        h = edge_hist(e)
        h['how'] = n
        run_expr(h, out, 'edge', exp=e['cur'])
        stats['edges_replayed'] = stats.get('edges_replayed', 0) + 1


# ------------------------------------------------------------------ function-level records
def circle_points(d: int) -> list:
    pts = set()
    for c in range(-d, d + 1):
        for s in range(-d, d + 1):
            if c * c + s * s == d * d:
                g = math.gcd(math.gcd(abs(c), abs(s)), d)
                pts.add((c // g, s // g, d // g))
    return sorted(pts)


def func_records(trip, out: hlib.RecWriter, how: int, src: str) -> None:
    q = trip[0][2] * trip[1][2] * trip[2][2]
    p, y, r = (pt_deg(t) for t in trip)
    a = [list(t) for t in trip]
    sig = lambda act: {'kind': 'func', 'action': act, 'src': src}  # noqa: E731
    hist = {'trip': a, 'how': how}
    # from_angle in its three public spellings
    for hw, m in (('floats', Matrix.from_angle(p, y, r)), ('angle', FrozenMatrix.from_angle(FrozenAngle(p, y, r))),
                  ('thaw', Matrix.from_angle(Angle(p, y, r)).freeze().thaw())):
        n, _, e = project(m, q)
        out.write({'k': 'fa', 'Q': q, 'how': hw, 'a': a, 'out': n, 'e': eint(e), 'tol': 1000,
                   'sig': sig('from_angle.' + hw), 'hist': hist})
    for hw, m in (('pitch', Matrix.from_pitch(p)), ('yaw', FrozenMatrix.from_yaw(y)), ('roll', Matrix.from_roll(r))):
        n, _, e = project(m, q)
        out.write({'k': 'fa', 'Q': q, 'how': hw, 'a': a, 'out': n, 'e': eint(e), 'tol': 1000,
                   'sig': sig('from_' + hw), 'hist': hist})
    mat = (Matrix if how % 2 else FrozenMatrix).from_angle(p, y, r)
    ang = mat.to_angle()
    n, _, e = project(ang, q)
    pt, ep = project_pts(ang, q)
    out.write({'k': 'ta', 'Q': q, 'm': {'t': 'ang', 'a': a}, 'out': pt, 'outm': n, 'e': eint(e), 'ep': eint(ep), 'tol': 1000,
               'sig': sig('to_angle'), 'hist': hist})
    tr, _, e1 = project(mat.transpose(), q)
    try:
        inv, _, e2 = project(mat.inverse(), q)
    except ArithmeticError:
        inv, e2 = [], 0.0
    out.write({'k': 'inv', 'Q': q, 'm': {'t': 'ang', 'a': a}, 'tr': tr, 'inv': inv, 'e': eint(max(e1, e2)), 'tol': 1000,
               'sig': sig('inverse'), 'hist': hist})


def mode_funcs(out: hlib.RecWriter, stats: dict) -> None:
    pts = sorted(set(circle_points(1)) | set(circle_points(5)))
    for n, trip in enumerate(itertools.product(pts, repeat=3)):
        func_records(trip, out, n, 'exhaustive')
    stats['triples'] = len(pts) ** 3
    for hw in ('floats', 'angle'):
        out.write({'k': 'count', 'D': 5, 'how': hw, 'sig': {'kind': 'count', 'action': 'count'}})


# ------------------------------------------------------------------ shapes with other values
def rand_pt(rng: random.Random, d: int):
    return rng.choice(circle_points(d))


def rand_src(rng: random.Random, cls: str, d: int):
    if cls in VEC:
        lim = rng.choice([3, 50, 400])
        return [rng.randint(-lim, lim) for _ in range(3)]
    # mostly lattice components, some on the circle of denominator d, the poles included
    return [list(rand_pt(rng, rng.choice([1, d]))) for _ in range(3)]


def mode_shapes_exact(shapes: list, out: hlib.RecWriter, rng: random.Random, stats: dict, per: int) -> None:
    dens = [1, 1, 5, 13, 17, 25, 29, 65]
    for shp in shapes:
        done = tries = 0
        while done < per and tries < per * 20:
            tries += 1
            hot = rng.randrange(len(shp['steps']) + 1)      # at most one or two non-lattice operands
            d = rng.choice(dens)
            h = {'start': {'c': shp['start'], 'src': rand_src(rng, shp['start'], d if hot == 0 or d == 5 else 1)},
                 'steps': [{'f': f, 'c': c, 'src': [] if c == 'self' else rand_src(rng, c, d if hot == i + 1 or d == 5 else 1)}
                           for i, (f, c) in enumerate(shp['steps'])],
                 'how': rng.randrange(6)}
            buf = _Buf()
            try:
                run_expr(h, buf, 'shape')
            except Skip:
                continue
            for r in buf.recs:
                out.write(r)
            done += 1
            stats['exact_shapes'] = stats.get('exact_shapes', 0) + 1


class _Buf:
    def __init__(self) -> None:
        self.recs: list = []

    def write(self, rec: dict) -> None:
        self.recs.append(rec)


# ------------------------------------------------------------------ the continuum (numeric residues)
def gen_angle(rng: random.Random, flavour: str) -> list:
    if flavour == 'm15':
        return [15.0 * rng.randrange(-48, 49) for _ in range(3)]
    if flavour == 'pole':
        off = 10.0 ** rng.uniform(-12, -1) * rng.choice([1, -1])     # straddles horiz = 0.001 (0.0573 degrees)
        if rng.random() < 0.15:
            off = rng.choice([1e-12, 1e-9, 1e-6, 1e-3, 0.05, 0.0572, 0.0574, 0.06]) * rng.choice([1, -1])
        pitch = rng.choice([90.0, -90.0, 270.0, -270.0, 450.0]) + off
        other = lambda: rng.choice([rng.uniform(-360, 720), 15.0 * rng.randrange(-24, 48)])  # noqa: E731
        return [pitch, other(), other()]
    return [rng.uniform(-720.0, 720.0) for _ in range(3)]


def gen_vec(rng: random.Random) -> list:
    mag = 10.0 ** rng.uniform(-3, 6)
    v = [rng.uniform(-1, 1) for _ in range(3)]
    if rng.random() < 0.2:
        v[rng.randrange(3)] = 0.0
    return [x * mag for x in v]


def maxdiff(a, b) -> float:
    return max(abs(x - y) for x, y in zip(a, b))


def horiz(m) -> float:
    return math.hypot(m[0][0], m[0][1])


def num_rec(out, law: str, resid: float, tol: float, sig: dict, case: dict) -> None:
    out.write({'k': 'num', 'law': law, 'resid': min(I31, math.ceil(resid * 1e12)), 'tol': min(I31, math.ceil(tol * 1e12)),
               'sig': dict(sig, kind='num', action=law), 'hist': case})


def angle_tol(ref) -> float | None:
    """Tolerance for an Euler extraction of the rotation ref (None: too close to the 0.001 threshold)."""
    h = horiz(ref)
    if abs(h - 0.001) < 1e-7:
        return None
    return 1e-9 if h > 0.001 else 2.0 * h + 1e-9


def num_value_laws(out, vals: list, flavour: str, how: int) -> None:
    """Laws of one rotation value: proper rotation, convention, Euler round trip, inverse = transpose."""
    p, y, r = vals
    case = {'vals': vals, 'how': how}
    sig = {'flavour': flavour}
    m = build('Matrix' if how % 2 else 'FrozenMatrix', vals, how)
    mf = mat_of(m)
    ortho = max(abs(sum(mf[i][k] * mf[j][k] for k in range(3)) - (1.0 if i == j else 0.0))
                for i in range(3) for j in range(3))
    det = (mf[0][0] * (mf[1][1] * mf[2][2] - mf[1][2] * mf[2][1]) - mf[0][1] * (mf[1][0] * mf[2][2] - mf[1][2] * mf[2][0])
           + mf[0][2] * (mf[1][0] * mf[2][1] - mf[1][1] * mf[2][0]))
    num_rec(out, 'proper', max(ortho, abs(det - 1.0)), 1e-9, sig, case)
    num_rec(out, 'convention', maxdiff(flat(mf), flat(euler_to_mat(p, y, r))), 1e-9, sig, case)
    tol = angle_tol(mf)
    if tol is not None:
        back = type(m).from_angle(m.to_angle())
        num_rec(out, 'roundtrip', maxdiff(flat(mat_of(back)), flat(mf)), tol, dict(sig, gimbal=tol > 1e-9), case)
    try:
        inv_resid = maxdiff(flat(mat_of(m.inverse())), flat(mat_of(m.transpose())))
    except ArithmeticError:      # "no inverse" for a rotation matrix is a violation, not a harness failure
        inv_resid = 1.0
    num_rec(out, 'inverse', inv_resid, 1e-9, sig, case)


def num_expr(out, shp: dict, rng: random.Random, flavour: str) -> None:
    """One TLC-generated expression shape with real values: every operator against the independent float
    algebra, and the left-associated result against the implementation's own right-associated one."""
    how = rng.randrange(6)
    svals = gen_vec(rng) if shp['start'] in VEC else gen_angle(rng, flavour)
    if any(c == 'self' for _, c in shp['steps']):
        return          # self-operand shapes are judged on the exact domain only
    steps = [(f, c, gen_vec(rng) if c in VEC else gen_angle(rng, flavour)) for f, c in shp['steps']]
    case = {'start': [shp['start'], svals], 'steps': [[f, c, v] for f, c, v in steps], 'how': how, 'flavour': flavour,
            'err': shp.get('err', False)}
    cur = build(shp['start'], svals, how)
    start_k = kind(shp['start'])
    mats = []
    clean = True        # no Euler extraction near a pole inside the chain
    for idx, (f, c, v) in enumerate(steps):
        rhs = build(c, v, how + idx)
        sig = {'lcls': cls_name(cur), 'form': f, 'rcls': c, 'flavour': flavour}
        lf = floats_of(cur)
        res, et = apply(f, cur, rhs)
        last = idx == len(steps) - 1
        if bool(et) != (shp.get('err', False) and last):
            # TLC's dispatch table says whether the last operator of this shape is a type error
            num_rec(out, 'step.error', 1.0, 0.0, sig, case)
            return
        if et:
            return
        rm = mat_of(rhs)
        mats.append(v)
        if start_k == 'V':
            ref = vmul(lf, rm)
            scale = max(1.0, math.sqrt(sum(x * x for x in lf)))
            num_rec(out, 'step', maxdiff(floats_of(res), ref) / scale, 1e-9, sig, case)
        else:
            lm = [lf[0:3], lf[3:6], lf[6:9]]
            ref = mmul(lm, rm)
            tol = angle_tol(ref) if start_k == 'A' else 1e-9
            if tol is None:
                return
            if tol > 1e-9 or (start_k == 'A' and horiz(ref) < 0.0011):
                clean = False
            num_rec(out, 'step', maxdiff(floats_of(res), flat(ref)), tol, dict(sig, gimbal=tol > 1e-9), case)
        cur = res
    if len(mats) >= 2 and clean and (start_k != 'A' or horiz(mat_of(build(shp['start'], svals))) > 0.0011):
        # (s @ r1) @ r2 ... against s @ (r1 @ (r2 ...)) computed by the implementation itself
        prod = Matrix.from_angle(*mats[-1])
        for v in reversed(mats[:-1]):
            prod = FrozenMatrix.from_angle(*v) @ prod
        right = build(shp['start'], svals, how + 1) @ prod
        lf = floats_of(right)
        scale = max(1.0, math.sqrt(sum(x * x for x in lf))) if start_k == 'V' else 1.0
        tol = 1e-9
        if start_k == 'A':
            tol = angle_tol(mat_of(right))
            if tol is None or tol > 1e-9:
                return
        num_rec(out, 'assoc', maxdiff(floats_of(cur), lf) / scale, tol,
                {'lcls': shp['start'], 'form': '+'.join(f for f, _, _ in steps), 'rcls': '+'.join(c for _, c, _ in steps),
                 'flavour': flavour}, case)


# ------------------------------------------------------------------ every constructor of a rotation, swept through
# its own special-case thresholds (numeric residues, judged by TLC like the other continuum laws)
def thresholds() -> dict:
    """Float literals used in comparisons inside the constructors' source (read reflectively from the tree under
    test), so that a changed or added threshold is straddled as well."""
    import inspect
    import re
    import srctools.math as sm
    out = {}
    for name, fn in (('from_basis', sm.Py_MatrixBase.from_basis), ('_to_angle', sm.Py_MatrixBase._to_angle),
                     ('inverse', sm.Py_MatrixBase.inverse), ('axis_angle', sm.Py_MatrixBase.axis_angle),
                     ('Vec.to_angle', sm.Py_VecBase.to_angle), ('Angle.from_basis', sm.Py_AngleBase.from_basis)):
        lits = set()
        for m in re.finditer(r'(<=|>=|<|>)\s*(\d+\.?\d*(?:[eE][-+]?\d+)?)(?![\w.])', inspect.getsource(fn)):
            v = float(m.group(2))
            if 0.0 < v < 1.0:
                lits.add(v)
        out[name] = sorted(lits)
    return out


def sweep_h(thr: dict) -> list:
    """Horizontal lengths of a nearly vertical unit direction: decades and half-decades 1e-9..1e-1, and both sides
    of every threshold literal found in the source, read as a length and as a squared length."""
    hs = {10.0 ** (e / 2.0) for e in range(-18, -1)}
    for lits in thr.values():
        for lit in lits:
            for t in (lit, math.sqrt(lit)):
                hs.update({t * 0.5, t * 0.999, t * 1.001, t * 2.0})
    # stay away from the rounding boundary itself: both sides are covered by the 0.999 / 1.001 neighbours
    edges = [t for lits in thr.values() for lit in lits for t in (lit, math.sqrt(lit))]
    return sorted(h for h in hs if h < 0.5 and all(abs(h / t - 1.0) > 1e-6 for t in edges))


TILTS = [(1.0, 0.0), (-1.0, 0.0), (0.0, 1.0), (0.0, -1.0), (0.6, 0.8), (-0.8, 0.6), (-0.6, -0.8), (0.8, -0.6)]
LENGTHS = [1.0, 1e-5, 2.5e-6, 1e3, 1e6, 0.37]
ROT_CLS = ('Matrix', 'FrozenMatrix', 'Angle', 'FrozenAngle')


def band_of(h: float) -> str:
    return 'pole' if h == 0.0 else str(math.floor(math.log10(h)))


def unit(v):
    n = math.sqrt(sum(x * x for x in v))
    return [x / n for x in v]


def ctor_laws(out, obj, want: dict, sig: dict, case: dict) -> None:
    """The rotation clauses on one constructed object; want = {row index: direction the row must point in}."""
    mf = mat_of(obj)
    is_ang = isinstance(obj, (Angle, FrozenAngle))
    tol = angle_tol(mf) if is_ang else 1e-9
    ortho = max(abs(sum(mf[i][k] * mf[j][k] for k in range(3)) - (1.0 if i == j else 0.0)) for i in range(3) for j in range(3))
    det = (mf[0][0] * (mf[1][1] * mf[2][2] - mf[1][2] * mf[2][1]) - mf[0][1] * (mf[1][0] * mf[2][2] - mf[1][2] * mf[2][0])
           + mf[0][2] * (mf[1][0] * mf[2][1] - mf[1][1] * mf[2][0]))
    if not is_ang:
        num_rec(out, 'ctor.proper', max(ortho, abs(det - 1.0)), 1e-9, sig, case)
        try:
            inv_resid = maxdiff(flat(mat_of(obj.inverse())), flat(mat_of(obj.transpose())))
        except ArithmeticError:
            inv_resid = 1.0
        num_rec(out, 'ctor.inverse', inv_resid, 1e-9, sig, case)
    worst = 0.0
    for v in ([3.0, -4.0, 12.0], [1e6, 2.0, -5e5]):
        r = floats_of(Vec(*v) @ obj)
        worst = max(worst, abs(math.sqrt(sum(x * x for x in r)) / math.sqrt(sum(x * x for x in v)) - 1.0))
        # rotating by the object is rotating by the matrix it stands for
        worst = max(worst, maxdiff(r, vmul(v, mf)) / math.sqrt(sum(x * x for x in v)))
    num_rec(out, 'ctor.length', worst, 1e-9, sig, case)
    if want and tol is not None:
        resid = max(maxdiff(mf[i], unit(vec)) for i, vec in want.items())
        num_rec(out, 'ctor.axis', resid, tol, dict(sig, gimbal=tol > 1e-9), case)


def ctor_case(out, case: dict) -> None:
    """Build one object from a stored case description and judge it (also used by replay)."""
    c = case['ctor']
    cls = case['cls']
    sig = {'ctor': c, 'cls': cls, 'given': case.get('given', ''), 'band': case.get('band', ''), 'tilt': case.get('tilt', '')}
    try:
        if c == 'from_basis':
            vecs = {ax: (Vec if n % 2 == 0 else FrozenVec)(*v) for n, (ax, v) in enumerate(sorted(case['vecs'].items()))}
            obj = CLS[cls].from_basis(**vecs)
            want = {'xyz'.index(ax): v for ax, v in case['vecs'].items()}
            if 'full' in case:      # two or three axes given: the whole basis is determined
                want = {i: case['full'][i] for i in range(3)}
        elif c == 'axis_angle':
            obj = CLS[cls].axis_angle(Vec(*case['axis']) if case['how'] % 2 else tuple(case['axis']), case['angle'])
            ctor_laws(out, obj, {}, sig, case)
            ax = unit(case['axis'])
            num_rec(out, 'ctor.axis', maxdiff(vmul(ax, mat_of(obj)), ax), 1e-9, sig, case)     # the axis is fixed
            ref = {(1, 0, 0): euler_to_mat(0, 0, case['angle']), (0, 1, 0): euler_to_mat(case['angle'], 0, 0),
                   (0, 0, 1): euler_to_mat(0, case['angle'], 0)}.get(tuple(case['axis']))
            if ref is not None:
                num_rec(out, 'ctor.convention', maxdiff(flat(mat_of(obj)), flat(ref)), 1e-9, sig, case)
            return
        elif c in ('from_yaw', 'from_pitch', 'from_roll'):
            a = case['angle']
            obj = getattr(CLS[cls], c)(a)
            ref = euler_to_mat(a if c == 'from_pitch' else 0, a if c == 'from_yaw' else 0, a if c == 'from_roll' else 0)
            ctor_laws(out, obj, {}, sig, case)
            num_rec(out, 'ctor.convention', maxdiff(flat(mat_of(obj)), flat(ref)), 1e-9, sig, case)
            return
        elif c == 'from_angstr':
            p, y, r = case['vals']
            text = [f'{p!r} {y!r} {r!r}', f'({p!r} {y!r} {r!r})', f'<{p!r} {y!r} {r!r}>'][case['how'] % 3]
            obj = CLS[cls].from_angstr(text)
            ctor_laws(out, obj, {}, sig, case)
            num_rec(out, 'ctor.convention', maxdiff(flat(mat_of(obj)), flat(euler_to_mat(p, y, r))), 1e-9, sig, case)
            return
        elif c == 'vec_to_angle':
            v = case['vec']
            obj = (Vec if case['how'] % 2 else FrozenVec)(*v).to_angle(case['roll'])
            want = {0: v}
            mf = mat_of(obj)
            num_rec(out, 'ctor.axis', maxdiff(mf[0], unit(v)), 1e-9, sig, case)       # no gimbal allowance: roll is given
            num_rec(out, 'ctor.axis', abs((obj.roll - case['roll'] + 180.0) % 360.0 - 180.0) / 360.0, 1e-9, dict(sig, given='roll'), case)
            return
        elif c == 'to_angle_roll':
            import warnings
            with warnings.catch_warnings():
                warnings.simplefilter('ignore')
                obj = Vec(*case['full'][0]).to_angle_roll(FrozenVec(*case['full'][2]))
            want = {i: case['full'][i] for i in range(3)}
        else:
            raise SystemExit('unknown constructor ' + c)
    except Exception as exc:  # noqa: BLE001 - a constructor refusing a valid input is a violation, not a harness failure
        num_rec(out, 'ctor.error', 1.0, 0.0, dict(sig, et=type(exc).__name__), case)
        return
    ctor_laws(out, obj, want, sig, case)


def mode_ctors(out: hlib.RecWriter, stats: dict) -> None:
    thr = thresholds()
    stats['thresholds_in_source'] = thr
    hs = sweep_h(thr)
    stats['pole_offsets'] = len(hs)
    rng = random.Random(hlib.seed() * 6151 + 9)
    thorough = hlib.tier() == 'thorough'
    n = 0
    # one direction given: exact poles and every offset x tilt direction x both poles, lengths and classes cycling
    for given in 'xyz':
        for pole in (1.0, -1.0):
            for h in [0.0] + hs:
                for tn, (tx, ty) in enumerate(TILTS if h else TILTS[:1]):
                    for cls in (ROT_CLS if thorough else (ROT_CLS[n % 4], ROT_CLS[(n + 2) % 4])):
                        ln = LENGTHS[n % len(LENGTHS)]
                        v = [h * tx * ln, h * ty * ln, pole * math.sqrt(max(0.0, 1.0 - h * h)) * ln]
                        ctor_case(out, {'ctor': 'from_basis', 'cls': cls, 'given': given, 'vecs': {given: v}, 'band': band_of(h),
                                        'tilt': f'{tx:g},{ty:g}', 'h': h})
                        n += 1
                    if given == 'x':
                        ctor_case(out, {'ctor': 'vec_to_angle', 'cls': 'Angle', 'given': 'x', 'band': band_of(h), 'tilt': f'{tx:g},{ty:g}',
                                        'vec': [h * tx, h * ty, pole * math.sqrt(max(0.0, 1.0 - h * h))], 'roll': [0.0, 33.0, -1e-14, 720.5][n % 4],
                                        'how': n})
    # directions away from the poles (horizontal, diagonal, random), single axis
    for _ in range(400 if thorough else 60):
        v = [rng.uniform(-1, 1) for _ in range(3)]
        if rng.random() < 0.3:
            v[rng.randrange(3)] = 0.0
        if sum(x * x for x in v) < 1e-3:
            continue
        v = unit(v)
        given = 'xyz'[n % 3]
        ln = LENGTHS[n % len(LENGTHS)]
        ctor_case(out, {'ctor': 'from_basis', 'cls': ROT_CLS[n % 4], 'given': given, 'vecs': {given: [x * ln for x in v]},
                        'band': 'far', 'tilt': 'random'})
        ctor_case(out, {'ctor': 'vec_to_angle', 'cls': 'Angle', 'given': 'x', 'band': 'far', 'tilt': 'random', 'vec': [x * ln for x in v],
                        'roll': rng.uniform(-400, 400), 'how': n})
        n += 1
    # two or three axes given: rows of a known rotation (near-pole and general), scaled to non-unit lengths
    for k in range(600 if thorough else 120):
        fl = ('pole', 'real', 'm15')[k % 3]
        ref = euler_to_mat(*gen_angle(rng, fl))
        for sub in ('xy', 'xz', 'yz', 'xyz'):
            vecs = {ax: [x * LENGTHS[(k + i) % len(LENGTHS)] for x in ref['xyz'.index(ax)]] for i, ax in enumerate(sub)}
            ctor_case(out, {'ctor': 'from_basis', 'cls': ROT_CLS[(k + len(sub)) % 4], 'given': sub, 'vecs': vecs, 'full': ref,
                            'band': fl, 'tilt': ''})
        if k % 4 == 0:
            ctor_case(out, {'ctor': 'to_angle_roll', 'cls': 'Angle', 'given': 'xz', 'full': ref, 'band': fl, 'tilt': ''})
    # axis_angle: directions incl. nearly vertical ones and non-unit lengths x angles incl. 0, tiny, half and full turns
    angles = [0.0, 1e-9, -1e-9, 15.0, 90.0, 180.0, 179.99999999, 359.999, -45.0, 720.5, 1e-3, 123.456]
    axes = [[1, 0, 0], [0, 1, 0], [0, 0, 1], [0, 0, -1], [-1, 0, 0], [3.0, -4.0, 12.0], [1e-5, 0.0, 0.0], [2e3, 2e3, -1e3]]
    axes += [[h * 0.6, h * 0.8, 1.0] for h in hs[::3]]
    for i, ax in enumerate(axes):
        for j, a in enumerate(angles):
            ctor_case(out, {'ctor': 'axis_angle', 'cls': ('Matrix', 'FrozenMatrix')[(i + j) % 2], 'axis': ax, 'angle': a, 'how': i + j,
                            'band': 'axis', 'tilt': ''})
    # single-axis rotations and the text constructor on reals, multiples of 15 and tiny offsets
    vals = [15.0 * k for k in range(-24, 49, 3)] + [x + s * e for x in (0.0, 90.0, 180.0, 270.0, 360.0) for e in (1e-12, 1e-9, 1e-6, 1e-3)
                                                   for s in (1, -1)] + [rng.uniform(-720, 720) for _ in range(40)]
    for i, a in enumerate(vals):
        ctor_case(out, {'ctor': ('from_yaw', 'from_pitch', 'from_roll')[i % 3], 'cls': ('Matrix', 'FrozenMatrix')[i % 2], 'angle': a,
                        'band': 'angle', 'tilt': ''})
    for i in range(300 if thorough else 90):
        fl = ('pole', 'real', 'm15')[i % 3]
        ctor_case(out, {'ctor': 'from_angstr', 'cls': ('Matrix', 'FrozenMatrix')[i % 2], 'vals': gen_angle(rng, fl), 'how': i, 'band': fl, 'tilt': ''})
    stats['constructor_cases'] = n
    stats['records'] = out.n


def mode_shapes(edge_file: str, out: hlib.RecWriter, stats: dict) -> None:
    edges = json.load(open(edge_file))
    seen = {}
    for e in edges:
        key = (e['start']['c'], tuple((s['f'], s['c']) for s in e['hist']))
        seen[key] = e['cur']['k'] == 'E'
    shapes = [{'start': k[0], 'steps': list(k[1]), 'err': seen[k]} for k in sorted(seen)]
    stats['shapes'] = len(shapes)
    rng = random.Random(hlib.seed() * 7919 + 4)
    thorough = hlib.tier() == 'thorough'
    mode_shapes_exact(shapes, out, rng, stats, 6 if thorough else 2)
    n_num = 0
    for rep in range(12 if thorough else 2):
        for shp in shapes:
            for flavour in ('real', 'm15', 'pole'):
                before = out.n
                num_expr(out, shp, rng, flavour)
                n_num += out.n - before
    # every multiple of 15 degrees on each axis, and seeded reals / near-pole values, as single rotations
    grid = [15.0 * k for k in range(24)]
    how = 0
    for p in grid:
        for y in grid:
            for r in (grid if thorough else grid[::3]):
                how += 1
                num_value_laws(out, [p, y, r], 'm15', how)
    for _ in range(20000 if thorough else 2500):
        how += 1
        fl = rng.choice(['real', 'pole', 'pole'])
        num_value_laws(out, gen_angle(rng, fl), fl, how)
    stats['numeric_records'] = out.n


def mode_replay(path: str, out: hlib.RecWriter) -> None:
    rep = json.load(open(path))
    rec = rep['record']
    h = rec.get('hist', {})
    if rec['k'] in ('step', 'final'):
        run_expr(h, out, rec['sig'].get('src', 'edge'), exp=rec.get('exp'))
    elif rec['k'] in ('fa', 'ta', 'inv'):
        func_records([tuple(t) for t in h['trip']], out, h['how'], 'replay')
    elif rec['k'] == 'num':
        buf = _Buf()
        buf.n = 0
        if 'ctor' in h:
            ctor_case(buf, h)
        elif 'vals' in h:
            num_value_laws(buf, h['vals'], rec['sig'].get('flavour', 'real'), h['how'])
        else:
            replay_num_expr(buf, h)
        for r in buf.recs:
            if r['law'] == rec['law']:
                out.write(r)
    else:
        raise SystemExit('cannot replay record kind ' + rec['k'])


def replay_num_expr(out, case: dict) -> None:
    class Fixed(random.Random):
        pass
    shp = {'start': case['start'][0], 'steps': [(f, c) for f, c, _ in case['steps']], 'err': case.get('err', False)}
    vals = [case['start'][1]] + [v for _, _, v in case['steps']]
    it = iter(vals)
    global gen_vec, gen_angle
    old = gen_vec, gen_angle
    rng = Fixed(0)
    rng.randrange = lambda *a, **k: case['how']      # `how` is the first draw of num_expr
    gen_vec = lambda _r: next(it)                    # noqa: E731
    gen_angle = lambda _r, _f: next(it)              # noqa: E731
    try:
        num_expr(out, shp, rng, case['flavour'])
    finally:
        gen_vec, gen_angle = old


def main() -> None:
    mode = sys.argv[1]
    stats: dict = {}
    out = hlib.RecWriter(sys.argv[-1])
    if mode == 'edges':
        mode_edges(sys.argv[2], out, stats)
    elif mode == 'funcs':
        mode_funcs(out, stats)
    elif mode == 'shapes':
        mode_shapes(sys.argv[2], out, stats)
    elif mode == 'ctors':
        mode_ctors(out, stats)
    elif mode == 'replay':
        mode_replay(sys.argv[2], out)
    else:
        raise SystemExit('unknown mode')
    out.close()
    stats['records'] = out.n
    print(json.dumps(stats))


main()
