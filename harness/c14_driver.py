"""C14 driver: DMX element graphs through export_binary / export_kv2 / parse and the KV1 bridge.

Modes
  edges <edges.json> <family> <out>   replay every TLC-enumerated transition of DmxGraph: builder
                                      steps on real Elements (k=build) and one export+parse per
                                      Export edge (k=rt)
  random <out>                        seeded random graphs far outside the model bounds (k=rt)
  kv1 <edges.json|-> <out>            KeyValues1 trees through from_kv1/to_kv1 (k=kv1)
  replay <replay.json> <out>          re-execute the case stored in a replay file

Python only runs srctools, projects (graph keyed by UUID symbol, values as symbols of a
concretisation table) and serialises.  The written bytes are additionally projected by readers of
the two formats written here from the format description (not srctools code): a binary walker and
a KeyValues2 scanner.  Every verdict comes from TLC (DmxGraphTrace).
"""
from __future__ import annotations

import io
import json
import random
import re
import struct
import sys
import uuid as uuidlib

from vlib import hlib

hlib.require_repo_src()
from srctools.dmx import (  # noqa: E402
    NULL, Attribute, Color, Element, Quaternion, StubElement, Time, ValueType, Vec2, Vec4,
)
from srctools.keyvalues import Keyvalues  # noqa: E402
from srctools.math import FrozenAngle, FrozenMatrix, FrozenVec, Matrix  # noqa: E402

# wire index of every value type, written down here independently of srctools' own table
T_ELEMENT, T_INT, T_FLOAT, T_BOOL, T_STRING, T_BINARY, T_TIME, T_COLOR = 1, 2, 3, 4, 5, 6, 7, 8
T_VEC2, T_VEC3, T_VEC4, T_ANGLE, T_QUAT, T_MATRIX = 9, 10, 11, 12, 13, 14
VT_OF = {
    T_ELEMENT: ValueType.ELEMENT, T_INT: ValueType.INT, T_FLOAT: ValueType.FLOAT, T_BOOL: ValueType.BOOL,
    T_STRING: ValueType.STRING, T_BINARY: ValueType.BINARY, T_TIME: ValueType.TIME, T_COLOR: ValueType.COLOR,
    T_VEC2: ValueType.VEC2, T_VEC3: ValueType.VEC3, T_VEC4: ValueType.VEC4, T_ANGLE: ValueType.ANGLE,
    T_QUAT: ValueType.QUATERNION, T_MATRIX: ValueType.MATRIX,
}
IND_OF = {v: k for k, v in VT_OF.items()}
FIXED = {T_INT: '<i', T_FLOAT: '<f', T_BOOL: '<B', T_TIME: '<i', T_COLOR: '<4B', T_VEC2: '<2f', T_VEC3: '<3f',
         T_VEC4: '<4f', T_ANGLE: '<3f', T_QUAT: '<4f', T_MATRIX: '<16f'}


# ------------------------------------------------------------------ canonical values
def canon(t: int, v) -> tuple:
    """A hashable canonical form of one (non-element) value, independent of the wrapper classes."""
    if t == T_INT:
        return ('i', int(v))
    if t == T_FLOAT:
        return ('f', float(v).hex())
    if t == T_BOOL:
        return ('b', bool(v))
    if t == T_STRING:
        return ('s', str(v))
    if t == T_BINARY:
        return ('y', bytes(v).hex())
    if t == T_TIME:
        return ('m', float(v.value if isinstance(v, Time) else v).hex())
    if t == T_COLOR:
        return ('c',) + tuple(int(x) for x in v)
    if t == T_MATRIX:
        if isinstance(v, (FrozenMatrix, Matrix)):
            v = [v[r, c] for r in range(3) for c in range(3)]
        return ('r',) + tuple(float(x).hex() for x in v)
    tag = {T_VEC2: 'w', T_VEC3: 'x', T_VEC4: 'z', T_ANGLE: 'g', T_QUAT: 'q'}[t]
    return (tag,) + tuple(float(x).hex() for x in v)


def make(t: int, c: tuple):
    """The srctools value for a canonical form."""
    body = c[1:]
    if t == T_INT:
        return int(body[0])
    if t == T_FLOAT:
        return float.fromhex(body[0])
    if t == T_BOOL:
        return bool(body[0])
    if t == T_STRING:
        return str(body[0])
    if t == T_BINARY:
        return bytes.fromhex(body[0])
    if t == T_TIME:
        return Time(float.fromhex(body[0]))
    if t == T_COLOR:
        return Color(*body)
    fl = [float.fromhex(x) for x in body]
    if t == T_VEC2:
        return Vec2(*fl)
    if t == T_VEC3:
        return FrozenVec(*fl)
    if t == T_VEC4:
        return Vec4(*fl)
    if t == T_ANGLE:
        return FrozenAngle(*fl)
    if t == T_QUAT:
        return Quaternion(*fl)
    if t == T_MATRIX:
        m = Matrix()
        for r in range(3):
            for col in range(3):
                m[r, col] = fl[3 * r + col]
        return m.freeze()
    raise ValueError(t)


class Table:
    """Concretisation table: symbol <-> concrete value (per type), symbol <-> text, symbol <-> UUID."""
    def __init__(self, dec6: bool = False) -> None:
        # dec6: numbers of the float-valued types are identified at six decimals, which is what the
        # property demands of the text encodings (used by the random tier for KeyValues2 cases)
        self.dec6 = dec6
        self.val: dict[str, tuple[int, tuple]] = {}     # symbol -> (type, canonical)
        self.rev: dict[tuple, str] = {}                 # (type, canonical) -> symbol
        self.text: dict[str, str] = {}                  # text symbol -> str
        self.trev: dict[str, str] = {}
        self.uid: dict[str, uuidlib.UUID] = {}
        self.urev: dict[uuidlib.UUID, str] = {}
        self.fresh = 0

    def key(self, t: int, c: tuple) -> tuple:
        """The form under which values are identified with symbols."""
        if self.dec6 and t in (T_FLOAT, T_VEC2, T_VEC3, T_VEC4, T_ANGLE, T_QUAT):
            out = []
            for h in c[1:]:
                txt = '%.6f' % float.fromhex(h)
                out.append('0.000000' if txt == '-0.000000' else txt)
            return (c[0],) + tuple(out)
        return c

    def add_val(self, sym: str, t: int, c: tuple) -> None:
        self.val[sym] = (t, c)
        self.rev.setdefault((t, self.key(t, c)), sym)
        if t == T_STRING:
            self.add_text(sym, c[1])

    def add_text(self, sym: str, s: str) -> None:
        self.text[sym] = s
        self.trev.setdefault(s, sym)

    def add_uuid(self, sym: str, u: uuidlib.UUID) -> None:
        self.uid[sym] = u
        self.urev[u] = sym

    def sym_val(self, t: int, v) -> str:
        c = canon(t, v)
        if t == T_STRING:
            return self.sym_text(c[1])
        return self.rev.get((t, self.key(t, c))) or '?' + repr(c)

    def sym_text(self, s: str) -> str:
        return self.trev.get(s) or '?' + repr(s)

    def sym_uuid(self, u: uuidlib.UUID) -> str:
        if u not in self.urev:
            self.fresh += 1
            self.urev[u] = f'new{self.fresh}'
        return self.urev[u]

    def nonascii(self) -> list[str]:
        return sorted(s for s, txt in self.text.items() if not txt.isascii())

    def dump(self, syms: set[str]) -> dict:
        return {
            'val': {s: [t, list(c)] for s, (t, c) in self.val.items() if s in syms},
            'text': {s: x for s, x in self.text.items() if s in syms},
            'uuid': {s: u.hex for s, u in self.uid.items() if s in syms},
            'dec6': self.dec6,
        }

    @classmethod
    def load(cls, d: dict) -> 'Table':
        tb = cls(d.get('dec6', False))
        for s, (t, c) in d['val'].items():
            tb.add_val(s, t, tuple(c))
        for s, x in d['text'].items():
            tb.add_text(s, x)
        for s, h in d['uuid'].items():
            tb.add_uuid(s, uuidlib.UUID(hex=h))
        return tb


def fh(x: float) -> str:
    return float(x).hex()


def f32(x: float) -> float:
    """The float32 nearest to x, as a double."""
    return struct.unpack('<f', struct.pack('<f', x))[0]


def wire_values() -> dict:
    """Values found by search, not listed by hand: representable in the wire type, yet not exact in
    double arithmetic on the way there.
      ticks   TIME is a count n of 1/10000 s; n / 10000.0 * 10000.0 lands one ulp below n for these n
              (so anything but rounding to nearest loses a tick); the first ones, one near 10^6, the
              largest one below 2^31, and the int32 bounds themselves
      f32     float32 values whose decimal spelling is not exact (0.1f read back as a double is
              0.10000000149011612), the first ones of j / 10, plus the largest, the smallest normal
              and the smallest subnormal float32"""
    ticks = []
    n = 1
    while len(ticks) < 12:
        if int(n / 10000.0 * 10000.0) != n:
            ticks.append(n)
        n += 1
    near = next(n for n in range(10 ** 6, 2 * 10 ** 6) if int(n / 10000.0 * 10000.0) != n)
    top = next(n for n in range(2 ** 31 - 1, 2 ** 31 - 10 ** 6, -1) if int(n / 10000.0 * 10000.0) != n)
    inexact = []
    j = 1
    while len(inexact) < 12:
        if f32(j / 10) != j / 10:
            inexact.append(f32(j / 10))
        j += 1
    return {'ticks': ticks, 'near': near, 'top': top, 'tmax': 2 ** 31 - 1, 'tmin': -2 ** 31,
            'f32': inexact, 'fmax': f32(3.4028234663852886e38), 'fnorm': f32(1.1754943508222875e-38),
            'fsub': f32(1.401298464324817e-45)}


WIRE = wire_values()


def model_table(seed: int, kind: str = 'both') -> Table:
    """Representatives of the model's symbols; the seed picks among several per symbol.
    kind 'both': numbers exact in float32, in 1/10000 (time) and in six decimals, so that every
    encoding must return them unchanged (builder steps).  Export cases use the table of their
    encoding: 'bin' - boundary values of each wire type and representable values whose conversion
    is inexact in double arithmetic (WIRE); 'kv2' - values the text keeps exactly (six decimals,
    integers of any size, repr for time and matrices) but no 32-bit wire type could."""
    tb = _base_table(seed)
    k = seed % 3
    pick = lambda *xs: xs[k % len(xs)]
    if kind == 'bin':
        W = WIRE
        fa, fb, fc, fd = W['f32'][k], -W['f32'][k + 3], pick(W['fmax'], W['fsub'], -W['fnorm']), W['f32'][k + 6]
        tb.add_val('m1', T_TIME, ('m', fh(pick(W['ticks'][0], -W['ticks'][4], W['top']) / 10000.0)))
        tb.add_val('m2', T_TIME, ('m', fh(pick(-W['ticks'][1], W['tmax'], W['tmin']) / 10000.0)))
        tb.add_val('f1', T_FLOAT, ('f', fh(fa)))
        tb.add_val('f2', T_FLOAT, ('f', fh(fc)))
        tb.add_val('w1', T_VEC2, ('w', fh(fa), fh(fb)))
        tb.add_val('x1', T_VEC3, ('x', fh(fb), fh(fc), fh(fd)))
        tb.add_val('z1', T_VEC4, ('z', fh(fd), fh(fa), fh(fb), fh(-fc)))
        tb.add_val('g1', T_ANGLE, ('g', fh(fa), fh(f32(359.9)), fh(fd)))
        tb.add_val('q1', T_QUAT, ('q', fh(fb), fh(fa), fh(fd), fh(f32(0.7))))
        tb.add_val('r1', T_MATRIX, ('r',) + tuple(fh(x) for x in (fa, fb, fc, fd, -fa, f32(1e-3), f32(123456.789), -fd, fb)))
        tb.add_val('i1', T_INT, ('i', pick(2147483647, -2147483647, 2147483646)))
        tb.add_val('c1', T_COLOR, ('c',) + pick((255, 0, 255, 0), (0, 255, 0, 255), (254, 1, 128, 127)))
    elif kind == 'kv2':
        d6 = lambda x: float('%.6f' % x)
        tb.add_val('m1', T_TIME, ('m', fh(pick(0.1 + 0.2, 1e-07, -123456.789012345))))
        tb.add_val('m2', T_TIME, ('m', fh(pick(-1 / 3, 2.0 ** 40 + 0.5, 0.0003))))
        tb.add_val('f1', T_FLOAT, ('f', fh(pick(0.1, -0.000001, 123456.654321))))
        tb.add_val('f2', T_FLOAT, ('f', fh(pick(-0.7, 99999.999999, 0.3))))
        tb.add_val('w1', T_VEC2, ('w', fh(0.1), fh(pick(-0.2, 0.000001, 1234.5678))))
        tb.add_val('x1', T_VEC3, ('x', fh(0.3), fh(-0.7), fh(d6(pick(1 / 3, 2 / 3, -1 / 7)))))
        tb.add_val('z1', T_VEC4, ('z', fh(0.1), fh(0.2), fh(0.3), fh(d6(pick(0.123456, -9.87654321, 1e-6)))))
        tb.add_val('g1', T_ANGLE, ('g', fh(0.1), fh(359.999999), fh(d6(pick(12.345678, 0.000001, 180.1)))))
        tb.add_val('q1', T_QUAT, ('q', fh(0.1), fh(-0.2), fh(0.3), fh(0.927362)))
        tb.add_val('r1', T_MATRIX, ('r',) + tuple(fh(x) for x in (0.1, 1 / 3, -2 / 3, 1e-9, 0.7, 123456789.123, -0.3, 5e-324, 1.0)))
        tb.add_val('i1', T_INT, ('i', pick(2 ** 40, -2 ** 63, 10 ** 20)))
    return tb


def _base_table(seed: int) -> Table:
    k = seed % 3
    tb = Table()
    pick = lambda *xs: xs[k % len(xs)]
    tb.add_val('i1', T_INT, ('i', pick(5, 2147483647, -1)))
    tb.add_val('i2', T_INT, ('i', pick(-7, -2147483648, 0)))
    tb.add_val('f1', T_FLOAT, ('f', fh(pick(1.5, -1024.015625, 0.0))))
    tb.add_val('f2', T_FLOAT, ('f', fh(pick(-0.25, 3.0, 65536.5))))
    tb.add_val('b1', T_BOOL, ('b', True))
    tb.add_val('b2', T_BOOL, ('b', False))
    tb.add_val('y1', T_BINARY, ('y', pick('0001ff', '', '00')))
    tb.add_val('y2', T_BINARY, ('y', pick('', 'deadbeef00', '0a0d22')))
    tb.add_val('m1', T_TIME, ('m', fh(pick(1.5, 0.0625, 100.0))))
    tb.add_val('m2', T_TIME, ('m', fh(pick(0.0, -2.25, 12.0625))))
    tb.add_val('c1', T_COLOR, ('c',) + pick((1, 2, 3, 4), (255, 0, 0, 255), (0, 0, 0, 0)))
    tb.add_val('c2', T_COLOR, ('c',) + pick((255, 255, 255, 255), (0, 128, 7, 1), (9, 8, 7, 6)))
    tb.add_val('w1', T_VEC2, ('w', fh(1.0), fh(pick(2.0, -0.5, 0.015625))))
    tb.add_val('w2', T_VEC2, ('w', fh(0.5), fh(-1.0)))
    tb.add_val('x1', T_VEC3, ('x', fh(1.0), fh(2.0), fh(pick(3.0, -3.25, 0.0))))
    tb.add_val('x2', T_VEC3, ('x', fh(-1.0), fh(0.5), fh(0.0)))
    tb.add_val('z1', T_VEC4, ('z', fh(1.0), fh(2.0), fh(3.0), fh(pick(4.0, 0.25, -8.0))))
    tb.add_val('z2', T_VEC4, ('z', fh(0.0), fh(0.0), fh(0.0), fh(0.5)))
    tb.add_val('g1', T_ANGLE, ('g', fh(10.0), fh(20.0), fh(pick(30.0, 350.5, 0.0))))
    tb.add_val('g2', T_ANGLE, ('g', fh(0.0), fh(90.0), fh(0.0)))
    tb.add_val('q1', T_QUAT, ('q', fh(0.0), fh(0.0), fh(0.0), fh(1.0)))
    tb.add_val('q2', T_QUAT, ('q', fh(0.5), fh(0.5), fh(pick(0.5, -0.5, 0.25)), fh(0.5)))
    tb.add_val('r1', T_MATRIX, ('r',) + tuple(fh(x) for x in pick(
        (1, 0, 0, 0, 1, 0, 0, 0, 1), (0, 1, 0, -1, 0, 0, 0, 0, 1), (0.5, 0.25, 0, 2, 1, -1, 0, 0, 4))))
    tb.add_val('r2', T_MATRIX, ('r',) + tuple(fh(x) for x in (0, 0, 1, 0, 1, 0, -1, 0, 0)))
    tb.add_val('sp1', T_STRING, ('s', pick('plain', 'models/props/x.mdl', ' ')))
    tb.add_val('sp2', T_STRING, ('s', pick('two words', ' lead and trail ', '0')))
    tb.add_val('sq1', T_STRING, ('s', pick('a"b\\c\n\td', 'say "hi"', 'back\\slash\\n')))
    tb.add_val('sq2', T_STRING, ('s', pick("it's {[x]},\r", 'line1\r\nline2', '\\')))
    tb.add_val('sU1', T_STRING, ('s', pick('hé€', 'straße', '日本')))
    tb.add_val('sU2', T_STRING, ('s', pick('x\U0001F600', 'ÿ', 'á"q')))
    for s, x in (('np1', 'root_elem'), ('np2', 'Child Two'), ('np3', 'third'), ('tp1', 'DmeThing'), ('tp2', 'DmElement'),
                 ('nq', pick('na"me\\', 'n\tq', 'q\n"')), ('nU', pick('näme', 'ж', 'n\U0001F600')),
                 ('tq', pick('Dme"T', 'T\\x', 'T y')), ('tU', pick('Dmé', 'ÜT', 'T€')),
                 ('aq', pick('at"tr', 'a\\t', 'a\rb')), ('aU', pick('attré', 'å', 'kü')),
                 ('nC', 'NameCased'), ('nE', ''), ('nR', pick('named again', 'Re-Added', 'r')),
                 ('Ax', pick('Alpha_x', 'Position', 'A')), ('bY', pick('betaY', 'mixedCase', 'b')),
                 ('Cz', pick('CamelZ', 'UPPER', 'Cc')), ('dW', pick('deltaW', 'lower_d', 'dd')), ('name', 'name')):
        tb.add_text(s, x)
    base = (0xC14 << 100) | (seed << 32)
    for n in range(1, 9):
        tb.add_uuid(f'u{n}', uuidlib.UUID(int=base + n))
        tb.add_uuid(f's{n}', uuidlib.UUID(int=base + 0x1000 + n))
    return tb


# ------------------------------------------------------------------ real objects
class World:
    """Real Elements for the model's element symbols, driven through the public mutators."""
    def __init__(self, tb: Table, g0: dict) -> None:
        self.tb = tb
        self.order = sorted(g0['el'])
        self.root = g0['root']
        self.el = {u: Element(tb.text[g0['el'][u]['name']], tb.text[g0['el'][u]['type']], tb.uid[u]) for u in self.order}
        self.stubs: dict[str, StubElement] = {}

    def target(self, r: dict):
        if r['k'] == 'null':
            return NULL
        if r['k'] == 'stub':
            if r['u'] not in self.stubs:
                self.stubs[r['u']] = StubElement.stub(self.tb.uid[r['u']])
            return self.stubs[r['u']]
        return self.el[r['u']]

    def attr_at(self, e: str, j: int) -> Attribute:
        return [a for key, a in self.el[e].items() if key != 'name'][j - 1]

    def value_attr(self, name: str, t: int, arr: bool, syms: list) -> Attribute:
        vals = [make(t, self.tb.val[s][1]) for s in syms]
        if arr:
            return Attribute.array(name, VT_OF[t], vals)
        v = vals[0]
        if t == T_INT:
            return Attribute.int(name, v)
        if t == T_FLOAT:
            return Attribute.float(name, v)
        if t == T_BOOL:
            return Attribute.bool(name, v)
        if t == T_STRING:
            return Attribute.string(name, v)
        if t == T_BINARY:
            return Attribute.binary(name, v)
        if t == T_TIME:
            return Attribute.time(name, v)
        if t == T_VEC2:
            return Attribute.vec2(name, v)
        if t == T_VEC3:
            return Attribute.vec3(name, v)
        if t == T_VEC4:
            return Attribute.vec4(name, v)
        if t == T_COLOR:
            return Attribute.color(name, v)
        if t == T_ANGLE:
            return Attribute.angle(name, v)
        if t == T_QUAT:
            return Attribute.quaternion(name, v)
        return Attribute(name, VT_OF[t], v)       # no classmethod for matrices

    def apply(self, a: dict) -> None:
        tb = self.tb
        op = a['op']
        if op == 'scalar_ref':
            self.el[a['e']][tb.text[a['n']]] = self.target(a['r'])
        elif op == 'ref_array':
            self.el[a['e']][tb.text[a['n']]] = Attribute.array(tb.text[a['n']], ValueType.ELEMENT)
        elif op == 'append_ref':
            self.attr_at(a['e'], a['j']).append(self.target(a['r']))
        elif op == 'value':
            name = tb.text[a['n']]
            self.el[a['e']][name] = self.value_attr(name, a['t'], a['arr'], a['v'])
        elif op == 'place':
            c = a['c']
            an, en, tn = ('aq', 'nq', 'tq') if c == 'q' else ('aU', 'nU', 'tU')
            p = a['place']
            if p == 'aname':
                self.el['u1'][tb.text[an]] = make(T_INT, tb.val['i1'][1])
            elif p == 'ename':
                self.el['u1'].name = tb.text[en]
            elif p == 'etype':
                self.el['u1'].type = tb.text[tn]
            elif p == 'ncase':
                self.el['u1']['Name'] = tb.text['nC']       # the name attribute, spelled "Name"
                self.el['u1'][tb.text[a['nn']]] = make(T_INT, tb.val['i1'][1])
            elif p == 'cname':
                self.el['u2'].name = tb.text[en]
                self.el['u1'][tb.text[a['nn']]] = self.el['u2']
            else:
                self.el['u2'].type = tb.text[tn]
                self.el['u1'][tb.text[a['nn']]] = self.el['u2']
        elif op == 'nameplace':
            p = a['place']
            root, kid = self.el['u1'], self.el['u2']
            target = root if p[0] == 'r' else kid
            # the three public ways to take the name attribute out of the mapping
            if p in ('rdel', 'cdel', 'readd'):
                del target['name']
            elif p in ('rpop', 'rreadd', 'creadd'):
                target.pop('name')
            else:
                target.clear()
            if p in ('rdel', 'readd'):
                root[tb.text[a['nn']]] = make(T_INT, tb.val['i1'][1])
            else:
                kid[tb.text['Ax']] = make(T_INT, tb.val['i2'][1])
                root[tb.text[a['nn']]] = kid
            if p in ('readd', 'rreadd', 'creadd'):
                target.name = tb.text['nR']          # a member again, now behind the other attributes
        else:
            raise ValueError(op)

    def project(self) -> dict:
        return {'root': self.root, 'el': {u: proj_elem(self.el[u], self.tb) for u in self.order}}


ITER_OF = {T_ELEMENT: 'iter_elem', T_INT: 'iter_int', T_FLOAT: 'iter_float', T_BOOL: 'iter_bool', T_STRING: 'iter_str',
           T_BINARY: 'iter_bytes', T_TIME: 'iter_time', T_COLOR: 'iter_color', T_VEC2: 'iter_vec2', T_VEC3: 'iter_vec3',
           T_VEC4: 'iter_vec4', T_ANGLE: 'iter_angle', T_QUAT: 'iter_quat', T_MATRIX: 'iter_mat'}


def attr_values(a: Attribute) -> list:
    """The values of an attribute (one for a scalar) through its public typed iterator of its own type."""
    return list(getattr(a, ITER_OF[IND_OF[a.type]])())


def proj_ref(e: Element, tb: Table) -> dict:
    if e is NULL or e.is_null:
        return {'k': 'null', 'u': ''}
    if e.is_stub:
        return {'k': 'stub', 'u': tb.sym_uuid(e.uuid)}
    return {'k': 'e', 'u': tb.sym_uuid(e.uuid)}


def proj_elem(e: Element, tb: Table) -> dict:
    attrs = []
    for key, a in e.items():
        if key == 'name':
            continue
        t = IND_OF[a.type]
        raw = attr_values(a)
        if t == T_ELEMENT:
            v = [proj_ref(x, tb) for x in raw]
        else:
            v = [tb.sym_val(t, x) for x in raw]
        attrs.append({'n': tb.sym_text(a.name), 't': t, 'arr': a.is_array, 'v': v})
    return {'type': tb.sym_text(e.type), 'name': tb.sym_text(e.name), 'attrs': attrs}


def proj_graph(root: Element, tb: Table) -> dict:
    """Walk everything reachable from the parsed root; identity of objects, not of UUIDs, decides
    what one element is (two objects with one UUID would show up as a clash)."""
    seen: dict[int, str] = {}
    el: dict[str, dict] = {}
    todo = [root]
    while todo:
        e = todo.pop()
        if id(e) in seen:
            continue
        sym = tb.sym_uuid(e.uuid)
        if sym in el:
            sym = sym + '#dup%d' % len(el)
        seen[id(e)] = sym
        el[sym] = proj_elem(e, tb)
        for key, a in e.items():
            if a.type is ValueType.ELEMENT:
                for x in attr_values(a):
                    if not isinstance(x, StubElement):
                        todo.append(x)
    return {'root': seen[id(root)], 'el': el}


def build_direct(g: dict, tb: Table, nameops: dict | None = None) -> Element:
    """Real Elements for a symbolic graph (random tier and replays).  nameops: element -> how its
    name attribute is taken out of the mapping ('del', 'pop', 'clear'; the graph then says name "")
    or 'readd' (taken out, set again after the other attributes: same name, other position)."""
    w = World(tb, g)
    nameops = nameops or {}
    for u, how in nameops.items():
        if how == 'clear':
            w.el[u].clear()
        elif how == 'pop':
            w.el[u].pop('name')
        else:
            del w.el[u]['name']
    for u in w.order:
        for a in g['el'][u]['attrs']:
            name = tb.text[a['n']]
            if a['t'] == T_ELEMENT:
                if a['arr']:
                    w.el[u][name] = Attribute.array(name, ValueType.ELEMENT, [w.target(r) for r in a['v']])
                else:
                    w.el[u][name] = w.target(a['v'][0])
            else:
                w.el[u][name] = w.value_attr(name, a['t'], a['arr'], a['v'])
    for u, how in nameops.items():
        if how == 'readd':
            w.el[u].name = tb.text[g['el'][u]['name']]
    return w.el[g['root']]


# ------------------------------------------------------------------ independent readers
class Walk(Exception):
    """The bytes are not a file of the format; .code names the class of the problem."""
    def __init__(self, msg: str, code: str = 'format') -> None:
        super().__init__(msg)
        self.code = code


def walk_binary(data: bytes, ver: int, utf8: bool, tb: Table) -> dict:
    """Reader of the binary DMX layout, written from the format description: header line, string
    table (v2+), element table, attribute records.  Type byte 1..14 scalar, 15..28 array."""
    enc = 'utf8' if utf8 else 'ascii'
    pos = 0

    def take(n: int) -> bytes:
        nonlocal pos
        if pos + n > len(data):
            raise Walk(f'truncated at {pos}+{n}')
        b = data[pos:pos + n]
        pos += n
        return b

    def i32() -> int:
        return struct.unpack('<i', take(4))[0]

    def i16() -> int:
        return struct.unpack('<h', take(2))[0]

    def cstr() -> str:
        nonlocal pos
        end = data.find(b'\0', pos)
        if end < 0:
            raise Walk(f'unterminated string at {pos}')
        s = data[pos:end].decode(enc)
        pos = end + 1
        return s

    m = re.match(rb'<!-- dmx encoding (unicode_)?binary (\d+) format \S+ \d+ -->\n\0', data)
    if not m or int(m.group(2)) != ver:
        raise Walk('bad header')
    pos = m.end()
    strings = None
    if ver >= 2:
        n = i32() if ver >= 4 else i16()
        strings = [cstr() for _ in range(n)]
    sidx = (lambda: strings[i32()]) if ver >= 5 else (lambda: strings[i16()])
    n_el = i32()
    if not 0 <= n_el < 100000:
        raise Walk(f'element count {n_el}')
    elems = []
    for _ in range(n_el):
        typ = sidx() if ver >= 2 else cstr()
        name = sidx() if ver >= 4 else cstr()
        u = uuidlib.UUID(bytes_le=take(16))
        elems.append({'type': tb.sym_text(typ), 'name': tb.sym_text(name), 'u': tb.sym_uuid(u)})
    attrs = []
    for _ in range(n_el):
        n_at = i32()
        if not 0 <= n_at < 100000:
            raise Walk(f'attribute count {n_at}')
        recs = []
        for _ in range(n_at):
            name = sidx() if ver >= 2 else cstr()
            code = take(1)[0]
            if not 1 <= code <= 28:
                raise Walk(f'type byte {code}')
            arr = code > 14
            t = code - 14 if arr else code
            cnt = i32() if arr else -1
            n = cnt if arr else 1
            if not 0 <= n < 1000000:
                raise Walk(f'array count {n}')
            vals = []
            for _ in range(n):
                if t == T_ELEMENT:
                    ind = i32()
                    if ind == -2:
                        try:
                            su = tb.sym_uuid(uuidlib.UUID(cstr()))
                        except (ValueError, Walk):
                            raise Walk(f'stub reference without UUID text at {pos}', 'stub_no_uuid') from None
                        vals.append({'i': -2, 'u': su})
                    else:
                        if not -1 <= ind < n_el:
                            raise Walk(f'element index {ind}')
                        vals.append({'i': ind, 'u': ''})
                elif t == T_STRING:
                    vals.append(tb.sym_text(sidx() if (ver >= 4 and not arr) else cstr()))
                elif t == T_BINARY:
                    ln = i32()
                    if ln < 0:
                        raise Walk('negative blob length')
                    vals.append(tb.sym_val(t, take(ln)))
                else:
                    st = struct.Struct(FIXED[t])
                    raw = st.unpack(take(st.size))
                    if t == T_INT:
                        v = raw[0]
                    elif t == T_FLOAT:
                        v = raw[0]
                    elif t == T_BOOL:
                        if raw[0] not in (0, 1):
                            raise Walk(f'bool byte {raw[0]}')
                        v = bool(raw[0])
                    elif t == T_TIME:
                        v = raw[0] / 10000.0
                    elif t == T_MATRIX:
                        v = [raw[0], raw[1], raw[2], raw[4], raw[5], raw[6], raw[8], raw[9], raw[10]]
                    else:
                        v = raw
                    vals.append(tb.sym_val(t, v))
            recs.append({'n': tb.sym_text(name), 'code': code, 'cnt': cnt, 'v': vals})
        attrs.append(recs)
    if pos != len(data):
        raise Walk(f'{len(data) - pos} trailing bytes', 'trailing')
    return {'err': '', 'strings': [tb.sym_text(s) for s in (strings or [])], 'elems': elems, 'attrs': attrs}


def scan_kv2(data: bytes, utf8: bool, tb: Table) -> dict:
    """Scanner of the KeyValues2 text: which elements stand at top level (by their "id") and how
    many "id" "elementid" lines the file has."""
    text = data.decode('utf8' if utf8 else 'ascii')
    m = re.match(r'<!-- dmx encoding (unicode_)?keyvalues2 \d+ format \S+ \d+ -->', text)
    if not m:
        raise Walk('bad header')
    toks: list = []
    i = m.end()
    n = len(text)
    while i < n:
        ch = text[i]
        if ch in ' \t\r\n':
            i += 1
        elif ch in '{}[],':
            toks.append(ch)
            i += 1
        elif ch == '"':
            j = i + 1
            while j < n and text[j] != '"':
                j += 2 if text[j] == '\\' else 1
            if j >= n:
                raise Walk('unterminated string')
            toks.append(('s', text[i + 1:j]))
            i = j + 1
        else:
            raise Walk(f'stray character {ch!r}')
    p = 0
    ids = 0

    def nxt():
        nonlocal p
        if p >= len(toks):
            raise Walk('unexpected end')
        p += 1
        return toks[p - 1]

    def body() -> str:
        """Element body after its type string; returns the id written directly inside ('' if none)."""
        nonlocal p, ids
        if nxt() != '{':
            raise Walk('expected {')
        my_id = ''
        while True:
            t = nxt()
            if t == '}':
                return my_id
            if not isinstance(t, tuple):
                raise Walk(f'expected attribute name, got {t}')
            typ = nxt()
            if not isinstance(typ, tuple):
                raise Walk('expected type string')
            if p < len(toks) and toks[p] == '{':
                body()                       # inline element: typ was its type
            elif p < len(toks) and toks[p] == '[':
                p += 1
                while True:
                    it = nxt()
                    if it == ']':
                        break
                    if it == ',':
                        continue
                    if not isinstance(it, tuple):
                        raise Walk(f'bad array item {it}')
                    if typ[1] == 'element_array':
                        if p < len(toks) and toks[p] == '{':
                            body()
                        else:
                            nxt()            # "element" "<uuid>"
            else:
                val = nxt()
                if not isinstance(val, tuple):
                    raise Walk('expected value')
                if t[1] == 'id' and typ[1] == 'elementid':
                    ids += 1
                    my_id = tb.sym_uuid(uuidlib.UUID(val[1]))
    top = []
    while p < len(toks):
        t = nxt()
        if not isinstance(t, tuple):
            raise Walk(f'top level token {t}')
        top.append(body())
    return {'err': '', 'top': top, 'nid': ids}


# ------------------------------------------------------------------ one round trip
def features(g: dict, enc: dict, tb: Table) -> dict:
    """Abstract parameters of a case, used only to match known findings."""
    na = set(tb.nonascii())
    f = {'has_stub': False, 'scalar14': False, 'na_strarr': False, 'na_type': False, 'esc_aname': False,
         'ncase': False, 'has_time': False}
    for u, e in g['el'].items():
        if e['type'] in na:
            f['na_type'] = True
        if e['name'] == 'nC':
            f['ncase'] = True
        for a in e['attrs']:
            if a['t'] == T_ELEMENT and any(r['k'] == 'stub' for r in a['v']):
                f['has_stub'] = True
            if a['t'] == T_MATRIX and not a['arr']:
                f['scalar14'] = True
            if a['t'] == T_TIME:
                f['has_time'] = True
            if a['t'] == T_STRING and a['arr'] and any(s in na for s in a['v']):
                f['na_strarr'] = True
            if any(ch in tb.text.get(a['n'], '') for ch in '"\\\r'):
                f['esc_aname'] = True
    return f


def round_trip(root: Element, g: dict, enc: dict, uni: str, tb: Table, src: str) -> dict:
    buf = io.BytesIO()
    exp = 'ok'
    try:
        if enc['kind'] == 'bin':
            root.export_binary(buf, version=enc['ver'], unicode=uni)
        else:
            root.export_kv2(buf, flat=enc['flat'], cull_uuid=enc['cull'], unicode=uni)
    except Exception as exc:  # noqa: BLE001 - the outcome is data for the specification
        exp = type(exc).__name__
    data = buf.getvalue()
    file: dict = {'err': '-'}
    walk = ''
    parse = '-'
    restable = True
    out: object = 0
    if exp == 'ok':
        try:
            if enc['kind'] == 'bin':
                file = walk_binary(data, enc['ver'], uni != 'ascii', tb)
            else:
                file = scan_kv2(data, uni != 'ascii', tb)
        except (Walk, UnicodeDecodeError, IndexError, ValueError, struct.error) as exc:
            file = {'err': f'{type(exc).__name__}: {exc}'}
            walk = getattr(exc, 'code', type(exc).__name__)
        try:
            parsed, _, _ = Element.parse(io.BytesIO(data), unicode=(uni == 'silent'))
            parse = 'ok'
            out = proj_graph(parsed, tb)
            # exporting what was parsed must give the same file again
            try:
                buf2 = io.BytesIO()
                if enc['kind'] == 'bin':
                    parsed.export_binary(buf2, version=enc['ver'], unicode=uni)
                else:
                    parsed.export_kv2(buf2, flat=enc['flat'], cull_uuid=enc['cull'], unicode=uni)
                restable = buf2.getvalue() == data
            except Exception:  # noqa: BLE001
                restable = False
        except Exception as exc:  # noqa: BLE001
            parse = type(exc).__name__
    sig = {'kind': enc['kind'], 'action': 'rt', 'ver': enc['ver'], 'flat': enc['flat'], 'cull': enc['cull'],
           'uni': uni, 'src': src, 'exp': exp, 'parse': parse, 'walk': walk}
    sig.update(features(g, enc, tb))
    return {'k': 'rt', 'restable': restable, 'g': g, 'na': tb.nonascii(), 'enc': enc, 'uni': uni, 'exp': exp, 'parse': parse,
            'file': file, 'out': out, 'sig': sig}


# ------------------------------------------------------------------ modes
def replay_edges(edge_file: str, out: hlib.RecWriter, stats: dict) -> None:
    edges = [e for e in json.load(open(edge_file)) if e.get('tag') == 'EDGE']
    key = lambda s: json.dumps(s, sort_keys=True)
    init = next(e['s'] for e in edges if all(not x['attrs'] for x in e['s']['g']['el'].values())
                and e['a']['op'] != 'export')
    paths = hlib.bfs_paths([e for e in edges if e['a']['op'] != 'export'], key, key(init))
    seed = hlib.seed()
    for e in edges:
        a = e['a']
        tkind = a['enc']['kind'] if a['op'] == 'export' else 'both'
        tb = model_table(seed, tkind)
        g0 = init['g']
        w = World(tb, g0)
        path = paths[key(e['s'])]
        for pa in path:
            w.apply(pa)
        if a['op'] == 'export':
            g = w.project()
            if g != e['s']['g']:
                stats['pre_state_diverged'] = stats.get('pre_state_diverged', 0) + 1
            rec = round_trip(w.el[w.root], e['s']['g'], a['enc'], a['uni'], tb, 'edge')
            rec['hist'] = path
            rec['seed'] = seed
            rec['tkind'] = tkind
            out.write(rec)
            stats['exports'] = stats.get('exports', 0) + 1
        else:
            pre = w.project()
            w.apply(a)
            out.write({'k': 'build', 'pre': pre, 'a': a, 'post': w.project(), 'hist': path + [a], 'seed': seed,
                       'sig': {'kind': 'build', 'action': a['op'], 'src': 'edge'}})
            stats['builds'] = stats.get('builds', 0) + 1


ALL_ENCS = ([{'kind': 'bin', 'ver': v, 'flat': False, 'cull': False} for v in (1, 2, 3, 4, 5)]
            + [{'kind': 'kv2', 'ver': 0, 'flat': f, 'cull': c} for f in (False, True) for c in (False, True)])


def random_value(rng: random.Random, t: int, kind: str) -> tuple:
    """A canonical value exactly representable in the encoding class ('bin': float32/int32/1e-4
    time, 'kv2': six decimals, 'both')."""
    def fl() -> float:
        if kind == 'bin' and rng.random() < 0.5:
            return struct.unpack('<f', struct.pack('<f', rng.uniform(-1e6, 1e6)))[0]
        if kind == 'kv2' and rng.random() < 0.5:
            # more digits than the text keeps, at least 0.2e-6 away from a rounding tie
            return rng.randint(-5 * 10 ** 9, 5 * 10 ** 9) / 1e6 + rng.uniform(-0.3e-6, 0.3e-6)
        return rng.randint(-2 ** 20, 2 ** 20) / 64.0
    if t == T_INT:
        return ('i', rng.choice([0, 1, -1, 2147483647, -2147483648, rng.randint(-2 ** 31, 2 ** 31 - 1)]))
    if t == T_FLOAT:
        return ('f', fh(fl()))
    if t == T_BOOL:
        return ('b', rng.random() < 0.5)
    if t == T_BINARY:
        return ('y', bytes(rng.randrange(256) for _ in range(rng.choice([0, 1, 3, 17, 300]))).hex())
    if t == T_TIME:
        if kind == 'kv2' and rng.random() < 0.5:
            return ('m', fh(float('%.6f' % rng.uniform(0, 5000))))
        if kind == 'bin':       # any tick count of the wire type, the inexact-in-double ones and the bounds included
            n = rng.choice([rng.choice(WIRE['ticks']), -rng.choice(WIRE['ticks']), WIRE['near'], WIRE['top'], WIRE['tmax'], WIRE['tmin'],
                            rng.randint(-2 ** 31, 2 ** 31 - 1), rng.randint(-10 ** 5, 10 ** 5)])
            return ('m', fh(n / 10000.0))
        return ('m', fh(rng.randint(-10 ** 6, 10 ** 6) / 16.0))
    if t == T_COLOR:
        return ('c',) + tuple(rng.randrange(256) for _ in range(4))
    if t == T_ANGLE:
        return ('g',) + tuple(fh(rng.randint(0, 360 * 64 - 1) / 64.0) for _ in range(3))
    n = {T_VEC2: 2, T_VEC3: 3, T_VEC4: 4, T_QUAT: 4, T_MATRIX: 9}[t]
    tag = {T_VEC2: 'w', T_VEC3: 'x', T_VEC4: 'z', T_QUAT: 'q', T_MATRIX: 'r'}[t]
    return (tag,) + tuple(fh(fl() + 0.0) for _ in range(n))


TEXT_POOL_ASCII = ['a', 'Name2', 'models/x.mdl', 'with space', '', 'UPPER', 'tail ', '0', 'x' * 300, "it's", '{[()]}',
                   'a,b', 'semi;colon', '//not a comment', '/* x */', '#hash', '%', 'tab\there', 'nl\nhere', 'q"uote',
                   'back\\slash', 'cr\rhere', 'crlf\r\nx', '\\n literal', 'bell\a', 'vt\vx', 'ff\fx', 'bs\bx', '?', "sq'"]
TEXT_POOL_UNI = ['hé', '日本語', 'x\U0001F600y', 'ÿ', 'straße', 'á', ' sep', 'q"é\\']
NAME_POOL = ['Alpha', 'beta', 'GAMMA', 'deltaFour', 'e5', 'Position', 'children', 'value', 'subkeys2', 'k_9', 'Mixed_Case',
             'x', 'Y', 'zz', 'thing one', 'id2', 'element2', 'int_x']
TYPE_POOL = ['DmElement', 'DmeModel', 'DmeThing', 'T', 'Dme Space', 'dme_lower', 'X9']


def random_cases(out: hlib.RecWriter, rng: random.Random, n_cases: int, stats: dict) -> None:
    for ci in range(n_cases):
        enc = rng.choice(ALL_ENCS)
        uni = rng.choice(['ascii', 'ascii', 'format', 'silent'])
        # at most one feature of a known finding per case, and none in 70 % of them
        risk = rng.choice(['none'] * 7 + ['stub', 'scalar14', 'na_strarr', 'na_type', 'esc_aname'])
        tb = Table(dec6=enc['kind'] == 'kv2')
        tb.add_text('name', 'name')      # the binary string table always holds this word
        counter = [0]

        def text_sym(s: str) -> str:
            if s in tb.trev:
                return tb.trev[s]
            counter[0] += 1
            sym = f't{counter[0]}'
            tb.add_val(sym, T_STRING, ('s', s))
            return sym

        def val_sym(t: int, c: tuple) -> str:
            if t == T_STRING:
                return text_sym(c[1])
            k = (t, tb.key(t, c))
            if k in tb.rev:
                return tb.rev[k]
            counter[0] += 1
            sym = f'v{counter[0]}'
            tb.add_val(sym, t, c)
            return sym
        n_el = rng.choice([1, 2, 3, 5, 8, 13, 25])
        us = [f'u{i}' for i in range(1, n_el + 1)]
        base = rng.getrandbits(100) << 20
        for i, u in enumerate(us):
            tb.add_uuid(u, uuidlib.UUID(int=base + i + 1))
        stub_syms = [f's{i}' for i in (1, 2)]
        for i, s in enumerate(stub_syms):
            tb.add_uuid(s, uuidlib.UUID(int=base + 5000 + i))
        allow_uni = uni != 'ascii' or (risk == 'none' and rng.random() < 0.15)   # ascii + other text must be refused
        pool = TEXT_POOL_ASCII + (TEXT_POOL_UNI if allow_uni else [])
        kind = enc['kind']
        el = {}
        for u in us:
            ty = rng.choice(TYPE_POOL)
            if risk == 'na_type' and allow_uni and rng.random() < 0.2:
                ty = rng.choice(TEXT_POOL_UNI)
            names = rng.sample(NAME_POOL, rng.randint(0, 6))
            attrs = []
            for nm in names:
                if risk == 'esc_aname' and enc['kind'] == 'kv2' and rng.random() < 0.1:
                    nm = rng.choice(['q"n', 'b\\n', 'c\rn']) + nm
                elif allow_uni and rng.random() < 0.1:
                    nm = nm + rng.choice(['é', 'ß', 'Ж'])
                r = rng.random()
                arr = rng.random() < 0.45
                ln = rng.choice([0, 1, 2, 3, 7]) if arr else 1
                if r < 0.4:
                    refs = []
                    for _ in range(ln):
                        q = rng.random()
                        if q < 0.12:
                            refs.append({'k': 'null', 'u': ''})
                        elif q < 0.17 and risk == 'stub':
                            refs.append({'k': 'stub', 'u': rng.choice(stub_syms)})
                        else:
                            refs.append({'k': 'e', 'u': rng.choice(us)})
                    attrs.append({'n': text_sym(nm), 't': T_ELEMENT, 'arr': arr, 'v': refs})
                    continue
                t = rng.choice([T_INT, T_FLOAT, T_BOOL, T_STRING, T_STRING, T_BINARY, T_TIME, T_COLOR, T_VEC2, T_VEC3,
                                T_VEC4, T_ANGLE, T_QUAT, T_MATRIX])
                if t == T_MATRIX and not arr and kind == 'bin' and risk != 'scalar14':
                    arr, ln = True, 1
                if t == T_STRING:
                    vals = []
                    for _ in range(ln):
                        s = rng.choice(pool)
                        if arr and kind == 'bin' and not s.isascii() and risk != 'na_strarr':
                            s = 'ascii only'
                        vals.append(text_sym(s))
                else:
                    vals = [val_sym(t, random_value(rng, t, kind)) for _ in range(ln)]
                attrs.append({'n': text_sym(nm), 't': t, 'arr': arr, 'v': vals})
            el[u] = {'type': text_sym(ty), 'name': text_sym(rng.choice(pool)), 'attrs': attrs}
        nameops = {}
        for u in us:
            if rng.random() < 0.2:       # the name attribute is an optional member like any other
                nameops[u] = rng.choice(['del', 'pop', 'clear', 'readd'])
                if nameops[u] != 'readd':
                    el[u]['name'] = text_sym('')
        g = {'root': 'u1', 'el': el}
        root = build_direct(g, tb, nameops)
        rec = round_trip(root, g, enc, uni, tb, 'random')
        rec['nameops'] = nameops
        syms = set(tb.val) | set(tb.text) | set(tb.uid)
        rec['conc'] = tb.dump(syms)
        out.write(rec)
        stats['random'] = stats.get('random', 0) + 1


# ------------------------------------------------------------------ KeyValues1 bridge
def kv_build(t: dict) -> Keyvalues:
    if t['root']:
        kv = Keyvalues.root()
        for c in t['ch']:
            kv.append(kv_build(c))
        return kv
    if t['leaf']:
        return Keyvalues(t['n'], t['val'])
    return Keyvalues(t['n'], [kv_build(c) for c in t['ch']])


def kv_proj(kv: Keyvalues) -> dict:
    if kv.has_children():
        return {'n': '' if kv.is_root() else kv.real_name, 'leaf': False, 'val': '', 'root': bool(kv.is_root()),
                'ch': [kv_proj(c) for c in kv]}
    return {'n': kv.real_name, 'leaf': True, 'val': kv.value, 'root': False, 'ch': []}


def elem_proj(e: Element) -> dict:
    attrs = []
    sub = []
    has_sub = False
    for key, a in e.items():
        if key == 'name':
            continue
        if a.name == 'subkeys' and a.type is ValueType.ELEMENT and a.is_array:
            has_sub = True
            sub = [elem_proj(x) for x in a.iter_elem()]
        else:
            attrs.append({'n': a.name, 'val': a.val_str if a.type is ValueType.STRING and not a.is_array else repr(attr_values(a))})
    return {'type': e.type, 'name': e.name, 'attrs': attrs, 'hasSub': has_sub, 'sub': sub}


def tree_names(t: dict, acc: set) -> set:
    acc.add(t['n'])
    for c in t['ch']:
        tree_names(c, acc)
    return acc


def kv1_record(t: dict, src: str, via: dict | None) -> dict:
    fold = {n: n.casefold() for n in tree_names(t, set()) if n}
    fold['-'] = '-'
    sig = {'kind': 'kv1', 'action': 'kv1', 'src': src, 'via': via['kind'] if via else 'memory'}
    try:
        return _kv1_record(t, via, fold, sig)
    except Exception as exc:  # noqa: BLE001 - outcome is data
        return {'k': 'kv1', 't': t, 'fold': fold, 'elem': 0, 'back': 0, 'exc': type(exc).__name__, 'sig': sig}


def _kv1_record(t: dict, via: dict | None, fold: dict, sig: dict) -> dict:
    kv = kv_build(t)
    elem = Element.from_kv1(kv)
    proj = elem_proj(elem)
    if via is not None:
        buf = io.BytesIO()
        if via['kind'] == 'bin':
            elem.export_binary(buf, version=via['ver'], unicode='format')
        else:
            elem.export_kv2(buf, flat=via['flat'], cull_uuid=via['cull'], unicode='format')
        buf.seek(0)
        elem = Element.parse(buf)[0]
    back = kv_proj(elem.to_kv1())
    return {'k': 'kv1', 't': t, 'fold': fold, 'elem': proj, 'back': back, 'exc': '', 'sig': sig}


def kv1_cases(edge_file: str, out: hlib.RecWriter, rng: random.Random, stats: dict) -> None:
    if edge_file != '-':
        for e in json.load(open(edge_file)):
            if e.get('tag') == 'EDGE':
                out.write(kv1_record(e['t']['t'], 'edge', None))
                stats['kv1_edges'] = stats.get('kv1_edges', 0) + 1
    names = ['a', 'A', 'b', 'name', 'Name', 'subkeys', 'value', 'id', 'long key', 'k"q', 'straße', 'STRASSE', 'x1', 'x2']
    vals = ['v', '', 'two words', 'q"uote', 'nl\nx', 'hé', '1.5', 'back\\slash']

    def rand_tree(depth: int, root: bool) -> dict:
        if not root and (depth == 0 or rng.random() < 0.5):
            return {'n': rng.choice(names), 'leaf': True, 'val': rng.choice(vals), 'root': False, 'ch': []}
        return {'n': '' if root else rng.choice(names), 'leaf': False, 'val': '', 'root': root,
                'ch': [rand_tree(depth - 1, False) for _ in range(rng.choice([0, 1, 2, 3, 5]))]}
    for ci in range(400 if hlib.tier() == 'thorough' else 120):
        t = rand_tree(rng.choice([1, 2, 3, 4]), rng.random() < 0.3)
        via = rng.choice([None, None] + [e for e in ALL_ENCS if not (e['kind'] == 'kv2' and e['cull'])])
        if via is not None and via['kind'] == 'kv2' and any('"' in n for n in tree_names(t, set())):
            via = None      # attribute names needing escapes are a separate (known) text-format defect
        out.write(kv1_record(t, 'random', via))
        stats['kv1_random'] = stats.get('kv1_random', 0) + 1


def main() -> None:
    mode = sys.argv[1]
    stats: dict = {}
    if mode == 'edges':
        out = hlib.RecWriter(sys.argv[3])
        replay_edges(sys.argv[2], out, stats)
    elif mode == 'random':
        out = hlib.RecWriter(sys.argv[2])
        rng = random.Random(hlib.seed() * 7919 + 14)
        random_cases(out, rng, 3000 if hlib.tier() == 'thorough' else 400, stats)
    elif mode == 'kv1':
        out = hlib.RecWriter(sys.argv[3])
        kv1_cases(sys.argv[2], out, random.Random(hlib.seed() * 104729 + 14), stats)
    elif mode == 'replay':
        rp = json.load(open(sys.argv[2]))
        rec = rp['record']
        out = hlib.RecWriter(sys.argv[3])
        if rec['k'] == 'rt':
            tb = Table.load(rec['conc']) if 'conc' in rec else model_table(rec.get('seed', 0), rec.get('tkind', 'both'))
            if 'hist' in rec and 'conc' not in rec:
                # a model case: rebuild it through the same public calls, from the model's initial graph
                g0 = {'root': rec['g']['root'],
                      'el': {u: {'name': {'u1': 'np1', 'u2': 'np2'}.get(u, 'np3'), 'type': 'tp2' if u == 'u2' else 'tp1', 'attrs': []}
                             for u in rec['g']['el']}}
                w = World(tb, g0)
                for a in rec['hist']:
                    w.apply(a)
                root = w.el[w.root]
            else:
                root = build_direct(rec['g'], tb, rec.get('nameops'))
            new = round_trip(root, rec['g'], rec['enc'], rec['uni'], tb, rp.get('src', 'replay'))
            out.write(new)
        elif rec['k'] == 'build':
            tb = model_table(rec.get('seed', 0))
            g0 = {'root': rec['pre']['root'], 'el': {u: dict(e, attrs=[]) for u, e in rec['pre']['el'].items()}}
            # names/types of the initial graph are those of the model
            for u in g0['el']:
                g0['el'][u]['name'] = {'u1': 'np1', 'u2': 'np2'}.get(u, 'np3')
                g0['el'][u]['type'] = 'tp2' if u == 'u2' else 'tp1'
            w = World(tb, g0)
            for a in rec['hist'][:-1]:
                w.apply(a)
            pre = w.project()
            w.apply(rec['hist'][-1])
            out.write({'k': 'build', 'pre': pre, 'a': rec['a'], 'post': w.project(),
                       'sig': {'kind': 'build', 'action': rec['a']['op'], 'src': 'replay'}})
        else:
            out.write(kv1_record(rec['t'], 'replay', None))
    else:
        raise SystemExit(2)
    out.close()
    stats['records'] = out.n
    print(json.dumps(stats))


if __name__ == '__main__':
    main()
