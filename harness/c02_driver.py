"""C02 driver: runs escape_text and the pure-Python Tokenizer of the pinned tree and logs one record
per case for specs/EscapeTrace.tla.  Modes:
  exh <alphabet json> <maxlen> <out>   every string over the alphabet up to maxlen x both modes
  random <out>                          seeded random strings over all Unicode scalar values, plain
                                        and embedded at a token boundary of a larger text
  lines <out>                           the string as a value in lines written by real writers
  replay <replay.json> <out>            re-execute the case of a replay file
"""
from __future__ import annotations

import io
import itertools
import json
import random
import sys
import warnings

from vlib import hlib, toklib
from vlib.toklib import cps, uncps

hlib.require_repo_src()
from srctools.tokenizer import Tokenizer, TokenSyntaxError, escape_text  # noqa: E402

SPECIAL = '\\"\'\n\r\t\v\b\f\a?/n'
ESC_OPTSETS = [o for o in (toklib.opts_from_bits(b) for b in range(128)) if o['esc']]


def classes(s: str) -> str:
    """Which of the characters that matter occur (part of the signature of a failure class)."""
    names = {'\\': 'bsl', '"': 'dq', "'": 'sq', '\n': 'lf', '\r': 'cr', '\t': 'tab', '\v': 'vt', '\b': 'bs',
             '\f': 'ff', '\a': 'bel', '?': 'q', '/': 'slash'}
    return ','.join(sorted({names[c] for c in s if c in names}))


def esc_record(s: str, ml: bool, o: dict) -> dict:
    e = escape_text(s, ml)
    out = toklib.tokenize('"' + e + '"', o)
    return {'k': 'esc', 's': cps(s), 'ml': ml, 'e': cps(e), 'o': o, 'fold': toklib.fold_table(s + e),
            'toks': out['toks'], 'err': out['err'], 'etype': out['etype'], 'msg': out['msg'],
            'sig': {'kind': 'esc', 'action': 'escape_text+tokenize', 'ml': ml, 'chars': classes(s)}}


def embed_record(pre: str, s: str, ml: bool, suf: str, o: dict) -> dict:
    e = escape_text(s, ml)
    text = pre + '"' + e + '"' + suf
    out = toklib.tokenize(text, o)
    return {'k': 'embed', 'pre': cps(pre), 's': cps(s), 'ml': ml, 'e': cps(e), 'suf': cps(suf), 'o': o,
            'fold': toklib.fold_table(text),
            'toks': out['toks'], 'err': out['err'], 'etype': out['etype'], 'msg': out['msg'],
            'sig': {'kind': 'embed', 'action': 'escape_text+tokenize', 'ml': ml, 'chars': classes(s)}}


def line_record(writer: str, text: str, idx: int, s: str, o: dict) -> dict:
    out = toklib.tokenize(text, o)
    return {'k': 'line', 'writer': writer, 'text': cps(text), 'idx': idx, 's': cps(s), 'o': o,
            'fold': toklib.fold_table(text),
            'toks': out['toks'], 'err': out['err'], 'etype': out['etype'], 'msg': out['msg'],
            'sig': {'kind': 'line', 'action': writer, 'chars': classes(s)}}


def rand_char(rng: random.Random) -> str:
    r = rng.random()
    if r < 0.45:
        return rng.choice(SPECIAL)
    if r < 0.75:
        return chr(rng.randrange(32, 127))
    if r < 0.80:
        return chr(rng.randrange(0, 32))
    while True:     # any Unicode scalar value
        c = rng.randrange(0x80, 0x110000)
        if not 0xD800 <= c <= 0xDFFF:
            return chr(c)


def rand_string(rng: random.Random) -> str:
    n = rng.choice((0, 1, 2, 3, 5, 8, 13, 21, 40)) if rng.random() < 0.97 else rng.randrange(100, 400)
    s = ''.join(rand_char(rng) for _ in range(n))
    r = rng.random()
    if r < 0.1:
        s += '\\'                    # lone backslash at the end
    elif r < 0.2:
        s += '\\\n'                  # backslash before a line feed
    elif r < 0.3:
        pos = rng.randrange(len(s) + 1)
        s = s[:pos] + '\r\n' + s[pos:]
    return s


# pieces that leave the lexer at a token boundary whatever the options are
SOUP = ['"key" ', '{\n', '}\n', '\n', '\r\n', ' ', '\t', 'bare ', '"a\\"b" ', '= ', ', ', '"x"\n', 'word\r', '#dir ']


def rand_soup(rng: random.Random) -> str:
    return ''.join(rng.choice(SOUP) for _ in range(rng.randrange(0, 6)))


def mode_exh(alpha_json: str, maxlen: str, out: str) -> None:
    alphabet = [chr(c) for c in json.loads(alpha_json)]
    w = hlib.RecWriter(out)
    rot = hlib.seed()
    for n in range(int(maxlen) + 1):
        for tup in itertools.product(alphabet, repeat=n):
            s = ''.join(tup)
            for ml in (False, True):
                rot += 1
                w.write(esc_record(s, ml, ESC_OPTSETS[rot % len(ESC_OPTSETS)]))
    w.close()
    print(json.dumps({'records': w.n, 'inputs': w.n}))


def mode_random(out: str) -> None:
    rng = random.Random(1000 + hlib.seed())
    n = 100_000 if hlib.tier() == 'thorough' else 12_000
    w = hlib.RecWriter(out)
    for k in range(n):
        s = rand_string(rng)
        ml = rng.random() < 0.5
        o = rng.choice(ESC_OPTSETS)
        w.write(esc_record(s, ml, o))
        if k % 3 == 0:
            suf = rng.choice([' ', '\n', '\r\n', '', ' "v"', '}', ' [f]\n', '//c\n']) + rand_soup(rng)
            w.write(embed_record(rand_soup(rng), s, ml, suf, o))
    w.close()
    print(json.dumps({'records': w.n}))


def ascii_only(s: str) -> str:
    return ''.join(c for c in s if ord(c) < 128)


def writer_line(writer: str, s: str) -> tuple:
    """-> (text written by the real writer with s as a value, index (1-based) of the token that must be s)."""
    from srctools.keyvalues import Keyvalues
    from srctools.vmf import VMF, Entity
    if writer == 'Keyvalues.export':
        with warnings.catch_warnings():
            warnings.simplefilter('ignore')
            return ''.join(Keyvalues('name', s).export()), 2
    if writer == 'Keyvalues.serialise':
        return Keyvalues('name', s).serialise(), 2
    if writer == 'Keyvalues.serialise(name)':       # the string as the NAME of a leaf
        return Keyvalues(s, 'value').serialise(), 1
    if writer == 'Entity.export':
        vmf = VMF()
        ent = Entity(vmf, keys={'classname': 'info_target', 'message': s})
        buf = io.StringIO()
        ent.export(buf, ind='')
        toks = toklib.tokenize(buf.getvalue(), toklib.KV_OPTS)['toks']
        idx = next((i for i, t in enumerate(toks) if t['t'] == 'STRING' and t['v'] == cps('message')), None)
        if idx is None:
            raise SystemExit('MACHINERY: VMF entity export has no "message" key')
        return buf.getvalue(), idx + 2
    if writer == 'BSP.write_ent_data':               # multiline escaping, ASCII bytes
        from srctools.bsp import BSP
        vmf = VMF()
        vmf.create_ent('info_target', message=s)
        text = BSP.write_ent_data(vmf, _show_dep=False).decode('ascii', 'surrogateescape')
        toks = toklib.tokenize(text, toklib.TOK_DEFAULTS)['toks']
        idx = next((i for i, t in enumerate(toks) if t['t'] == 'STRING' and t['v'] == cps('message')), None)
        if idx is None:
            raise SystemExit('MACHINERY: entity lump has no "message" key')
        return text, idx + 2
    raise SystemExit(f'MACHINERY: unknown writer {writer}')


WRITERS = ('Keyvalues.export', 'Keyvalues.serialise', 'Keyvalues.serialise(name)', 'Entity.export')


def mode_lines(out: str) -> None:
    """The string as a value (or name) in a line produced by a real writer, read back by the real
    tokenizer with the options the corresponding parser uses."""
    rng = random.Random(2000 + hlib.seed())
    n = 6000 if hlib.tier() == 'thorough' else 600
    w = hlib.RecWriter(out)
    for _ in range(n):
        s = rand_string(rng)[:60]
        for writer in WRITERS:
            text, idx = writer_line(writer, s)
            w.write(line_record(writer, text, idx, s, toklib.KV_OPTS))
        sa = ascii_only(s)
        text, idx = writer_line('BSP.write_ent_data', sa)
        w.write(line_record('BSP.write_ent_data', text, idx, sa, toklib.TOK_DEFAULTS))
    w.close()
    print(json.dumps({'records': w.n}))


def mode_replay(path: str, out: str) -> None:
    rep = json.load(open(path, encoding='utf-8'))
    r = rep['record']
    w = hlib.RecWriter(out)
    if r['k'] == 'esc':
        w.write(esc_record(uncps(r['s']), r['ml'], r['o']))
    elif r['k'] == 'embed':
        w.write(embed_record(uncps(r['pre']), uncps(r['s']), r['ml'], uncps(r['suf']), r['o']))
    else:
        text, idx = writer_line(r['writer'], uncps(r['s']))
        w.write(line_record(r['writer'], text, idx, uncps(r['s']), r['o']))
    w.close()


if __name__ == '__main__':
    mode = sys.argv[1]
    {'exh': mode_exh, 'random': mode_random, 'lines': mode_lines, 'replay': mode_replay}[mode](*sys.argv[2:])
