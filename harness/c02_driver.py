"""C02 driver: runs escape_text and the pure-Python Tokenizer of the pinned tree and logs one record
per case for specs/EscapeTrace.tla.  Modes:
  exh <alphabet json> <maxlen> <out>   every string over the alphabet up to maxlen x both modes
  random <out>                          seeded random strings over all Unicode scalar values, plain
                                        and embedded at a token boundary of a larger text
  lines <out>                           the string as a value in lines written by real writers
  replay <replay.json> <out>            re-execute the case of a replay file
"""
from __future__ import annotations

import io
import itertools
import json
import random
import sys
import warnings

from vlib import hlib, toklib
from vlib.toklib import cps, uncps

hlib.require_repo_src()
from srctools.tokenizer import Tokenizer, TokenSyntaxError, escape_text  # noqa: E402

SPECIAL = '\\"\'\n\r\t\v\b\f\a?/n'
ESC_OPTSETS = [o for o in (toklib.opts_from_bits(b) for b in range(128)) if o['esc']]


def classes(s: str) -> str:
    """Which of the characters that matter occur (part of the signature of a failure class)."""
    names = {'\\': 'bsl', '"': 'dq', "'": 'sq', '\n': 'lf', '\r': 'cr', '\t': 'tab', '\v': 'vt', '\b': 'bs',
             '\f': 'ff', '\a': 'bel', '?': 'q', '/': 'slash'}
    return ','.join(sorted({names[c] for c in s if c in names}))


def esc_record(s: str, ml: bool, o: dict) -> dict:
    e = escape_text(s, ml)
    out = toklib.tokenize('"' + e + '"', o)
    return {'k': 'esc', 's': cps(s), 'ml': ml, 'e': cps(e), 'o': o, 'fold': toklib.fold_table(s + e),
            'toks': out['toks'], 'err': out['err'], 'etype': out['etype'], 'msg': out['msg'],
            'sig': {'kind': 'esc', 'action': 'escape_text+tokenize', 'ml': ml, 'chars': classes(s)}}


def embed_record(pre: str, s: str, ml: bool, suf: str, o: dict) -> dict:
    e = escape_text(s, ml)
    text = pre + '"' + e + '"' + suf
    out = toklib.tokenize(text, o)
    return {'k': 'embed', 'pre': cps(pre), 's': cps(s), 'ml': ml, 'e': cps(e), 'suf': cps(suf), 'o': o,
            'fold': toklib.fold_table(text),
            'toks': out['toks'], 'err': out['err'], 'etype': out['etype'], 'msg': out['msg'],
            'sig': {'kind': 'embed', 'action': 'escape_text+tokenize', 'ml': ml, 'chars': classes(s)}}


def line_record(writer: str, ln: dict) -> dict:
    out = toklib.tokenize(ln['text'], ln['o'])
    parts = writer.split('/')
    return {'k': 'line', 'writer': writer, 'text': cps(ln['text']), 'idx': ln['idx'], 'ntoks': ln['ntoks'],
            's': cps(ln['tokval']), 'field': cps(ln['s']), 'o': ln['o'], 'fold': toklib.fold_table(ln['text']),
            'toks': out['toks'], 'err': out['err'], 'etype': out['etype'], 'msg': out['msg'],
            'sig': {'kind': 'line', 'action': parts[0], 'field': parts[1], 'variant': '/'.join(parts[2:]),
                    'writer': writer, 'chars': classes(ln['s'])}}


def rand_char(rng: random.Random) -> str:
    r = rng.random()
    if r < 0.45:
        return rng.choice(SPECIAL)
    if r < 0.75:
        return chr(rng.randrange(32, 127))
    if r < 0.80:
        return chr(rng.randrange(0, 32))
    while True:     # any Unicode scalar value
        c = rng.randrange(0x80, 0x110000)
        if not 0xD800 <= c <= 0xDFFF:
            return chr(c)


def rand_string(rng: random.Random) -> str:
    n = rng.choice((0, 1, 2, 3, 5, 8, 13, 21, 40)) if rng.random() < 0.97 else rng.randrange(100, 400)
    s = ''.join(rand_char(rng) for _ in range(n))
    r = rng.random()
    if r < 0.1:
        s += '\\'                    # lone backslash at the end
    elif r < 0.2:
        s += '\\\n'                  # backslash before a line feed
    elif r < 0.3:
        pos = rng.randrange(len(s) + 1)
        s = s[:pos] + '\r\n' + s[pos:]
    return s


# pieces that leave the lexer at a token boundary whatever the options are
SOUP = ['"key" ', '{\n', '}\n', '\n', '\r\n', ' ', '\t', 'bare ', '"a\\"b" ', '= ', ', ', '"x"\n', 'word\r', '#dir ']


def rand_soup(rng: random.Random) -> str:
    return ''.join(rng.choice(SOUP) for _ in range(rng.randrange(0, 6)))


def mode_exh(alpha_json: str, maxlen: str, out: str) -> None:
    alphabet = [chr(c) for c in json.loads(alpha_json)]
    w = hlib.RecWriter(out)
    rot = hlib.seed()
    for n in range(int(maxlen) + 1):
        for tup in itertools.product(alphabet, repeat=n):
            s = ''.join(tup)
            for ml in (False, True):
                rot += 1
                w.write(esc_record(s, ml, ESC_OPTSETS[rot % len(ESC_OPTSETS)]))
    w.close()
    print(json.dumps({'records': w.n, 'inputs': w.n}))


def mode_random(out: str) -> None:
    rng = random.Random(1000 + hlib.seed())
    n = 100_000 if hlib.tier() == 'thorough' else 12_000
    w = hlib.RecWriter(out)
    for k in range(n):
        s = rand_string(rng)
        ml = rng.random() < 0.5
        o = rng.choice(ESC_OPTSETS)
        w.write(esc_record(s, ml, o))
        if k % 3 == 0:
            suf = rng.choice([' ', '\n', '\r\n', '', ' "v"', '}', ' [f]\n', '//c\n']) + rand_soup(rng)
            w.write(embed_record(rand_soup(rng), s, ml, suf, o))
    w.close()
    print(json.dumps({'records': w.n}))


def ascii_only(s: str) -> str:
    return ''.join(c for c in s if ord(c) < 128)


PROBE = 'c02probe'
ESC_SEP = '\x1b'


def _ent_text(ent) -> str:
    buf = io.StringIO()
    ent.export(buf, ind='')
    return buf.getvalue()


def _bsp_text(vmf, use_comma_sep) -> str:
    from srctools.bsp import BSP
    return BSP.write_ent_data(vmf, use_comma_sep, _show_dep=False).decode('ascii', 'surrogateescape')


OUT_BASE = {'output': 'OnTrigger', 'target': 'relay', 'input': 'Trigger', 'params': 'par', 'inst_out': None, 'inst_in': None}
OUT_FIELDS = tuple(OUT_BASE)


def _output(field: str, s: str, comma: bool):
    """An Output whose str field `field` is s (set as an attribute, the way parsed outputs carry it)."""
    from srctools.vmf import Output
    out = Output(OUT_BASE['output'], OUT_BASE['target'], OUT_BASE['input'], OUT_BASE['params'], comma_sep=comma)
    setattr(out, field, s)
    return out, None


def _output_expect(field: str, s: str, sep: str) -> str:
    """The token the field is part of, spelled out by the harness: the output name (with its
    instance:<name>; prefix when an instance output name is set) or the whole value string."""
    vals = dict(OUT_BASE)
    vals[field] = s
    out_name = f"instance:{vals['inst_out']};{vals['output']}" if vals['inst_out'] else vals['output']
    inp_name = f"instance:{vals['inst_in']};{vals['input']}" if vals['inst_in'] else vals['input']
    if field in ('output', 'inst_out'):
        return out_name
    return sep.join([vals['target'], inp_name, vals['params'], '0', '-1'])


def _dmx_text(elem) -> str:
    buf = io.BytesIO()
    elem.export_kv2(buf, 'dmx', 1, unicode='silent')
    data = buf.getvalue()
    return data[data.index(b'\n') + 1:].decode('utf8')     # the <!-- dmx ... --> header is not token text


def positions() -> dict:
    """Every place of the pinned tree that embeds escape_text(...) in a quoted run.
    name -> (build(s) -> written text, expect(s) -> value of the token s is part of, tokenizer
    options of the reader, restrict(s) -> s limited to what the field's own format can carry)."""
    from srctools.dmx import Element
    from srctools.keyvalues import Keyvalues
    from srctools.math import Vec
    from srctools.vmf import VMF, Cordon, Entity, FixupValue, Side, VisGroup
    kv, tk = toklib.KV_OPTS, toklib.TOK_DEFAULTS

    def ident(x):
        return x

    def kv_export(kvobj):
        with warnings.catch_warnings():
            warnings.simplefilter('ignore')
            return ''.join(kvobj.export())

    def ent_with(**kw):
        return Entity(VMF(), **kw)

    def ent_out(field, comma):
        def build(x):
            ent = ent_with(keys={'classname': 'logic_relay'})
            ent.add_out(_output(field, x, comma)[0])
            return _ent_text(ent)
        return build

    def bsp_out(field, comma, force):
        def build(x):
            vmf = VMF()
            ent = vmf.create_ent('logic_relay')
            ent.add_out(_output(field, x, comma)[0])
            return _bsp_text(vmf, force)
        return build

    def fixup_build(x):
        ent = ent_with(keys={'classname': 'func_instance'})
        ent.fixup['var'] = x
        return _ent_text(ent)

    def side_build(x):
        buf = io.StringIO()
        Side(VMF(), [Vec(0, 0, 0), Vec(1, 0, 0), Vec(0, 1, 0)], mat=x).export(buf, '')
        return buf.getvalue()

    def cordon_build(x):
        buf = io.StringIO()
        Cordon(VMF(), Vec(0, 0, 0), Vec(1, 1, 1), name=x).export(buf, '')
        return buf.getvalue()

    def vis_build(x):
        buf = io.StringIO()
        VisGroup(VMF(), x).export(buf, '')
        return buf.getvalue()

    def bsp_key(x):
        vmf = VMF()
        vmf.add_ent(Entity(vmf, keys={x: 'keyvalue'}))
        return _bsp_text(vmf, None)

    def bsp_val(x):
        vmf = VMF()
        vmf.create_ent('info_target', message=x)
        return _bsp_text(vmf, None)

    def dmx_attr_name(x):
        e = Element('elem', 'DmElement')
        e[x] = 'attrvalue'
        return _dmx_text(e)

    def dmx_attr_val(x):
        e = Element('elem', 'DmElement')
        e['text'] = x
        return _dmx_text(e)

    def dmx_arr_val(x):
        e = Element('elem', 'DmElement')
        e['texts'] = ['first', x, 'last']
        return _dmx_text(e)

    def not_name(x):         # the attribute called "name" is the element name, written elsewhere
        return x + '_' if x.casefold() == 'name' else x

    pos = {
        'Keyvalues.export/value': (lambda x: kv_export(Keyvalues('name', x)), ident, kv, ident),
        'Keyvalues.export/name': (lambda x: kv_export(Keyvalues(x, 'value')), ident, kv, ident),
        'Keyvalues.export/block': (lambda x: kv_export(Keyvalues(x, [Keyvalues('k', 'v')])), ident, kv, ident),
        'Keyvalues.serialise/value': (lambda x: Keyvalues('name', x).serialise(), ident, kv, ident),
        'Keyvalues.serialise/name': (lambda x: Keyvalues(x, 'value').serialise(), ident, kv, ident),
        'Keyvalues.serialise/block': (lambda x: Keyvalues(x, [Keyvalues('k', 'v')]).serialise(), ident, kv, ident),
        'Entity.export/value': (lambda x: _ent_text(ent_with(keys={'classname': 'info_target', 'message': x})), ident, kv, ident),
        'Entity.export/key': (lambda x: _ent_text(ent_with(keys={x: 'keyvalue'})), ident, kv, ident),
        'Entity.export/comments': (lambda x: _ent_text(ent_with(keys={'classname': 'a'}, comments=x)), ident, kv,
                                   lambda x: x or 'c'),          # an empty comment is not written at all
        'EntityFixup.export/value': (fixup_build, lambda x: '$var ' + x, kv, ident),
        'EntityFixup.export/var': (lambda x: _ent_text(ent_with(keys={'classname': 'func_instance'},
                                                                  fixup=[FixupValue(x, 'fixval', 1)])),
                                   lambda x: '$' + x + ' fixval', kv, ident),
        'Entity.export/logical_pos': (lambda x: _ent_text(ent_with(keys={'classname': 'a'}, logical_pos=x)), ident, kv,
                                      lambda x: x or '[0 1]'),          # an empty value is replaced by a default
        'Side.export/material': (side_build, ident, kv, ident),
        'Cordon.export/name': (cordon_build, ident, kv, ident),
        'VisGroup.export/name': (vis_build, ident, kv, ident),
        'BSP.write_ent_data/value': (bsp_val, ident, tk, ascii_only),      # the lump is ASCII bytes
        'BSP.write_ent_data/key': (bsp_key, ident, tk, ascii_only),
        'DMX.export_kv2/type': (lambda x: _dmx_text(Element('elem', x)), ident, tk, ident),
        'DMX.export_kv2/name': (lambda x: _dmx_text(Element(x, 'DmElement')), ident, tk, ident),
        'DMX.export_kv2/attr_name': (dmx_attr_name, ident, tk, not_name),
        'DMX.export_kv2/attr_value': (dmx_attr_val, ident, tk, ident),
        'DMX.export_kv2/array_value': (dmx_arr_val, ident, tk, ident),
    }
    for field in OUT_FIELDS:
        for comma in (False, True):
            sep = ',' if comma else ESC_SEP
            sn = 'comma' if comma else 'esc'
            exp = (lambda x, field=field, sep=sep: _output_expect(field, x, sep))
            pos[f'Output.as_keyvalue/{field}/{sn}'] = (
                lambda x, field=field, comma=comma: _output(field, x, comma)[0].as_keyvalue(), exp, kv, ident)
            pos[f'Entity.export/output.{field}/{sn}'] = (ent_out(field, comma), exp, kv, ident)
            pos[f'BSP.write_ent_data/output.{field}/{sn}/asis'] = (bsp_out(field, comma, None), exp, tk, ascii_only)
        # use_comma_sep forces the separator whatever the output says
        pos[f'BSP.write_ent_data/output.{field}/forced-comma'] = (
            bsp_out(field, False, True), (lambda x, field=field: _output_expect(field, x, ',')), tk, ascii_only)
        pos[f'BSP.write_ent_data/output.{field}/forced-esc'] = (
            bsp_out(field, True, False), (lambda x, field=field: _output_expect(field, x, ESC_SEP)), tk, ascii_only)
    return pos


# str fields of the classes whose writers embed text in a quoted run -> the positions that put a
# hostile string there.  A str field that is found reflectively and is in neither table is a
# machinery failure (a new embedded field must get a case).
FIELD_CASES = {
    ('Output', 'output'): 'Output.as_keyvalue/output/esc', ('Output', 'target'): 'Output.as_keyvalue/target/esc',
    ('Output', 'input'): 'Output.as_keyvalue/input/esc', ('Output', 'params'): 'Output.as_keyvalue/params/esc',
    ('Output', 'inst_out'): 'Output.as_keyvalue/inst_out/esc', ('Output', 'inst_in'): 'Output.as_keyvalue/inst_in/esc',
    ('Entity', 'keys'): 'Entity.export/key', ('Entity', 'comments'): 'Entity.export/comments',
    ('Entity', 'logical_pos'): 'Entity.export/logical_pos',
    ('FixupValue', 'var'): 'EntityFixup.export/var', ('FixupValue', 'value'): 'EntityFixup.export/value',
    ('Side', 'mat'): 'Side.export/material', ('Cordon', 'name'): 'Cordon.export/name', ('VisGroup', 'name'): 'VisGroup.export/name',
    ('Element', 'name'): 'DMX.export_kv2/name', ('Element', 'type'): 'DMX.export_kv2/type',
    ('Attribute', 'name'): 'DMX.export_kv2/attr_name',
    ('Keyvalues', 'name'): 'Keyvalues.serialise/name', ('Keyvalues', 'value'): 'Keyvalues.serialise/value',
}
FIELD_EXCLUDED = {
    ('Output', 'targ'): 'constructor spelling of target', ('Output', 'out'): 'constructor spelling of output',
    ('Output', 'inp'): 'constructor spelling of input', ('Output', 'param'): 'constructor spelling of params',
    ('VMF', 'map_info'): 'deprecated mapping, every entry is converted to int/bool before it is written',
    ('VMF', 'by_target'): 'index, not written', ('VMF', 'by_class'): 'index, not written',
    ('Element', '_members'): 'the attribute table: Attribute.name and the values are the cases',
    ('Keyvalues', '_folded_name'): 'case-folded copy, not written', ('Keyvalues', '_real_name'): 'Keyvalues.name',
    ('Keyvalues', '_value'): 'Keyvalues.value',
}


def check_field_cases(pos: dict) -> int:
    """Every str-typed attribute / constructor parameter of the embedding classes has a position."""
    import inspect
    from srctools import dmx, vmf
    from srctools.keyvalues import Keyvalues
    classes = [vmf.Output, vmf.Entity, vmf.Side, vmf.Solid, vmf.Cordon, vmf.VisGroup, vmf.EntityGroup, vmf.Camera,
               vmf.FixupValue, vmf.EntityFixup, vmf.VMF, dmx.Element, dmx.Attribute, Keyvalues]
    found = 0
    for cls in classes:
        names: dict = {}
        for k in reversed(cls.__mro__):
            names.update(getattr(k, '__annotations__', {}))
        names.update({k: p.annotation for k, p in inspect.signature(cls.__init__).parameters.items()})
        for name, ann in names.items():
            if 'str' not in str(ann):
                continue
            key = (cls.__name__, name)
            found += 1
            if key in FIELD_EXCLUDED:
                continue
            if key not in FIELD_CASES or FIELD_CASES[key] not in pos:
                raise SystemExit(f'MACHINERY: str field {cls.__name__}.{name} ({ann}) has no writer-line case')
    return found


_POS: dict = {}
_TWIN: dict = {}


def writer_line(writer: str, s: str) -> dict:
    """The text the real writer produces with s in the given position, and where the token that
    carries s must be: index and token count are those of the same line written with a harmless
    probe string (escaping must not change the token structure of the line)."""
    if not _POS:
        _POS.update(positions())
    build, expect, o, restrict = _POS[writer]
    if writer not in _TWIN:
        toks = toklib.tokenize(build(PROBE), o)['toks']
        want = cps(expect(PROBE))
        hits = [i for i, t in enumerate(toks) if t['t'] == 'STRING' and t['v'] == want]
        if len(hits) != 1:
            raise SystemExit(f'MACHINERY: probe line of {writer} has {len(hits)} probe tokens')
        _TWIN[writer] = (hits[0] + 1, len(toks))
    s = restrict(s)
    idx, ntoks = _TWIN[writer]
    return {'text': build(s), 'idx': idx, 'ntoks': ntoks, 's': s, 'tokval': expect(s), 'o': o}


HOSTILE = ['"', '\\', 'path\\to\\thing', 'cr\rhere', 'Say("hello")', 'a\nb', 'tab\there', "it's", 'end\\', '\\"',
           'a,b', '\r\n', '\\n', 'x" "y', '', '\v\b\f\a?/', 'q\\\n"z']


def mode_lines(out: str) -> None:
    """The string in every position in which a real writer embeds escaped text, read back by the
    real tokenizer with the options the corresponding parser uses."""
    rng = random.Random(2000 + hlib.seed())
    n = 1500 if hlib.tier() == 'thorough' else 120
    w = hlib.RecWriter(out)
    if not _POS:
        _POS.update(positions())
    n_fields = check_field_cases(_POS)
    strings = HOSTILE + [rand_string(rng)[:60] for _ in range(n)]
    for s in strings:
        for writer in sorted(_POS):
            w.write(line_record(writer, writer_line(writer, s)))
    w.close()
    print(json.dumps({'records': w.n, 'positions': len(_POS), 'strings': len(strings), 'str_fields': n_fields}))


def mode_replay(path: str, out: str) -> None:
    rep = json.load(open(path, encoding='utf-8'))
    r = rep['record']
    w = hlib.RecWriter(out)
    if r['k'] == 'esc':
        w.write(esc_record(uncps(r['s']), r['ml'], r['o']))
    elif r['k'] == 'embed':
        w.write(embed_record(uncps(r['pre']), uncps(r['s']), r['ml'], uncps(r['suf']), r['o']))
    else:
        w.write(line_record(r['writer'], writer_line(r['writer'], uncps(r['field']))))
    w.close()


if __name__ == '__main__':
    mode = sys.argv[1]
    {'exh': mode_exh, 'random': mode_random, 'lines': mode_lines, 'replay': mode_replay}[mode](*sys.argv[2:])
