"""KvTree driver: every transition of the KvTree model executed on real Keyvalues objects, plus
seeded random operation sequences with wider trees.  One record per call."""
from __future__ import annotations

import json
import random
import sys
import warnings

from vlib import hlib

hlib.require_repo_src()
from srctools.keyvalues import Keyvalues  # noqa: E402

warnings.simplefilter('ignore', DeprecationWarning)


def build(node: dict) -> Keyvalues:
    if node['blk']:
        return Keyvalues(node['n'], [build(k) for k in node['kids']])
    return Keyvalues(node['n'], node['v'])


def root(kids: list) -> Keyvalues:
    return Keyvalues.root(*[build(k) for k in kids])


def proj_node(kv: Keyvalues) -> dict:
    if kv.has_children():
        return {'n': kv.real_name, 'blk': True, 'v': '', 'kids': [proj_node(c) for c in kv]}
    return {'n': kv.real_name, 'blk': False, 'v': kv.value, 'kids': []}


def proj(rt: Keyvalues) -> list:
    return [proj_node(c) for c in rt]


def apply(x: Keyvalues, y: Keyvalues, a: dict):
    """Returns (x, res). x may be rebound by +=."""
    op = a['op']
    res = 0
    if op == 'append':
        (x if a['t'] == 'x' else y).append(build(a['node']))
    elif op == 'setstr':
        x[a['name']] = a['val']
    elif op == 'delstr':
        del x[a['name']]
    elif op == 'extend':
        x.extend(y)
    elif op == 'iadd':
        x += y
    elif op == 'add':
        z = x + y
        res = proj(z)
        for c in list(z):       # the result must own its children
            if c.has_children():
                c.append(Keyvalues('zz', 'zz'))
        z.append(Keyvalues('zz', 'zz'))
    elif op == 'copymut':
        z = x.copy()
        z[a['name']] = a['val']
        res = proj(z)
        # then grow every block of the copy in place (also empty ones, at any depth): a copy that
        # shares a child list with its source shows up as a changed left operand
        def grow(kv):
            for c in list(kv):
                if c.has_children():
                    grow(c)
                    c.append(Keyvalues('zz', 'zz'))
        grow(z)
        z.append(Keyvalues('zz', 'zz'))
    elif op == 'ensure':
        x.ensure_exists(a['name'])
    elif op == 'merge':
        x.merge_children(a['name'])
    elif op == 'clear':
        x.clear()
    elif op == 'lookup':
        try:
            got = x[a['name']]
        except IndexError:
            got = 'none'
        kids = list(x)
        pos = lambda kv: next(i + 1 for i, c in enumerate(kids) if c is kv)
        try:
            key = pos(x.find_key(a['name']))
        except Exception:    # NoKeyError
            key = 0
        try:
            block = pos(x.find_block(a['name']))
        except Exception:
            block = 0
        res = {'get': got, 'has': a['name'] in x, 'all': [pos(c) for c in x.find_all(a['name'])],
               'key': key, 'block': block}
    elif op == 'setpath':
        x.set_key((a['a'], a['b']), a['val'])
    else:
        raise ValueError(op)
    return x, res


def one(out, pre_x: list, pre_y: list, a: dict, src: str) -> None:
    x, y = root(pre_x), root(pre_y)
    a = {k: v for k, v in a.items() if k != 'res'}
    x, res = apply(x, y, a)
    out.write({'pre': {'x': pre_x, 'y': pre_y}, 'a': a, 'res': res, 'post': {'x': proj(x), 'y': proj(y)},
               'sig': {'kind': 'keyvalues', 'action': a['op'], 'src': src}})


def main() -> None:
    mode = sys.argv[1]
    if mode == 'edges':
        edges = json.load(open(sys.argv[2]))
        out = hlib.RecWriter(sys.argv[3])
        for e in edges:
            one(out, e['s']['x'], e['s']['y'], e['a'], 'edge')
    elif mode == 'replay':
        rp = json.load(open(sys.argv[2]))
        rec = rp['record']
        out = hlib.RecWriter(sys.argv[3])
        one(out, rec['pre']['x'], rec['pre']['y'], rec['a'], 'replay')
    else:
        out = hlib.RecWriter(sys.argv[2])
        rng = random.Random(hlib.seed() * 31 + 9)
        names = ['a', 'A', 'b', 'B', 'c']
        vals = ['1', '2', '', 'x y']

        def rnode(depth=0):
            if depth < 2 and rng.random() < 0.35:
                return {'n': rng.choice(names), 'blk': True, 'v': '', 'kids': [rnode(depth + 1) for _ in range(rng.randint(0, 3))]}
            return {'n': rng.choice(names), 'blk': False, 'v': rng.choice(vals), 'kids': []}
        n = 20000 if hlib.tier() == 'thorough' else 3000
        for _ in range(n):
            x = [rnode() for _ in range(rng.randint(0, 6))]
            y = [rnode() for _ in range(rng.randint(0, 3))]
            op = rng.choice(['append', 'setstr', 'delstr', 'extend', 'iadd', 'add', 'copymut', 'ensure', 'merge', 'clear', 'lookup', 'setpath'])
            a = {'op': op}
            if op == 'append':
                a.update(t=rng.choice('xy'), node=rnode(1))
            if op in ('setstr', 'copymut'):
                a.update(name=rng.choice(names), val=rng.choice(vals))
            if op in ('delstr', 'ensure', 'merge', 'lookup'):
                a.update(name=rng.choice(names))
            if op == 'setpath':
                a.update(a=rng.choice(names), b=rng.choice(names), val=rng.choice(vals))
            if op == 'delstr' and not any(k['n'].casefold() == a['name'].casefold() for k in x):
                continue
            one(out, x, y, a, 'random')
    out.close()
    print(json.dumps({'records': out.n}))


if __name__ == '__main__':
    main()
