"""C07 driver: executes index-relevant calls on real VMF / Entity objects and logs one record per
call with the projected state before and after (entities' keys + membership in vmf.entities, the
raw content of vmf.by_class / vmf.by_target, list(vmf.search(q))).  TLC (VmfIndexTrace) judges.

Modes:
  edges <edges.json> <out> <part> <nparts>   every TLC-enumerated (state, action): the source state is
                                             built on fresh objects (Entity()/add_ent), the action applied
  paths <edges.json> <out>                   every model state reached by its shortest TLC path from the
                                             initial state, last step logged
  random <out>                               seeded random histories far outside the bounds, VMF.parse
  replay <replay.json> <out>                 re-execute a stored record
"""
from __future__ import annotations

import json
import random
import sys

from vlib import hlib

hlib.require_repo_src()
from srctools.keyvalues import Keyvalues  # noqa: E402
from srctools.vmf import VMF, Entity  # noqa: E402

MAPS = ['m1', 'm2']
SPAWN = {'m1': 'w1', 'm2': 'w2'}

# concretisations of the model's symbols (index chosen per edge from the seed)
CONCRETE = [
    {},
    {'a': 'relay_x', 'A': 'Relay_X', 'b': 'other', 'c': 'logic_relay', 'C': 'Logic_Relay', 'd': 'info_target'},
    {'a': 'straße', 'A': 'STRASSE', 'b': 'ǆx', 'c': 'σtaς', 'C': 'ΣTAΣ', 'd': 'prop'},
]
DIGITS = '0123456789'


def conc(table: dict, s: str) -> str:
    """Symbol -> concrete string (a1 -> <a>1)."""
    if not table or not s:
        return s
    base = s.rstrip(DIGITS)
    return table.get(base, base) + s[len(base):]


def tok(s: str) -> str:
    """ASCII token for a string (TLC only compares them)."""
    if s.isascii() and s.isprintable() and not s.startswith('u_'):
        return s
    return 'u_' + '_'.join(f'{ord(ch):x}' for ch in s)


def kv_line(k: str, v: str) -> str:
    return '\t"%s" "%s"\n' % (k, v.replace('\\', '\\\\').replace('"', '\\"'))


def ent_block(kind: str, eid: int, cls: str, tk: str, name: str, hidden: bool = False) -> str:
    body = kind + '\n{\n' + kv_line('id', str(eid))
    if cls:
        body += kv_line('classname', cls)
    if tk:
        body += kv_line(tk, name)
    body += '}\n'
    return 'hidden\n{\n' + body + '}\n' if hidden else body


def state_document(s: dict, tab: dict, variant: int = 0, rev: bool = False) -> tuple:
    """VMF text whose parse is map m1 of the model state s: the world block carries the worldspawn's
    classname / targetname spelling, every entity that is in m1 follows (some of them hidden)."""
    home, inmap, spawn, cls, name, tk = s['w1']
    text = 'versioninfo\n{\n\t"formatversion" "100"\n}\n' + ent_block('world', 1, conc(tab, cls), tk, conc(tab, name))
    parsed = []
    for n, x in enumerate(sorted((k for k in s if k not in SPAWN.values()), reverse=rev)):
        home, inmap, spawn, cls, name, tk = s[x]
        if home == 'm1' and inmap:
            parsed.append(x)
    # VMF.parse() reads the visible entities and the hidden ones in file order
    for n, x in enumerate(parsed):
        home, inmap, spawn, cls, name, tk = s[x]
        text += ent_block('entity', n + 2, conc(tab, cls), tk, conc(tab, name), hidden=(n + variant) % 2 == 1)
    return text, parsed


class World:
    def __init__(self, slots: list[str]) -> None:
        self.maps = {m: VMF() for m in MAPS}
        self.slots = slots
        self.ents: dict[str, Entity] = {}
        self.home: dict[str, str] = {}
        for m in MAPS:
            self.ents[SPAWN[m]] = self.maps[m].spawn
            self.home[SPAWN[m]] = m
        self.strings: set[str] = set()

    # ------------------------------------------------------------------ projection
    def ident(self) -> dict:
        return {id(e): x for x, e in self.ents.items()}

    def project(self, search: bool = False) -> dict:
        ids = self.ident()
        unknown: dict = {}

        def name_of(e) -> str:
            if id(e) in ids:
                return ids[id(e)]
            return unknown.setdefault(id(e), f'?{len(unknown) + 1}')

        ent = {}
        for x in self.slots + [SPAWN[m] for m in self.maps]:
            e = self.ents.get(x)
            if e is None:
                continue        # TLC pads unused slots
            vmf = self.maps[self.home[x]]
            spawn = x in SPAWN.values()
            tk = next((k for k in e if k.casefold() == 'targetname'), '')
            cls, name = e['classname'], e['targetname']
            self.strings.update((cls, name))
            ent[x] = {'home': self.home[x], 'inmap': spawn or any(e is y for y in vmf.entities), 'spawn': spawn,
                      'cls': tok(cls), 'name': tok(name), 'tk': tk}
        idx = {}
        for m, vmf in self.maps.items():
            bc = []
            for k, s in vmf.by_class.items():
                self.strings.add(k)
                bc.append([tok(k), sorted(name_of(e) for e in s)])
            bt = []
            for k, s in vmf.by_target.items():
                if k is None:
                    bt.append(['none', '', sorted(name_of(e) for e in s)])
                else:
                    self.strings.add(k)
                    bt.append(['str', tok(k), sorted(name_of(e) for e in s)])
            # entities in vmf.entities that the harness does not know would be a harness bug
            idx[m] = {'bc': sorted(bc), 'bt': sorted(bt)}
        out = {'ent': ent, 'idx': idx}
        if search:
            out['search'] = self.searches(name_of)
        return out

    def searches(self, name_of) -> list:
        names = sorted({e['targetname'] for e in self.ents.values()} - {''})
        classes = sorted({e['classname'] for e in self.ents.values()} - {''})
        qs = set(names) | set(classes) | {'worldspawn', '*', ''}
        for n in names:
            qs.add(n.rstrip(DIGITS)[:3] + '*')
            qs.add(n.swapcase())
        if len(qs) > 12:      # many entities (random histories): a seeded-stable sample
            keep = sorted(qs)
            qs = set(keep[::max(1, len(keep) // 10)]) | {'worldspawn', '*'}
        res = []
        folded_names = sorted({n.casefold() for n in names})
        for m, vmf in self.maps.items():
            if m == 'm2' and not any(h == 'm2' for x, h in self.home.items() if x not in SPAWN.values()):
                continue
            for q in sorted(qs):
                star = q.endswith('*')
                stem = q[:-1] if star else q
                self.strings.add(stem)
                hits = [tok(n) for n in folded_names if n.startswith(stem.casefold())] if star else []
                got = [name_of(e) for e in vmf.search(q)]
                res.append([m, tok(stem), star, hits, got])
        return res

    def fold_table(self, extra=()) -> dict:
        strs = set(self.strings) | set(extra)
        pairs = sorted({(tok(s), tok(s.casefold())) for s in strs if isinstance(s, str) and s.casefold() != s})
        return {'fold': [list(p) for p in pairs]}

    # ------------------------------------------------------------------ construction of a model state
    def build(self, s: dict, tab: dict, how: str = 'api', variant: int = 0, rev: bool = False) -> str:
        """s: id -> [home, inmap, spawn, cls, name, tk] (TLC's Pack).
        how = 'api':   VMF(), Entity(), add_ent()
        how = 'parse': map m1 comes from VMF.parse() of a document holding its worldspawn (class and
                       targetname as in s) and its entities; the rest is added through the API.
        Returns the document text ('' for 'api')."""
        text = ''
        parsed: list = []
        if how == 'parse':
            text, parsed = state_document(s, tab, variant, rev)
            vmf = VMF.parse(Keyvalues.parse(text))
            self.maps['m1'] = vmf
            self.ents['w1'] = vmf.spawn
            if len(vmf.entities) != len(parsed):
                raise SystemExit('MACHINERY: parsed document does not hold the entities written')
            for x, e in zip(parsed, vmf.entities):
                self.ents[x] = e
                self.home[x] = 'm1'
        for x in sorted(s, reverse=rev):       # rev: later slots are created (and filed) first
            home, inmap, spawn, cls, name, tk = s[x]
            if spawn:
                if how == 'parse' and home == 'm1':
                    continue
                if cls != 'worldspawn':
                    self.ents[x]['classname'] = cls
                if tk:
                    self.ents[x][tk] = conc(tab, name)
                continue
            if not home or x in parsed:
                continue
            keys = {}
            if cls:
                keys['classname'] = conc(tab, cls)
            if tk:
                keys[tk] = conc(tab, name)
            e = Entity(self.maps[home], keys=keys)
            if inmap:
                self.maps[home].add_ent(e)
            self.ents[x] = e
            self.home[x] = home
        return text

    # ------------------------------------------------------------------ the calls
    def do(self, a: dict, tab: dict) -> tuple:
        """Apply a model action to the real objects -> (exception type name or '', returned value)."""
        op = a['op']
        c = lambda s: conc(tab, s)
        for f in ('v', 'n', 'c', 'prefix'):
            if f in a:
                self.strings.add(c(a[f]))
        try:
            if op in ('new', 'create_ent'):
                vmf = self.maps[a['m']]
                if op == 'new':
                    keys = {}
                    if a['c']:
                        keys['classname'] = c(a['c'])
                    if a['k']:
                        keys[a['k']] = c(a['n'])
                    e = Entity(vmf, keys=keys)
                else:
                    kw = {a['k']: c(a['n'])} if a['k'] else {}
                    e = vmf.create_ent(c(a['c']), **kw)
                self.ents[a['x']] = e
                self.home[a['x']] = a['m']
                return '', ''
            if op == 'add_ents':
                # add_ents() accepts any iterable: rotate through a list, a tuple, a generator and a
                # plain iterator (one-shot iterables must be indexed exactly like lists)
                self._addents_n = getattr(self, '_addents_n', 0) + 1
                ents = [self.ents[x] for x in a['xs']]
                form = (self._addents_n + len(ents)) % 4
                arg = (ents, tuple(ents), (e for e in ents), iter(ents))[form]
                if a['xs']:
                    self.maps[self.home[a['xs'][0]]].add_ents(arg)
                else:
                    self.maps['m1'].add_ents(arg)
                return '', ''
            e = self.ents[a['x']]
            vmf = self.maps[self.home[a['x']]]
            val = ''
            if op == 'add_ent':
                vmf.add_ent(e)
            elif op == 'remove_ent':
                vmf.remove_ent(e)
            elif op == 'ent_remove':
                e.remove()
            elif op == 'set_class':
                e[a.get('ck', 'classname')] = c(a['v'])
            elif op == 'set_name':
                e[a['k']] = c(a['v'])
            elif op == 'setdefault_name':
                val = ''
                e.setdefault(a['k'], c(a['v']))
            elif op == 'update':
                e.update({'classname': c(a['v']), a['k']: c(a['n'])})
            elif op == 'del_name':
                del e[a['k']]
            elif op == 'del_class':
                del e['classname']
            elif op == 'pop_name':
                val = tok(e.pop('targetname'))
            elif op == 'pop_class':
                val = tok(e.pop('classname'))
            elif op == 'clear':
                e.clear()
            elif op == 'copy':
                p = e.copy(vmf_file=self.maps[a['m']])
                self.ents[a['p']] = p
                self.home[a['p']] = a['m']
            elif op == 'make_unique':
                e.make_unique(c(a['prefix']))
            else:
                raise SystemExit(f'unknown op {op}')
            return '', val
        except Exception as exc:   # the exception type is part of the record; TLC decides whether it is allowed
            return type(exc).__name__, ''

    def do_iter(self, a: dict, tab: dict) -> tuple:
        vmf = self.maps[a['m']]
        key = conc(tab, a['key']).casefold()
        s = vmf.by_class[key] if a['kind'] == 'class' else vmf.by_target[key or None]
        ids = self.ident()
        got = []
        exc = ''
        try:
            it = iter(s)
            try:
                got.append(next(it))
            except StopIteration:
                it = None
            mexc, _ = self.do(a['mut'], tab)
            if it is not None:
                got.extend(it)
            ids = self.ident()
        except Exception as e:
            exc = type(e).__name__
            mexc = ''
        return exc, mexc, [ids.get(id(e), '?') for e in got]

    def scan_query(self, a: dict, tab: dict) -> dict:
        """The lookup of a scan action: model kinds search_star / search_exact pick a pattern from the
        names in the map; a random history gives the pattern itself (a['q'])."""
        vmf = self.maps[a['m']]
        names = sorted({e['targetname'] for e in list(vmf.entities) + [vmf.spawn]} - {''})
        kind = a['kind']
        if kind.startswith('items'):
            return {'stem': '', 'star': False, 'hits': [], 'q': ''}
        if 'q' in a:
            q = a['q']
        elif kind == 'search_star':
            # a wildcard spanning as many distinct names as possible: their common prefix
            folded = sorted({n.casefold() for n in names})
            pre = folded[0] if folded else ''
            for n in folded:
                while not n.startswith(pre):
                    pre = pre[:-1]
            q = pre + '*'
        else:
            q = names[0] if names else 'zz'
        star = q.endswith('*')
        stem = q[:-1] if star else q
        self.strings.add(stem)
        folded_names = sorted({n.casefold() for n in names})
        return {'stem': tok(stem), 'star': star, 'q': q,
                'hits': [tok(n) for n in folded_names if n.startswith(stem.casefold())] if star else []}

    def scan_iter(self, a: dict, q: dict):
        """The lookup as a generator of (bucket key or '', entity)."""
        vmf = self.maps[a['m']]
        if a['kind'] in ('items_class', 'items_target'):
            snap = list((vmf.by_class if a['kind'] == 'items_class' else vmf.by_target).items())
            for key, bucket in snap:
                if key is not None:
                    self.strings.add(key)
                for e in bucket:
                    yield tok(key or ''), e
        else:
            for e in vmf.search(q['q']):
                yield '', e

    def do_scan(self, a: dict, tab: dict, nbefore: int, q: dict) -> tuple:
        """Start the lookup, take nbefore results, make the call, take the rest."""
        got: list = []
        exc = mexc = ''
        try:
            it = self.scan_iter(a, q)
            for _ in range(nbefore):
                try:
                    got.append(next(it))
                except StopIteration:
                    break
            taken = len(got)
            mexc, _ = self.do(a['mut'], tab)
            got.extend(it)
        except Exception as e:
            exc = type(e).__name__
            taken = min(nbefore, len(got))
        ids = self.ident()
        return exc, mexc, taken, [[k, ids.get(id(e), '?')] for k, e in got]

    def scan_len(self, a: dict, q: dict) -> int:
        return sum(1 for _ in self.scan_iter(a, q))

    def conc_action(self, a: dict, tab: dict) -> dict:
        """The action with concrete (tokenised) strings, as TLC must see it."""
        b = dict(a)
        for f in ('v', 'n', 'c', 'prefix', 'key'):
            if f in b:
                v = conc(tab, b[f])
                if f == 'key':
                    v = v.casefold()
                self.strings.add(v)
                b[f] = tok(v)
        if 'mut' in b:
            b['mut'] = self.conc_action(b['mut'], tab)
        return b


def sig_for(w: World, pre: dict, a: dict, src: str) -> dict:
    """Abstract parameters that characterise a failure class (used to match known findings)."""
    act = a['mut'] if a['op'] in ('iter', 'scan') else a
    sig = {'kind': src, 'action': act['op'], 'via': a['op'] if a['op'] in ('iter', 'scan') else 'call'}
    x = act.get('x')
    if x and x in w.ents:
        e = pre['ent'][x]
        real = w.ents[x]
        cls, name = real['classname'], real['targetname']
        tk = e['tk']
        sig.update({
            'spawn': e['spawn'], 'inmap': e['inmap'],
            'old_classed': cls != '', 'old_named': name != '',
            # the old classname is not its own case-folding
            'old_class_unfolded': cls != cls.casefold(),
            # a targetname key exists and its value is not the key the entity is filed under
            'old_name_rawkey': tk != '' and (name == '' or name != name.casefold()),
            # del e['targetname'] looks the value up under the exact key 'targetname'
            'del_key_miss': name != '' and (tk != 'targetname' or name != name.casefold()),
        })
    return sig


def step(w: World, a: dict, tab: dict, src: str, out: hlib.RecWriter, hist=None, state=None, built=None) -> None:
    pre = w.project()
    sig = sig_for(w, pre, a, src)
    ca = w.conc_action(a, tab)
    if a['op'] == 'scan':
        q = w.scan_query(a, tab)
        ca = dict(ca, stem=q['stem'], star=q['star'], hits=q['hits'])
        exc, mexc, taken, got = w.do_scan(a, tab, a.get('nbefore', 1), q)
        rec = {'k': 'scan', 'pre': pre, 'a': ca, 'exc': exc, 'mexc': mexc, 'val': '', 'got': got, 'nbefore': taken, 'q': q['q']}
    elif a['op'] == 'iter':
        exc, mexc, got = w.do_iter(a, tab)      # exc: raised by the iteration itself; mexc: by the call in the middle
        rec = {'k': 'iter', 'pre': pre, 'a': ca, 'exc': exc, 'mexc': mexc, 'val': '', 'got': got}
    else:
        exc, val = w.do(a, tab)
        rec = {'k': 'step', 'pre': pre, 'a': ca, 'exc': exc, 'val': val}
    rec['post'] = w.project(search=True)
    act = a['mut'] if a['op'] in ('iter', 'scan') else a
    x = act.get('x')
    if x and x in w.ents and 'inmap' in sig:
        real = w.ents[x]
        name = real['targetname']
        has_key = any(k.casefold() == 'targetname' for k in real)
        # the targetname the call left behind is not the key it must be filed under
        sig['new_name_raw'] = has_key and (name == '' or name != name.casefold())
    rec['F'] = w.fold_table()
    rec['sig'] = sig
    if hist is not None:
        rec['hist'] = hist
    else:
        rec['state'] = state
        rec['raw'] = a
    if built is not None:
        rec['built'] = built
    rec['tab'] = CONCRETE.index(tab) if tab in CONCRETE else tab
    out.write(rec)


def slots_of(s: dict) -> list[str]:
    return sorted(x for x in s if x not in SPAWN.values())


def parse_record(w: World, text: str, out: hlib.RecWriter, stats: dict, extra=None) -> None:
    """The indexes straight after VMF.parse(): judged as a state (no call before it)."""
    rec = {'k': 'state', 'post': w.project(search=True), 'F': w.fold_table(),
           'sig': {'kind': 'parse', 'action': 'parse'}, 'doc': text}
    if extra:
        rec.update(extra)
    out.write(rec)
    stats['parsed_states'] = stats.get('parsed_states', 0) + 1


def replay_edges(edge_file: str, out: hlib.RecWriter, part: int, nparts: int, stats: dict) -> None:
    """Every (state, action): the source state is built on fresh objects - through the API, or (every
    other edge, and always when the worldspawn is named) by parsing a document that holds it."""
    edges = json.load(open(edge_file))
    seed = hlib.seed()
    both = hlib.tier() == 'thorough'
    seen: set = set()
    for n, e in enumerate(edges):
        if n % nparts != part:
            continue
        tab = CONCRETE[(n * 7 + seed) % len(CONCRETE)]
        named_spawn = e['s']['w1'][5] != ''
        hows = ['api', 'parse'] if both else [('parse' if (named_spawn or (n // nparts + seed) % 2) else 'api')]
        if named_spawn:
            hows = ['parse']       # a named worldspawn only comes out of a document in good order
        for how in hows:
            w = World(slots_of(e['s']))
            text = w.build(e['s'], tab, how, variant=n)
            if how == 'parse':
                key = (json.dumps(e['s'], sort_keys=True), CONCRETE.index(tab), n % 2)
                if key not in seen:
                    seen.add(key)
                    parse_record(w, text, out, stats, {'state': e['s'], 'tab': CONCRETE.index(tab), 'variant': n})
            if e['a']['op'] == 'scan':
                # the call is made after the first result, and again just before the last one, so that the
                # bucket of the entity it re-files is once still ahead and once already behind
                total = w.scan_len(e['a'], w.scan_query(e['a'], tab))
                for nb, rev in ((max(1, total - 1), False), (1, True)):
                    w2 = World(slots_of(e['s']))
                    w2.build(e['s'], tab, how, variant=n, rev=rev)    # rev: the entity's bucket comes late in the index
                    step(w2, dict(e['a'], nbefore=nb), tab, 'edge', out, state=e['s'], built=[how, n, rev])
                    stats['scans'] = stats.get('scans', 0) + 1
                continue
            step(w, e['a'], tab, 'edge', out, state=e['s'], built=[how, n])
        stats['edges_replayed'] = stats.get('edges_replayed', 0) + 1


def replay_paths(edge_file: str, out: hlib.RecWriter, stats: dict) -> None:
    edges = json.load(open(edge_file))
    key = lambda s: json.dumps(s, sort_keys=True)
    paths = hlib.bfs_paths(edges, key)
    seed = hlib.seed()
    for n, (sk, path) in enumerate(sorted(paths.items(), key=lambda kv: (len(kv[1]), kv[0]))):
        if not path:
            continue
        tab = CONCRETE[(n * 5 + seed) % len(CONCRETE)]
        w = World(slots_of(json.loads(sk)))
        for a in path[:-1]:
            if a['op'] == 'iter':
                w.do_iter(a, tab)
            elif a['op'] == 'scan':
                w.do(a['mut'], tab)
            else:
                w.do(a, tab)
        step(w, path[-1], tab, 'path', out, hist=path)
        stats['paths_replayed'] = stats.get('paths_replayed', 0) + 1
        stats['max_path'] = max(stats.get('max_path', 0), len(path))


# ---------------------------------------------------------------------- random histories
NAME_POOL = ['', 'a', 'A', 'b', 'B', 'relay', 'Relay', 'RELAY', 'straße', 'STRASSE', 'Straße', 'strasse',
             'ǅx', 'ǆx', 'ǄX', 'σς', 'ΣΣ', 'door1', 'Door1', 'door', 'DOOR2', 'x9', 'X', '1',
             'İstanbul', 'i̇stanbul', 'name with space', 'Na"me', 'ﬁsh', 'FISH', 'fish']
CLASS_POOL = ['info_target', 'Info_Target', 'INFO_TARGET', 'logic_relay', 'Logic_Relay', 'func_detail', 'worldspawn',
              'WorldSpawn', 'info_null', 'Info_Null', 'pröp', 'PRÖP', 'maß', 'MASS', 'c', 'C']
KEY_SP = ['targetname', 'TargetName', 'TARGETNAME', 'targetName']


def consistent(w: World) -> bool:
    """Optimisation only (never a verdict): stop a random history once the index went wrong, since
    TLC judges nothing after that point."""
    for m, vmf in w.maps.items():
        want_c: dict = {}
        want_t: dict = {}
        for e in list(vmf.entities) + [vmf.spawn]:
            want_c.setdefault(e['classname'].casefold(), set()).add(id(e))
            want_t.setdefault(e['targetname'].casefold() or None, set()).add(id(e))
        if {k: {id(e) for e in s} for k, s in vmf.by_class.items() if s} != want_c:
            return False
        if {k: {id(e) for e in s} for k, s in vmf.by_target.items() if s} != want_t:
            return False
    return True


def random_histories(out: hlib.RecWriter, rng: random.Random, n_hist: int, length: int, stats: dict) -> None:
    slots = [f'e{i}' for i in range(1, 21)]
    for hn in range(n_hist):
        w = World(slots)
        hist: list = []
        easy = rng.random() < 0.5      # histories that stay on all-lower-case keys run longer on this tree
        names = [n for n in NAME_POOL if n == n.casefold() and n] if easy else NAME_POOL
        classes = [c for c in CLASS_POOL if c == c.casefold()] if easy else CLASS_POOL
        if hn % 2:
            # the history starts from parsed documents instead of VMF(): world block with a classname
            # spelling and (often) a targetname, entities with duplicate / case-variant / no names, some hidden
            docs = {}
            nxt = 0
            for m in MAPS if rng.random() < 0.4 else ['m1']:
                text, n_ents = random_document(rng, names, classes, easy)
                vmf = VMF.parse(Keyvalues.parse(text))
                if len(vmf.entities) != n_ents:
                    raise SystemExit('MACHINERY: parsed document does not hold the entities written')
                w.maps[m] = vmf
                w.ents[SPAWN[m]] = vmf.spawn
                for e in vmf.entities:
                    w.ents[slots[nxt]] = e
                    w.home[slots[nxt]] = m
                    nxt += 1
                docs[m] = text
            hist.append({'op': 'parse_docs', 'docs': docs})
            parse_record(w, json.dumps(docs), out, stats, {'docs': docs})
        for _ in range(length):
            free = [x for x in slots if x not in w.ents]
            live = [x for x in slots if x in w.ents]
            loose = [x for x in live if not any(w.ents[x] is y for y in w.maps[w.home[x]].entities)]
            inmap = [x for x in live if x not in loose]
            ops = []
            if free:
                ops += ['create_ent'] * 4 + ['new']
                if live:
                    ops += ['copy'] * 2
            if loose:
                ops += ['add_ent'] * 3 + ['add_ents']
            if live:
                ops += ['set_class'] * 3 + ['set_name'] * 4 + ['update', 'del_name', 'pop_name', 'make_unique', 'make_unique', 'setdefault_name',
                                                                'remove_ent', 'ent_remove', 'del_class', 'iter', 'iter', 'scan', 'scan', 'scan']
                if not easy:
                    ops += ['clear', 'pop_class']
            ops += ['spawn'] * 3
            op = rng.choice(ops)
            x = rng.choice(live) if live else None
            k = rng.choice(['targetname'] if easy else KEY_SP)
            if op in ('create_ent', 'new'):
                n = rng.choice(names + [''])
                a = {'op': op, 'x': free[0], 'm': rng.choice(MAPS), 'c': rng.choice(classes), 'n': n,
                     'k': '' if (n == '' and rng.random() < 0.7) else k}
            elif op == 'copy':
                a = {'op': 'copy', 'x': x, 'p': free[0], 'm': rng.choice(MAPS)}
            elif op == 'add_ent':
                a = {'op': 'add_ent', 'x': rng.choice(loose)}
            elif op == 'add_ents':
                m = w.home[rng.choice(loose)]
                xs = [y for y in loose if w.home[y] == m]
                rng.shuffle(xs)
                a = {'op': 'add_ents', 'xs': xs[:rng.randint(0, 4)]}
            elif op == 'set_class':
                a = {'op': op, 'x': x, 'v': rng.choice(classes), 'ck': 'classname' if easy else rng.choice(['classname', 'ClassName', 'CLASSNAME'])}
            elif op in ('set_name', 'setdefault_name'):
                a = {'op': op, 'x': x, 'v': rng.choice(names if easy else names + ['']), 'k': k}
            elif op == 'update':
                a = {'op': op, 'x': x, 'v': rng.choice(classes), 'n': rng.choice(names), 'k': k}
            elif op == 'del_name':
                a = {'op': op, 'x': x, 'k': k}
            elif op == 'make_unique':
                a = {'op': op, 'x': x, 'prefix': rng.choice(['', 'auto', rng.choice(names)])}
            elif op == 'clear':
                a = {'op': op, 'x': x, 'c': ''}
            elif op == 'spawn':
                sp = rng.choice(['w1', 'w2'])
                # the worldspawn takes part in every operation family
                a = rng.choice([{'op': 'set_class', 'x': sp, 'v': rng.choice(['worldspawn', 'WorldSpawn', 'WORLDSPAWN', 'func_brush', ''])},
                                {'op': 'del_class', 'x': sp}, {'op': 'clear', 'x': sp, 'c': ''},
                                {'op': 'update', 'x': sp, 'v': 'func_x', 'n': 'named', 'k': 'targetname'},
                                {'op': 'update', 'x': sp, 'v': rng.choice(['worldspawn', 'WorldSpawn']), 'n': rng.choice(names), 'k': k},
                                {'op': 'set_name', 'x': sp, 'v': rng.choice(names + ['']), 'k': k},
                                {'op': 'setdefault_name', 'x': sp, 'v': rng.choice(names), 'k': k},
                                {'op': 'del_name', 'x': sp, 'k': k}, {'op': 'pop_name', 'x': sp},
                                {'op': 'make_unique', 'x': sp, 'prefix': rng.choice(['', 'world'])}]
                               + ([] if easy else [{'op': 'pop_class', 'x': sp}]))
            elif op == 'scan':
                # a lookup over several buckets in progress while an entity leaves / changes its bucket
                m = w.home[x]
                vmf = w.maps[m]
                nm = sorted({e['targetname'] for e in vmf.entities} - {''})
                kind = rng.choice(['search_star', 'search_star', 'search_exact', 'items_class', 'items_target'])
                a = {'op': 'scan', 'kind': kind, 'm': m}
                if kind == 'search_star':
                    a['q'] = rng.choice([n[:rng.randint(0, 2)] for n in nm] or ['']) + '*'
                elif kind == 'search_exact':
                    e0 = w.ents[x]
                    a['q'] = rng.choice([e0['targetname'].swapcase(), e0['classname'].swapcase()]) or 'zz'
                y = rng.choice([z for z in live if w.home[z] == m])
                a['mut'] = rng.choice([{'op': 'remove_ent', 'x': y}, {'op': 'ent_remove', 'x': y},
                                       {'op': 'set_name', 'x': y, 'v': rng.choice(names), 'k': k},
                                       {'op': 'set_class', 'x': y, 'v': rng.choice(classes)},
                                       {'op': 'update', 'x': y, 'v': rng.choice(classes), 'n': rng.choice(names), 'k': k},
                                       {'op': 'del_name', 'x': y, 'k': k}, {'op': 'pop_name', 'x': y},
                                       {'op': 'make_unique', 'x': y, 'prefix': ''}]
                                      + ([] if easy else [{'op': 'clear', 'x': y, 'c': ''}]))
                a['nbefore'] = rng.randint(1, 3)
            elif op == 'iter':
                tgt = rng.choice(inmap) if inmap else x
                kind = rng.choice(['class', 'target'])
                e = w.ents[tgt]
                key = e['classname'] if kind == 'class' else e['targetname']
                y = rng.choice(live)
                mut = rng.choice([{'op': 'set_class', 'x': y, 'v': rng.choice(classes)},
                                  {'op': 'set_name', 'x': y, 'v': rng.choice(names), 'k': 'targetname'},
                                  {'op': 'remove_ent', 'x': y}, {'op': 'del_name', 'x': y, 'k': 'targetname'}]
                                 + ([{'op': 'create_ent', 'x': free[0], 'm': w.home[tgt], 'c': e['classname'] or 'c',
                                      'n': e['targetname'], 'k': 'targetname' if e['targetname'] else ''}] if free else []))
                a = {'op': 'iter', 'kind': kind, 'm': w.home[tgt], 'key': key, 'mut': mut}
            else:
                a = {'op': op, 'x': x}
            hist.append(a)
            step(w, a, {}, 'random', out, hist=list(hist))
            stats['random_steps'] = stats.get('random_steps', 0) + 1
            if not consistent(w):
                break


def random_document(rng: random.Random, names: list, classes: list, easy: bool) -> tuple:
    """-> (VMF text, number of entities): a world block whose classname is a spelling of worldspawn and
    which often carries a targetname; entities with names from the hostile-case pool (duplicates and
    case variants of one another on purpose), some without targetname, some hidden."""
    sp = ['targetname'] if easy else KEY_SP
    wname = rng.choice(names + ['']) if rng.random() < 0.7 else None
    text = 'versioninfo\n{\n\t"formatversion" "100"\n}\n'
    text += ent_block('world', 1, rng.choice(['worldspawn'] if easy else ['worldspawn', 'WorldSpawn', 'WORLDSPAWN']),
                      rng.choice(sp) if wname is not None else '', wname or '')
    n = rng.randint(0, 6)
    pool = [rng.choice(names) for _ in range(2)] + ([wname] if wname else [])
    for i in range(n):
        r = rng.random()
        if r < 0.25:
            tk, name = '', ''
        else:
            name = rng.choice(pool) if r < 0.7 else rng.choice(names + [''])
            if not easy and rng.random() < 0.3:
                name = name.swapcase()
            tk = rng.choice(sp)
        text += ent_block('entity', i + 2, rng.choice(classes), tk, name, hidden=rng.random() < 0.3)
    return text, n


def random_parse(out: hlib.RecWriter, rng: random.Random, n_docs: int, stats: dict) -> None:
    """The indexes of a parsed map straight after parse(): documents written by export() of a built map,
    and hand-written ones whose world block is named."""
    for i in range(n_docs):
        if i % 2:
            text, _ = random_document(rng, NAME_POOL, CLASS_POOL, False)
        else:
            src = VMF()
            for _ in range(rng.randint(0, 6)):
                kw = {}
                if rng.random() < 0.7:
                    kw[rng.choice(KEY_SP)] = rng.choice([n for n in NAME_POOL if '"' not in n])
                src.create_ent(rng.choice(CLASS_POOL), **kw)
            if rng.random() < 0.5:
                src.spawn['targetname'] = rng.choice(NAME_POOL)
            text = src.export()
        w = parsed_world(text)
        parse_record(w, text, out, stats)
        stats['parsed'] = stats.get('parsed', 0) + 1


def start_from_docs(w: World, docs: dict) -> None:
    nxt = 0
    for m in sorted(docs):
        vmf = VMF.parse(Keyvalues.parse(docs[m]))
        w.maps[m] = vmf
        w.ents[SPAWN[m]] = vmf.spawn
        for e in vmf.entities:
            w.ents[w.slots[nxt]] = e
            w.home[w.slots[nxt]] = m
            nxt += 1


def parsed_world(text: str) -> World:
    vmf = VMF.parse(Keyvalues.parse(text))
    w = World([f'e{i + 1}' for i in range(len(vmf.entities))])
    w.maps = {'m1': vmf}
    w.ents = {'w1': vmf.spawn}
    w.home = {'w1': 'm1'}
    for i, e in enumerate(vmf.entities):
        w.ents[f'e{i + 1}'] = e
        w.home[f'e{i + 1}'] = 'm1'
    return w


def project_single(w: World) -> dict:
    return w.project(search=True)


def main() -> None:
    mode = sys.argv[1]
    stats: dict = {}
    if mode == 'edges':
        out = hlib.RecWriter(sys.argv[3])
        replay_edges(sys.argv[2], out, int(sys.argv[4]), int(sys.argv[5]), stats)
    elif mode == 'paths':
        out = hlib.RecWriter(sys.argv[3])
        replay_paths(sys.argv[2], out, stats)
    elif mode == 'random':
        out = hlib.RecWriter(sys.argv[2])
        rng = random.Random(hlib.seed() * 104729 + 7)
        thorough = hlib.tier() == 'thorough'
        random_histories(out, rng, 4000 if thorough else 400, 40, stats)
        random_parse(out, rng, 300 if thorough else 40, stats)
    elif mode == 'replay':
        rp = json.load(open(sys.argv[2]))
        rec = rp['record']
        out = hlib.RecWriter(sys.argv[3])
        if rec['k'] == 'state':
            if 'docs' in rec:
                w = World([f'e{i}' for i in range(1, 21)])
                start_from_docs(w, rec['docs'])
                parse_record(w, json.dumps(rec['docs']), out, stats, {'docs': rec['docs']})
            elif 'state' in rec:
                w = World(slots_of(rec['state']))
                text = w.build(rec['state'], CONCRETE[rec['tab']], 'parse', rec.get('variant', 0))
                parse_record(w, text, out, stats, {'state': rec['state'], 'tab': rec['tab'], 'variant': rec.get('variant', 0)})
            else:
                parse_record(parsed_world(rec['doc']), rec['doc'], out, stats)
        else:
            tab = CONCRETE[rec['tab']] if isinstance(rec.get('tab'), int) else (rec.get('tab') or {})
            src = rp.get('kind', 'edge')
            if 'hist' in rec:
                hist = rec['hist']
                if hist and hist[0].get('op') == 'parse_docs':
                    w = World([f'e{i}' for i in range(1, 21)])
                    start_from_docs(w, hist[0]['docs'])
                else:
                    w = World(sorted({a.get(f) for a in hist for f in ('x', 'p') if a.get(f)}
                                     | {x for a in hist for x in a.get('xs', [])}
                                     | {a['mut']['x'] for a in hist if 'mut' in a} - set(SPAWN.values())))
                for a in hist[:-1]:
                    if a['op'] == 'parse_docs':
                        continue
                    if a['op'] == 'iter':
                        w.do_iter(a, tab)
                    elif a['op'] == 'scan':
                        w.do(a['mut'], tab)
                    else:
                        w.do(a, tab)
                step(w, hist[-1], tab, src, out, hist=hist)
            else:
                built = rec.get('built') or ['api', 0]
                how, n, rev = built[0], built[1], (built[2] if len(built) > 2 else False)
                w = World(slots_of(rec['state']))
                w.build(rec['state'], tab, how, variant=n, rev=rev)
                step(w, rec['raw'], tab, src, out, state=rec['state'], built=[how, n, rev])
    else:
        raise SystemExit(2)
    out.close()
    stats['records'] = out.n
    print(json.dumps(stats))


if __name__ == '__main__':
    main()
