"""C13 driver: executes operation histories on real srctools VPK archives in temporary directories
and logs one record per API call: projected state before/after, outcome, what the public API
answers afterwards.  The projection is independent of srctools' reader: the _dir file is decoded by
the small decoder below (written from the format description), numbered archives and the footer are
matched byte-wise against the contents the harness itself supplied.

Modes:
  walk <edges.json> <cfg.json> <out> <sample>   cover the TLC-enumerated transitions by one long walk
                                                (sample = 0: all edges; else a seeded sample of that many)
  sim <behaviours.json> <cfg.json> <out>        replay TLC-simulated behaviours (lists of actions)
  random <out>                                  seeded random histories far outside the bounds + name forms
  replay <replay.json> <out>                    re-execute the history stored in a replay file
"""
from __future__ import annotations

import itertools
import json
import os
import random
import shutil
import struct
import sys
import tempfile
import zlib
from collections import deque

from vlib import hlib

hlib.require_repo_src()
from srctools.vpk import VPK, _get_file_parts  # noqa: E402

PRE_MAX = 65535
# concrete spellings for the abstract names: (folder, name, extension), including empty parts
NAME_TABLE = [
    ('materials/metal', 'wall001', 'vmt'), ('', 'readme', ''), ('', 'gameinfo', 'txt'), ('scripts', 'noext', ''),
    ('a/b/c', 'deep', 'vtf'), ('models', 'two.dots', 'mdl'), ('sound/vo', '', 'wav'), ('x', 'UPPER', 'TXT'),
    ('cfg', 'a', 'b'), ('', 'x.y', 'z'), ('maps/graphs', 'file-1_2', 'ain'), ('d', 'n', ''),
]


# ------------------------------------------------------------------ contents
class Contents:
    """Content id c (1..) of size sz[c-1]; id 0 = empty.  Bytes are pseudo-random with a unique tag byte
    at every position where a content may be cut (0, the preload limit, 65535), so that a byte string
    that is a concatenation of content tails parses in exactly one way."""

    def __init__(self, sizes: list, limit: int, seed: int) -> None:
        self.sizes = list(sizes)
        self.cuts = sorted({0, PRE_MAX} | ({limit} if limit >= 0 else set()))
        self.data = {0: b''}
        self.tag = {}
        tagno = 0
        for c, n in enumerate(sizes, start=1):
            buf = bytearray(random.Random(f'{seed}/{c}/{n}').randbytes(n))
            for lo in self.cuts:
                if lo < n:
                    tagno += 1
                    buf[lo] = tagno
                    self.tag[tagno] = (c, lo)
            self.data[c] = bytes(buf)
        if tagno > 255:
            raise RuntimeError('too many contents')
        self.by_crc = {zlib.crc32(b) & 0xffffffff: c for c, b in self.data.items()}
        self.by_bytes = {b: c for c, b in self.data.items()}

    def cid(self, b: bytes) -> int:
        return self.by_bytes.get(bytes(b), -1)

    def prefix_of(self, b: bytes) -> int:
        """content whose first len(b) bytes are b (0 for the empty string, -1 if none)"""
        if not b:
            return 0
        for c, d in self.data.items():
            if c and d[:len(b)] == b:
                return c
        return -1

    def describe(self, b: bytes) -> list:
        """b as a sequence of segments [c, lo, n]; stretches that cannot be matched (dead space, foreign
        bytes) are Garbage segments, and matching resumes behind them."""
        out = []
        pos = 0
        n = len(b)
        junk = 0
        while pos < n:
            hit = self.tag.get(b[pos])
            seg = None
            if hit is not None:
                c, lo = hit
                tail = self.data[c][lo:]
                if b[pos:pos + len(tail)] == tail:
                    seg = {'c': c, 'lo': lo, 'n': len(tail)}
            if seg is None:
                junk += 1
                pos += 1
                continue
            if junk:
                out.append({'c': -1, 'lo': 0, 'n': junk})
                junk = 0
            out.append(seg)
            pos += seg['n']
        if junk:
            out.append({'c': -1, 'lo': 0, 'n': junk})
        return out


# ------------------------------------------------------------------ independent _dir decoder
def decode_dir(raw: bytes):
    """VPK v1 directory file -> ({(ext, folder, name): (crc, preload, arch_index, offset, length)}, footer).
    Raises ValueError on anything malformed."""
    if len(raw) < 12:
        raise ValueError('short header')
    sig, version, tree_len = struct.unpack_from('<III', raw, 0)
    if sig != 0x55aa1234 or version != 1 or 12 + tree_len > len(raw):
        raise ValueError('bad header')
    end = 12 + tree_len
    pos = 12

    def cstr():
        nonlocal pos
        z = raw.index(b'\0', pos, end)
        s = raw[pos:z].decode('ascii')
        pos = z + 1
        return s
    files = {}
    while True:
        ext = cstr()
        if ext == '':
            break
        while True:
            folder = cstr()
            if folder == '':
                break
            while True:
                name = cstr()
                if name == '':
                    break
                crc, plen, idx, off, ln, term = struct.unpack_from('<IHHIIH', raw, pos)
                pos += 18
                if term != 0xffff or pos + plen > end:
                    raise ValueError('bad entry')
                key = tuple('' if x == ' ' else x for x in (ext, folder, name))
                if key in files:
                    raise ValueError('duplicate entry')
                files[key] = (crc, raw[pos:pos + plen], idx, off, ln)
                pos += plen
    if pos != end:
        raise ValueError('tree length mismatch')
    return files, raw[end:]


def join_name(folder: str, name: str, ext: str) -> str:
    return f"{folder}{'/' if folder else ''}{name}{'.' if ext else ''}{ext}"


# ------------------------------------------------------------------ the real archive
class World:
    def __init__(self, base: str, cfg: dict, seed: int, names: dict) -> None:
        self.dir = tempfile.mkdtemp(prefix='v', dir=base)
        self.cfg = cfg
        self.limit = cfg['limit']
        self.fname = cfg['fname']
        # only a name ending in exactly '_dir.vpk' is a directory archive (what the code does: case-sensitive)
        self.single = not self.fname.endswith('_dir.vpk')
        self.narch = cfg['narch']
        self.con = Contents(cfg['sz'], self.limit, seed)
        self.names = names                      # abstract -> (folder, name, ext)
        self.back = {join_name(*t): n for n, t in names.items()}
        self.path = os.path.join(self.dir, self.fname)
        self.vpk = None
        self.want: dict = {}
        self.want_disk: dict = {}
        self.hist: list = []
        self.synth_state: dict = {}

    def close(self) -> None:
        shutil.rmtree(self.dir, ignore_errors=True)

    def arch_path(self, k: int) -> str:
        return os.path.join(self.dir, f'{self.fname[:-len("_dir.vpk")]}_{k:03}.vpk')

    # -- projection
    def _entry(self, crc, pre, idx, off, ln) -> dict:
        if ln == 0:
            idx, off = -1, 0                 # the location of an empty tail means nothing (the loader resets it too)
        elif idx is None or idx == 0x7fff:
            idx = -1
        return {'c': self.con.by_crc.get(crc & 0xffffffff, -1), 'plen': len(pre), 'pc': self.con.prefix_of(pre),
                'idx': idx, 'off': off, 'len': ln}

    def _abs(self, filename: str) -> str:
        return self.back.get(filename, '?' + filename)

    def _disk(self) -> dict:
        if not os.path.exists(self.path):
            return {'st': 'missing', 'tree': {}, 'foot': []}
        with open(self.path, 'rb') as f:
            raw = f.read()
        if not raw:
            return {'st': 'empty', 'tree': {}, 'foot': []}
        try:
            files, foot = decode_dir(raw)
        except (ValueError, struct.error, UnicodeDecodeError):
            return {'st': 'junk', 'tree': {}, 'foot': []}
        tree = {}
        for (ext, folder, name), (crc, pre, idx, off, ln) in files.items():
            tree[self._abs(join_name(folder, name, ext))] = self._entry(crc, pre, idx, off, ln)
        return {'st': 'ok', 'tree': tree, 'foot': self.con.describe(foot)}

    def project(self) -> dict:
        tree = {}
        foot = []
        mode = 'none'
        if self.vpk is not None:
            mode = self.vpk.mode.value
            for info in self.vpk:
                tree[self._abs(info.filename)] = self._entry(info.crc, info.start_data, info.arch_index,
                                                             info.offset, info.arch_len)
            foot = self.con.describe(self.vpk.footer_data)
        arch = []
        for k in range(self.narch):
            p = self.arch_path(k)
            if not self.single and os.path.exists(p):
                with open(p, 'rb') as f:
                    arch.append(self.con.describe(f.read()))
            else:
                arch.append([])
        files = {}
        for nm in sorted(os.listdir(self.dir)):
            if nm != self.fname:
                with open(os.path.join(self.dir, nm), 'rb') as f:
                    files[nm] = self.con.describe(f.read())
        # 'arch' (by the harness's own naming) is only used to follow the model in a walk; TLC judges 'files'
        return {'mode': mode, 'tree': tree, 'foot': foot, 'arch': arch, 'files': files, 'disk': self._disk(),
                'want': dict(self.want), 'wantDisk': dict(self.want_disk)}

    # -- put the files of a model state on disk with the harness's own encoder (no srctools involved)
    def _bytes(self, segs: list) -> bytes:
        return b''.join(self.con.data[g['c']][g['lo']:g['lo'] + g['n']] for g in segs)

    def synth(self, state: dict) -> None:
        for k, segs in enumerate(state['arch']):
            if segs:
                with open(self.arch_path(k), 'wb') as f:
                    f.write(self._bytes(segs))
        d = state['disk']
        tree: dict = {}
        for n, e in (d['tree'] or {}).items():
            folder, name, ext = self.names[n]
            tree.setdefault(ext, {}).setdefault(folder, {})[name] = e
        body = bytearray()
        zs = lambda x: (x.encode('ascii') if x else b' ') + b'\0'      # noqa: E731
        for ext in sorted(tree):
            body += zs(ext)
            for folder in sorted(tree[ext]):
                body += zs(folder)
                for name in sorted(tree[ext][folder]):
                    e = tree[ext][folder][name]
                    pre = self.con.data[e['pc']][:e['plen']]
                    body += zs(name) + struct.pack('<IHHIIH', zlib.crc32(self.con.data[e['c']]) & 0xffffffff, e['plen'],
                                                    0x7fff if e['idx'] < 0 else e['idx'], e['off'], e['len'], 0xffff) + pre
                body += b'\0'
            body += b'\0'
        body += b'\0'
        with open(self.path, 'wb') as f:
            f.write(struct.pack('<III', 0x55aa1234, 1, len(body)) + bytes(body) + self._bytes(d['foot']))
        self.want_disk = dict(state['wantDisk'] or {})
        self.synth_state = state

    # -- spellings
    def form(self, n: str, kind: str):
        folder, name, ext = self.names[n]
        if kind == 's':
            return join_name(folder, name, ext)
        if kind == 't2':
            return (folder, name + ('.' + ext if ext else ''))
        return (folder, name, ext)

    # -- what the API answers
    def _cid(self, fn) -> int:
        try:
            return self.con.cid(fn())
        except Exception:       # noqa: BLE001
            return -2

    def observe(self) -> dict:
        obs = {'names': [], 'len': 0, 'read': {}, 'verify': {}, 'verify_all': True, 'forms': {}}
        v = self.vpk
        if v is not None:
            obs['names'] = sorted(self._abs(x) for x in v.filenames())
            obs['len'] = len(v)
            for info in v:
                n = self._abs(info.filename)
                obs['read'][n] = self._cid(info.read)
                try:
                    obs['verify'][n] = bool(info.verify())
                except Exception:       # noqa: BLE001
                    obs['verify'][n] = False
            try:
                obs['verify_all'] = bool(v.verify_all())
            except Exception:       # noqa: BLE001
                obs['verify_all'] = False
            for n in self.names:
                lst = []
                for kind in ('s', 't2', 't3'):
                    key = self.form(n, kind)
                    has = key in v
                    cid = 0
                    if has:
                        cid = self._cid(lambda key=key: v[key].read())
                    lst.append({'f': kind, 'has': has, 'cid': cid})
                obs['forms'][n] = lst
        fresh = {'ok': False, 'names': [], 'read': {}, 'verify': {}}
        if os.path.exists(self.path):
            try:
                fv = VPK(self.path, mode='r', dir_data_limit=None if self.limit < 0 else self.limit)
                fresh['ok'] = True
                fresh['names'] = sorted(self._abs(x) for x in fv.filenames())
                for info in fv:
                    n = self._abs(info.filename)
                    fresh['read'][n] = self._cid(info.read)
                    try:
                        fresh['verify'][n] = bool(info.verify())
                    except Exception:       # noqa: BLE001
                        fresh['verify'][n] = False
            except Exception:       # noqa: BLE001
                fresh['ok'] = False
        obs['fresh'] = fresh
        return obs

    # -- one call
    def apply(self, a: dict) -> str:
        op = a['op']
        idx = None if a['a'] < 0 else a['a']
        try:
            if op == 'reopen':
                existed = os.path.exists(self.path) and os.path.getsize(self.path) > 0
                try:
                    new = VPK(self.path, mode=a['m'], dir_data_limit=None if self.limit < 0 else self.limit)
                except Exception:       # noqa: BLE001 - whatever the constructor raises, no new object exists
                    return 'error'
                self.vpk = new
                if a['m'] == 'w' or not existed:
                    self.want, self.want_disk = {}, {}
                else:
                    self.want = dict(self.want_disk)
                return 'ok'
            v = self.vpk
            key = self.form(a['n'], a['form']) if a['n'] else None
            if op == 'newfile':
                v.new_file(key)
                self.want[a['n']] = 0
            elif op == 'addfile':
                v.add_file(key, self.con.data[a['c']], arch_index=idx)
                self.want[a['n']] = a['c']
            elif op == 'write':
                v[key].write(self.con.data[a['c']], idx)
                self.want[a['n']] = a['c']
            elif op == 'del':
                del v[key]
                self.want.pop(a['n'], None)
            elif op == 'writedir':
                v.write_dirfile()
                self.want_disk = dict(self.want)
            else:
                raise RuntimeError(op)
            return 'ok'
        except (ValueError, FileExistsError, KeyError) as exc:
            return type(exc).__name__
        except Exception as exc:       # noqa: BLE001
            return 'raised:' + type(exc).__name__

    def sig(self, a: dict, pre: dict) -> dict:
        """Abstract parameters of the call (to match known findings)."""
        size = self.con.sizes[a['c'] - 1] if a['c'] > 0 else 0
        lim = self.limit
        code_cut = size if (self.single or lim < 0) else min(lim, size)
        cut = min(code_cut, PRE_MAX)
        over = any(e['plen'] > PRE_MAX for e in pre['tree'].values())
        return {'kind': 'vpk', 'action': a['op'], 'single': self.single,
                'limit': 'none' if lim < 0 else ('over64k' if lim > PRE_MAX else 'num'),
                'idx': 'none' if a['a'] < 0 else 'num',
                'tail': a['op'] in ('addfile', 'write') and size > cut,
                'nonempty': size > 0,
                'pre_over': (a['op'] in ('addfile', 'write') and code_cut > PRE_MAX) or (a['op'] == 'writedir' and over)}

    def step(self, a: dict, out, t: int, how: str) -> dict:
        """Apply one action and log the record; returns the post projection."""
        pre = self.project()
        self.hist.append([a['op'], a['n'], a['c'], a['a'], a['m'], a['form']])
        res = self.apply(a)
        post = self.project()
        synth, self.synth_state = self.synth_state, {}
        rec = {'k': 'step', 't': t, 'i': len(self.hist), 'how': how, 'synth': synth,
               'cfg': {'sz': self.con.sizes, 'limit': self.limit, 'fname': self.fname, 'narch': self.narch,
                       'names': {n: list(tr) for n, tr in self.names.items()}},
               'sig': self.sig(a, pre), 'pre': pre, 'a': a, 'res': res, 'post': post, 'obs': self.observe()}
        out.write(rec)
        return post


def pick_names(abstract: list, rnd: random.Random) -> dict:
    return dict(zip(sorted(abstract), rnd.sample(NAME_TABLE, len(abstract))))


def canon(o):
    """TLC prints an empty function as []: make both sides comparable."""
    if isinstance(o, dict):
        return {k: canon(v) for k, v in o.items()}
    if isinstance(o, list):
        return [canon(v) for v in o]
    return o


def canon_fn(o):
    return {} if o == [] else o


def same_state(tla: dict, proj: dict) -> bool:
    def norm(s):
        s = canon(s)
        s.pop('files', None)
        for k in ('tree', 'want', 'wantDisk'):
            if s.get(k) == []:
                s[k] = {}
        d = dict(s['disk'])
        if d.get('tree') == []:
            d['tree'] = {}
        s['disk'] = d
        return s
    return norm(tla) == norm(proj)


def action_of(a: dict, rnd: random.Random) -> dict:
    return {'op': a['op'], 'n': a['n'], 'c': a['c'], 'a': a['a'], 'm': a['m'], 'form': rnd.choice(['s', 't2', 't3'])}


# ------------------------------------------------------------------ modes
def mode_walk(edges_file: str, cfg_file: str, out_path: str, sample: int) -> None:
    with open(edges_file) as f:
        edges = json.load(f)
    with open(cfg_file) as f:
        cfg = json.load(f)
    rnd = random.Random(hlib.seed() * 7919 + 13)
    key = lambda s: json.dumps(s, sort_keys=True)     # noqa: E731
    for e in edges:
        e['ks'] = key(e['s'])
        e['kt'] = key(e['t'])
    succ: dict = {}
    for k, e in enumerate(edges):
        succ.setdefault(e['ks'], []).append(k)
    inits = {e['ks'] for e in edges if e['s']['mode'] == 'none'}
    if len(inits) != 1:
        raise RuntimeError(f'{len(inits)} initial states in the edge dump')
    init = inits.pop()
    if sample and sample < len(edges):
        todo = set(rnd.sample(range(len(edges)), sample))
    else:
        todo = set(range(len(edges)))
    todo_at: dict = {}
    for k in todo:
        todo_at.setdefault(edges[k]['ks'], set()).add(k)
    out = hlib.RecWriter(out_path)
    base = tempfile.mkdtemp(prefix='c13_')
    stats = {'edges': len(edges), 'covered': 0, 'transit': 0, 'restarts': 0, 'diverged': 0}
    broken: set = set()         # edges on which the code left the model's path: never used for transit again
    stats['teleports'] = 0
    state_of = {}
    for e in edges:
        state_of.setdefault(e['ks'], e['s'])
        state_of.setdefault(e['kt'], e['t'])

    def loaded(st: dict) -> bool:
        d = st['disk']
        return (st['mode'] in ('a', 'r') and d['st'] == 'ok' and canon_fn(d['tree']) == canon_fn(st['tree'])
                and d['foot'] == st['foot'] and canon_fn(st['want']) == canon_fn(st['wantDisk']))
    teleports = sorted(k for k, st in state_of.items() if loaded(st))
    dead: set = set()

    def reach_todo(src: str) -> bool:
        seen = {src}
        dq = deque([src])
        while dq:
            x = dq.popleft()
            if todo_at.get(x):
                return True
            for k in succ.get(x, ()):
                kt = edges[k]['kt']
                if kt not in seen and k not in broken:
                    seen.add(kt)
                    dq.append(kt)
        return False
    t = 0
    try:
        world = None
        cur = None
        while todo:
            if cur is None:
                if world is not None:
                    world.close()
                t += 1
                world = World(base, cfg, hlib.seed() + t, pick_names(cfg['names'], rnd))
                cur = init
                stats['restarts'] += 1
            if todo_at.get(cur):
                k = todo_at[cur].pop()
                path = [k]
            else:
                # nearest state with an uncovered outgoing edge
                prev = {cur: None}
                dq = deque([cur])
                goal = None
                while dq:
                    s = dq.popleft()
                    if todo_at.get(s):
                        goal = s
                        break
                    for k in succ.get(s, ()):
                        kt = edges[k]['kt']
                        if kt not in prev and k not in broken:
                            prev[kt] = (s, k)
                            dq.append(kt)
                if goal is None:
                    if cur == init and world is not None and not world.hist:
                        # what is left can only be reached through transitions the code does not follow:
                        # put the files of a model state (just loaded: memory = _dir file) on disk with the
                        # harness's own encoder and continue from there
                        tp = None
                        for cand in teleports:
                            if cand in dead:
                                continue
                            if reach_todo(cand):
                                tp = cand
                                break
                            dead.add(cand)
                        if tp is None:
                            stats['unreachable'] = len(todo)
                            break
                        state = state_of[tp]
                        world.synth(state)
                        post = world.step({'op': 'reopen', 'n': '', 'c': 0, 'a': -1, 'm': state['mode'], 'form': 's'},
                                          out, t, 'walk')
                        stats['teleports'] += 1
                        if same_state(state, post):
                            cur = tp
                        else:
                            dead.add(tp)
                            cur = None
                        continue
                    cur = None
                    continue
                path = []
                s = goal
                while prev[s] is not None:
                    s, k = prev[s]
                    path.append(k)
                path.reverse()
            for k in path:
                e = edges[k]
                post = world.step(action_of(e['a'], rnd), out, t, 'walk')
                if k in todo:
                    todo.discard(k)
                    todo_at.get(e['ks'], set()).discard(k)
                    stats['covered'] += 1
                else:
                    stats['transit'] += 1
                if same_state(e['t'], post):
                    cur = e['kt']
                else:
                    stats['diverged'] += 1      # the code left the model's path: judged by TLC; start over
                    broken.add(k)
                    cur = None
                    break
        if world is not None:
            world.close()
    finally:
        out.close()
        shutil.rmtree(base, ignore_errors=True)
    print(json.dumps(stats))


def mode_sim(beh_file: str, cfg_file: str, out_path: str) -> None:
    with open(beh_file) as f:
        behs = json.load(f)
    with open(cfg_file) as f:
        cfg = json.load(f)
    rnd = random.Random(hlib.seed() * 104729 + 5)
    out = hlib.RecWriter(out_path)
    base = tempfile.mkdtemp(prefix='c13_')
    try:
        for t, beh in enumerate(behs, start=1):
            world = World(base, cfg, hlib.seed() + t, pick_names(cfg['names'], rnd))
            for a in beh:
                world.step(action_of(a, rnd), out, t, 'sim')
            world.close()
    finally:
        out.close()
        shutil.rmtree(base, ignore_errors=True)
    print(json.dumps({'behaviours': len(behs), 'records': out.n}))


BOUNDARY = [0, 1, 2, 1023, 1024, 1025, 4096, 65534, 65535, 65536, 65537, 70000, 131072, 200000, 307200]


def mode_random(out_path: str) -> None:
    rnd = random.Random(hlib.seed() * 15485863 + 1)
    thorough = hlib.tier() == 'thorough'
    out = hlib.RecWriter(out_path)
    base = tempfile.mkdtemp(prefix='c13_')
    try:
        ntraces = 250 if thorough else 14
        for t in range(1, ntraces + 1):
            limit = rnd.choice([-1, 0, 1, 2, 100, 1024, 1024, 4096, 65535, 65536, 70000])
            fname = rnd.choice(['pak01_dir.vpk', '_dir.vpk', 'x_dir_dir.vpk', 'a.b_dir.vpk', 'pak01_dir.vpk', '_dir.vpk',
                                'foo.vpk', 'pak_DIR.vpk', 'pak_dir.VPK', 'dir.vpk'])
            sizes = []
            for _ in range(rnd.randrange(3, 7)):
                r = rnd.random()
                if r < 0.4:
                    sizes.append(max(1, rnd.choice(BOUNDARY)))
                elif r < 0.7 and limit > 0:
                    sizes.append(max(1, limit + rnd.choice([-1, 0, 1, 2])))
                else:
                    sizes.append(rnd.randrange(1, 307201))
            names = ['n1', 'n2', 'n3', 'n4'][:rnd.randrange(2, 5)]
            cfg = {'sz': sizes, 'limit': limit, 'fname': fname, 'narch': 3, 'names': names}
            world = World(base, cfg, hlib.seed() * 1000 + t, pick_names(names, rnd))
            steps = rnd.randrange(8, 30)
            a = {'op': 'reopen', 'n': '', 'c': 0, 'a': -1, 'm': rnd.choice(['w', 'a', 'w', 'r']), 'form': 's'}
            world.step(a, out, t, 'random')
            for _ in range(steps):
                r = rnd.random()
                n = rnd.choice(names)
                c = rnd.randrange(0, len(sizes) + 1)
                ai = rnd.choice([-1, 0, 0, 1, 2])
                form = rnd.choice(['s', 't2', 't3'])
                if r < 0.30:
                    a = {'op': 'addfile', 'n': n, 'c': c, 'a': ai, 'm': '', 'form': form}
                elif r < 0.50:
                    a = {'op': 'write', 'n': n, 'c': c, 'a': ai, 'm': '', 'form': form}
                elif r < 0.58:
                    a = {'op': 'newfile', 'n': n, 'c': 0, 'a': -1, 'm': '', 'form': form}
                elif r < 0.68:
                    a = {'op': 'del', 'n': n, 'c': 0, 'a': -1, 'm': '', 'form': form}
                elif r < 0.85:
                    a = {'op': 'writedir', 'n': '', 'c': 0, 'a': -1, 'm': '', 'form': 's'}
                else:
                    a = {'op': 'reopen', 'n': '', 'c': 0, 'a': -1, 'm': rnd.choice(['r', 'w', 'a', 'a']), 'form': 's'}
                if world.vpk is None and a['op'] != 'reopen':
                    continue
                world.step(a, out, t, 'random')
            world.close()
        # name spellings: every string over a small alphabet, as string / 2-tuple / 3-tuple
        alpha = 'a./'
        strings = [''.join(p) for k in range(0, 5) for p in itertools.product(alpha, repeat=k)]
        cps = lambda s: [ord(ch) for ch in s]        # noqa: E731
        count = 0

        def parts_rec(form, v):
            nonlocal count
            res = _get_file_parts(v[0] if form == 's' else tuple(v))
            out.write({'k': 'parts', 'form': form, 'v': [cps(x) for x in v], 'res': [cps(x) for x in res],
                       'sig': {'kind': 'parts', 'action': form}})
            count += 1
        for s in strings:
            parts_rec('s', [s])
        short = [''.join(p) for k in range(0, 3) for p in itertools.product(alpha, repeat=k)]
        for p in short:
            for f in short:
                parts_rec('t2', [p, f])
        tiny = [''.join(p) for k in range(0, 2) for p in itertools.product(alpha, repeat=k)] + ['a.a', '..', 'a/']
        for p in short:
            for f in tiny:
                for e in ['', 'a', '.', 'a.a']:
                    parts_rec('t3', [p, f, e])
        extra = 'ab./\\_- X'
        for _ in range(4000 if thorough else 600):
            mk = lambda: ''.join(rnd.choice(extra) for _ in range(rnd.randrange(0, 9)))   # noqa: E731
            form = rnd.choice(['s', 't2', 't3'])
            parts_rec(form, [mk() for _ in range({'s': 1, 't2': 2, 't3': 3}[form])])
    finally:
        out.close()
        shutil.rmtree(base, ignore_errors=True)
    print(json.dumps({'records': out.n, 'parts': count}))


def mode_replay(replay_file: str, out_path: str) -> None:
    with open(replay_file) as f:
        rec = json.load(f)['record']
    out = hlib.RecWriter(out_path)
    base = tempfile.mkdtemp(prefix='c13_')
    try:
        if rec.get('k') == 'parts':
            v = [''.join(chr(x) for x in s) for s in rec['v']]
            res = _get_file_parts(v[0] if rec['form'] == 's' else tuple(v))
            out.write({'k': 'parts', 'form': rec['form'], 'v': rec['v'], 'res': [[ord(ch) for ch in x] for x in res],
                       'sig': {'kind': 'parts', 'action': rec['form']}})
        else:
            cfg = dict(rec['cfg'])
            names = {n: tuple(tr) for n, tr in cfg.pop('names').items()}
            cfg['names'] = sorted(names)
            world = World(base, cfg, rec.get('seed', 0), names)
            for h in rec['hist']:
                if h['synth']:
                    world.synth(h['synth'])
                world.step(h['a'], out, 1, 'replay')
            world.close()
    finally:
        out.close()
        shutil.rmtree(base, ignore_errors=True)


def main() -> None:
    mode = sys.argv[1]
    if mode == 'walk':
        mode_walk(sys.argv[2], sys.argv[3], sys.argv[4], int(sys.argv[5]))
    elif mode == 'sim':
        mode_sim(sys.argv[2], sys.argv[3], sys.argv[4])
    elif mode == 'random':
        mode_random(sys.argv[2])
    elif mode == 'replay':
        mode_replay(sys.argv[2], sys.argv[3])
    else:
        raise SystemExit(f'unknown mode {mode}')


if __name__ == '__main__':
    main()
