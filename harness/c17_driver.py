"""C17 driver: runs srctools.instancing.collapse_one / collapse_all on real VMFs and logs one record
per call (projected template before/after, instance, projection of what was placed).  TLC judges
the records (specs/InstancesTrace.tla).  Modes:
  scen <scen.json> <out>      TLC-enumerated collapse scenarios (template x placement x style x table; sequences)
  subst <out>                 EntityFixup.substitute / Instance.fixup_name, exhaustive small + seeded random
  edges <edges.json> <out>    every transition of the Instances machine replayed on a real map
  runs <edges.json> <out>     collapse_all on every inclusion graph of the machine + seeded larger graphs
  random <out>                seeded random templates and lattice placements far outside the bounds
  numeric <out>               arbitrary real rotations: numeric residue against an independent matrix computation
  replay <replay.json> <out>  re-execute the scenario stored in a replay file
"""
from __future__ import annotations

import hashlib
import json
import logging
import math
import random
import sys
from collections import deque

from vlib import hlib

hlib.require_repo_src()
import srctools.instancing as instancing  # noqa: E402
from srctools.fgd import EntityDef, ValueTypes  # noqa: E402
from srctools.filesys import VirtualFileSystem  # noqa: E402
from srctools.instancing import FixupStyle, Instance, InstanceFile, collapse_all, collapse_one  # noqa: E402
from srctools.keyvalues import Keyvalues  # noqa: E402
from srctools.math import Matrix, Vec  # noqa: E402
from srctools.vmf import VMF, Entity, EntityFixup, FixupValue, Output, Side, Solid, UVAxis, VisGroup  # noqa: E402

logging.disable(logging.CRITICAL)      # "Unknown keyvalue" warnings are expected
RC_ATTR = instancing.RECUR_COUNT_ATTR


# ------------------------------------------------------------------ projection helpers
class OffLattice(Exception):
    pass


class Diverged(Exception):
    """The real map is no longer in the state the model's path leads to (an earlier step already mismatched)."""


def cp(s: str) -> list:
    return [ord(c) for c in s]


def uncp(c: list) -> str:
    return ''.join(chr(x) for x in c)


def lat(x) -> int:
    """A number of the exported text as an integer (the export keeps 6 decimals)."""
    f = float(x)
    n = round(f)
    if abs(f - n) > 1e-6:
        raise OffLattice(f'{x} is not an integer')
    return int(n)


def lat_vec(s) -> list:
    if isinstance(s, str):
        parts = s.split()
        if len(parts) != 3:
            raise OffLattice(f'{s!r} is not a vector')
        return [lat(p) for p in parts]
    return [lat(s.x), lat(s.y), lat(s.z)]


def lat_deg(x) -> int:
    f = float(x)
    q = round(f / 90.0)
    if abs(f - 90.0 * q) > 1e-4:
        raise OffLattice(f'{x} is not a multiple of 90 degrees')
    return int(q) % 4


def lat_ang(s: str) -> list:
    parts = s.split()
    if len(parts) != 3:
        raise OffLattice(f'{s!r} is not an angle')
    return [lat_deg(p) for p in parts]


_DEFS: dict = {}


def ent_def(classname: str):
    try:
        return _DEFS[classname]
    except KeyError:
        pass
    try:
        d = EntityDef.engine_def(classname)
    except KeyError:
        d = EntityDef.engine_def('_CBaseEntity_')
    _DEFS[classname] = d
    return d


POS_TYPES = {ValueTypes.VEC, ValueTypes.VEC_ORIGIN, ValueTypes.VEC_LINE}


def key_tag(classname: str, key: str) -> str:
    """What a keyvalue means (see InstancesOps: type tags).  From the entity definition database."""
    folded = key.casefold()
    if folded == 'origin':
        return 'pos'
    if folded == 'angles':
        return 'angles'
    if folded == 'yaw':
        return 'yaw'
    if folded in ('classname', 'hammerid', 'spawnflags'):
        return 'skip'
    try:
        kv = ent_def(classname).kv[folded]
    except KeyError:
        if folded.startswith('$') and classname == 'func_instance':
            return 'skip'
        return 'unk'
    t = kv.type
    if t is ValueTypes.ANGLE_NEG_PITCH:
        return 'npitch' if folded == 'pitch' else 'skip'
    if t is ValueTypes.EXT_ANGLE_PITCH:
        return 'pitch' if folded == 'pitch' else 'skip'
    if t is ValueTypes.INST_VAR_REP:
        return 'skip'
    if t in POS_TYPES:
        return 'pos'
    if t is ValueTypes.ANGLES:
        return 'ang'
    if t.is_ent_name:
        return 'name'
    if t is ValueTypes.TARG_DEST_CLASS:
        return 'cls'
    if t is ValueTypes.EXT_VEC_DIRECTION:
        return 'dir'
    if t is ValueTypes.SIDE_LIST:
        return 'sides'
    if t is ValueTypes.TARG_NODE_SOURCE or t is ValueTypes.TARG_NODE_DEST:
        return 'node'
    if t is ValueTypes.VEC_AXIS:
        return 'axis2'
    return 'str'


def proj_axis(ax: UVAxis, exact: bool) -> dict:
    q = ax.scale * 4
    if abs(q - round(q)) > 1e-9 or round(q) not in (1, 2, 4):
        raise OffLattice(f'texture scale {ax.scale}')
    return {'v': [lat(ax.x), lat(ax.y), lat(ax.z)], 'o': lat(ax.offset), 'q': int(round(q))}


def proj_side(s: Side) -> dict:
    d = {'id': s.id, 'p': [lat_vec(p) for p in s.planes], 'u': proj_axis(s.uaxis, True), 'v': proj_axis(s.vaxis, True),
         'mat': s.mat, 'dp': int(s.disp_power), 'disp': 0}
    if s.is_disp:
        d['disp'] = {'pos': lat_vec(s.disp_pos),
                     'verts': [[lat_vec(v.normal), lat_vec(v.offset), lat_vec(v.offset_norm)] for v in s._disp_verts]}
    return d


def proj_brush_t(b: Solid) -> dict:
    return {'vis': bool(not b.hidden and b.vis_shown), 'sides': [proj_side(s) for s in b.sides]}


def proj_fix(fx) -> list:
    if fx is None:
        return []
    return [[cp(v.var.casefold()), cp(v.value)] for v in sorted(fx._fixup.values(), key=lambda f: f.id)]


def proj_ent_t(e: Entity) -> dict:
    cls = e['classname']
    return {'vis': bool(not e.hidden and e.vis_shown), 'cls': cls,
            'keys': [{'k': k, 't': key_tag(cls, k), 'v': cp(v)} for k, v in e.items()],
            'fix': proj_fix(e._fixup), 'outs': [cp(o.target) for o in e.outputs],
            'solids': [proj_brush_t(b) for b in e.solids]}


def proj_template(vmf: VMF) -> dict:
    return {'brushes': [proj_brush_t(b) for b in vmf.brushes], 'ents': [proj_ent_t(e) for e in vmf.entities]}


def proj_value(tag: str, v: str):
    if tag in ('skip', 'str', 'name', 'cls', 'unk', 'node'):
        return cp(v)
    if tag in ('pos', 'dir'):
        return lat_vec(v)
    if tag in ('ang', 'angles'):
        return lat_ang(v)
    if tag == 'axis2':
        a, b = v.split(',')
        return [lat_vec(a.strip()), lat_vec(b.strip())]
    if tag == 'sides':
        return sorted(int(x) for x in v.split())
    if tag in ('npitch', 'pitch', 'yaw'):
        return lat_deg(v)
    raise ValueError(tag)


def proj_ent_r(e: Entity) -> dict:
    cls = e['classname']
    return {'cls': cls, 'keys': [{'k': k, 'r': proj_value(key_tag(cls, k), v)} for k, v in e.items()],
            'fix': proj_fix(e._fixup), 'outs': [cp(o.target) for o in e.outputs],
            'vis': bool(not e.hidden and e.vis_shown),
            'solids': [proj_brush_t(b) for b in e.solids],
            'rc': int(getattr(e, RC_ATTR, 0))}


def tpl_hash(vmf: VMF) -> str:
    return hashlib.sha1(vmf.export(inc_version=False).encode('utf-8')).hexdigest()


def first_diff(a: str, b: str) -> str:
    for la, lb in zip(a.splitlines(), b.splitlines()):
        if la != lb:
            return f'{la.strip()} -> {lb.strip()}'
    return ''


CLASS_POOL = ['npc_citizen', 'npc_combine_s', 'info_target', 'bob', 'door', 'player']


def known_classes() -> list:
    cl = EntityDef.engine_classes()
    return [cp(c) for c in CLASS_POOL if c in cl]


def inst_abs(inst: Instance, ang: list) -> dict:
    return {'name': cp(inst.name), 'pos': lat_vec(inst.pos), 'ang': ang,
            'style': inst.fixup_type.value, 'fix': [[cp(k), cp(v.value)] for k, v in inst.fixup._fixup.items()],
            'rc': inst.recur_count}


def flags_of(tpl: dict, inst: dict) -> dict:
    """Abstract parameters of a collapse that characterise the known failure classes."""
    vis_e = [e for e in tpl['ents'] if e['vis']]
    style, name = inst['style'], inst['name']

    def renames(v):
        return bool(v) and chr(v[0]) not in '@!-.0123456789' and style != 2
    dollar = lambda v: 36 in v
    return {
        'nested_fixup_renamed': any(e['cls'] == 'func_instance' and any(renames(f[1]) for f in e['fix']) for e in vis_e),
        'unknown_key_var': any(k['t'] == 'unk' and dollar(k['v']) for e in vis_e for k in e['keys']),
        'angles_var': any(k['t'] in ('angles', 'npitch', 'pitch', 'yaw') and dollar(k['v']) for e in vis_e for k in e['keys']),
        'empty_table_var': (not inst['fix']) and any(dollar(k['v']) for e in vis_e for k in e['keys'] if k['t'] != 'skip')
                           or (not inst['fix']) and any(dollar(o) for e in vis_e for o in e['outs']),
        'plain_pitch_key': any(k['k'].casefold() == 'pitch' and k['t'] not in ('npitch', 'pitch') for e in vis_e for k in e['keys']),
    }


class Collapser:
    """Runs collapse_one on a real map and produces 'collapse' records."""
    def __init__(self, out: hlib.RecWriter, src: str, hist) -> None:
        self.out = out
        self.src = src
        self.hist = hist
        self.count = 0

    def collapse(self, vmf: VMF, inst: Instance, ang: list, file: InstanceFile, extra_sig: dict | None = None,
                 engine_cache=None, vg: int = 0):
        """One collapse_one call.  Returns (record, new brushes, new ents) - the record is written."""
        t_before = proj_template(file.vmf)
        text_before = file.vmf.export(inc_version=False)
        old_b = {id(b) for b in vmf.brushes}
        old_e = {id(e) for e in vmf.entities}
        iabs = inst_abs(inst, ang)
        # visgroup handling: 0 strip (default), 1 keep the file's visgroups, 2 put everything into one visgroup
        kw = {}
        if vg == 1:
            kw['visgroup'] = True
        elif vg == 2:
            group = VisGroup(vmf, f'inst_{inst.name}')
            vmf.vis_tree.append(group)
            kw['visgroup'] = group
        if engine_cache is not None:
            kw['engine_cache'] = engine_cache
        collapse_one(vmf, inst, file, **kw)
        extra_sig = dict(extra_sig or {}, visgroup=vg)
        new_b = [b for b in vmf.brushes if id(b) not in old_b]
        new_e = [e for e in vmf.entities if id(e) not in old_e]
        text_after = file.vmf.export(inc_version=False)
        rec = self.record(iabs, t_before, proj_template(file.vmf),
                          [hashlib.sha1(text_before.encode()).hexdigest(), hashlib.sha1(text_after.encode()).hexdigest()],
                          new_b, new_e, 'step', extra_sig)
        if text_before != text_after:
            rec['sig']['template_diff'] = first_diff(text_before, text_after)
        self.out.write(rec)
        self.count += 1
        return rec, new_b, new_e

    def record(self, iabs, tpl, tpl2, hashes, new_b, new_e, phase, extra_sig=None) -> dict:
        bad = ''
        try:
            # every new object with its visibility (hidden / hidden by a visgroup): TLC looks at the visible ones
            res = {'brushes': [proj_brush_t(b) for b in new_b], 'ents': [proj_ent_r(e) for e in new_e]}
        except (OffLattice, ValueError) as exc:
            bad = str(exc) or 'projection failed'
            res = {'brushes': [], 'ents': []}
        sig = {'kind': 'collapse', 'action': 'collapse', 'src': self.src, 'phase': phase}
        sig.update(flags_of(tpl, iabs))
        if extra_sig:
            sig.update(extra_sig)
        return {'k': 'collapse', 'inst': iabs, 'classes': known_classes(), 'tpl': tpl, 'tpl2': tpl2, 'hash': hashes,
                'res': res, 'bad': bad, 'sig': sig, 'hist': self.hist}


# ------------------------------------------------------------------ building real maps
def deg(q: int) -> int:
    return 90 * q


def ang_str(a: list) -> str:
    return f'{deg(a[0])} {deg(a[1])} {deg(a[2])}'


def vec_str(v: list) -> str:
    return f'{v[0]} {v[1]} {v[2]}'


FIX_TABLES = {
    0: [],
    1: [('tgt', 'door'), ('x', '7'), ('gn', 'G')],
    2: [('tg', 'short'), ('tgt', 'longer'), ('TGTX', 'longest'), ('x', '$x')],
    3: [('rot', '0 90 0'), ('pos', '8 -16 24'), ('who', 'npc_citizen'), ('tgt', '@glob'), ('x', '1')],
}


def make_instance(name: str, pos: list, ang: list, style: int, table: list, rc: int = 0) -> Instance:
    inst = Instance(name, 'tpl.vmf', Vec(*pos), Matrix.from_angle(deg(ang[0]), deg(ang[1]), deg(ang[2])),
                    FixupStyle(style), (), [FixupValue(k, v, i + 1) for i, (k, v) in enumerate(table)])
    inst.recur_count = rc
    return inst


def add_disp(side: Side, rng_vals) -> None:
    side.disp_power = 1
    side.disp_pos = Vec(*rng_vals[0])
    from srctools.vmf import DispVertex
    from array import array
    side._disp_verts = [DispVertex(x, y) for y in range(3) for x in range(3)]
    side.disp_allowed_vert = array('i', (-1,) * 10)
    for j, v in enumerate(side._disp_verts):
        v.normal = Vec(*rng_vals[1 + j % (len(rng_vals) - 1)])
        v.offset = Vec(*rng_vals[1 + (j + 1) % (len(rng_vals) - 1)])
        v.offset_norm = Vec(0, 0, 1) if j % 2 else Vec(0, 1, 0)
        v.distance = float(j)


def t_brush(vmf: VMF) -> None:
    """World brushes: plain, hidden, visgroup-hidden, scaled/offset textures, a displacement; an overlay naming faces."""
    p = vmf.make_prism(Vec(0, 0, 0), Vec(64, 32, 16), mat='A')
    vmf.add_brush(p.solid)
    p.top.uaxis = UVAxis(1, 0, 0, 5, 0.5)
    p.top.vaxis = UVAxis(0, -1, 0, -3, 1.0)
    p.north.uaxis = UVAxis(1, 0, 0, 12, 0.25)
    hid = vmf.make_prism(Vec(100, 0, 0), Vec(108, 8, 8), mat='HIDDEN')
    hid.solid.hidden = True
    vmf.add_brush(hid.solid)
    vg = vmf.make_prism(Vec(200, 0, 0), Vec(208, 8, 8), mat='VISHIDDEN')
    vg.solid.vis_shown = False
    vmf.add_brush(vg.solid)
    d = vmf.make_prism(Vec(-32, -32, 0), Vec(0, 0, 8), mat='DISP')
    add_disp(d.top, [(-32, -32, 8), (0, 0, 1), (1, 0, 0), (0, -2, 0), (3, 0, 4)])
    vmf.add_brush(d.solid)
    ids = [p.top.id, p.north.id, hid.solid.sides[0].id, d.top.id, 9999]
    vmf.create_ent('info_overlay', targetname='ov', origin='8 8 16', angles='0 0 0', sides=' '.join(map(str, ids)),
                   basisorigin='8 8 16', basisu='1 0 0', basisv='0 1 0', basisnormal='0 0 1', uv0='-4 -4 0',
                   material='overlays/x')
    door = vmf.create_ent('func_door', targetname='bdoor', origin='32 16 8', movedir='0 90 0')
    door.solids.append(vmf.make_prism(Vec(16, 8, 0), Vec(48, 24, 16), mat='DOOR').solid)
    door.add_out(Output('OnOpen', 'ov', 'Kill'), Output('OnClose', '$tgt', 'Kill'))


def t_ents(vmf: VMF) -> None:
    """Point entities: every kind of keyvalue, names, $variables, outputs, hidden ones."""
    e = vmf.create_ent('info_target', targetname='tgt', origin='1 2 3', angles='0 90 0', parentname='par',
                       damagefilter='@filt', globalname='$gn', vscripts='a$xb.nut', spawnflags='3', hammerid='$x')
    e.add_out(Output('OnUser1', 'tgt', 'Kill'), Output('OnUser2', '@glob', 'Kill'), Output('OnUser3', '$tgt', 'Kill'),
              Output('OnUser4', '!self', 'Kill', '$x'), Output('OnUser4', 'a$TGTX', 'Kill'), Output('OnUser1', '', 'Kill'))
    vmf.create_ent('info_target', targetname='$tgt', origin='$pos', angles='90 0 0', parentname='!$tgt',
                   globalname='$tgtx $TGT $tg $t $ $5 $unknown_1 end', responsecontext='$x$x')
    vmf.create_ent('light_spot', targetname='spot', origin='0 0 64', angles='0 180 0', pitch='-90', target='$tgt',
                   _shadoworiginoffset='0 0 -8')
    vmf.create_ent('prop_door_rotating', targetname='pdoor', origin='4 4 0', angles='0 270 0', axis='4 4 0, 4 4 32')
    vmf.create_ent('env_beam', targetname='beam', origin='0 0 0', targetpoint='16 0 0', lightningstart='tgt', lightningend='@end')
    vmf.create_ent('info_node_link', origin='0 8 0', allowuse='npc_citizen', startnode='1', endnode='2')
    vmf.create_ent('info_node_link', origin='0 9 0', allowuse='bob', targetname='link')
    vmf.create_ent('info_node_link', origin='0 10 0', allowuse='$who')
    vmf.create_ent('my_custom_ent', targetname='custom', origin='5 5 5', foo='bar', angles='0 0 90')
    hid = vmf.create_ent('info_target', targetname='hidden', origin='9 9 9')
    hid.hidden = True
    vg = vmf.create_ent('info_target', targetname='vishidden', origin='9 9 9')
    vg.vis_shown = False
    vmf.create_ent('info_target', targetname='yawed', origin='0 0 0', angles='0 0 0', yaw='90')


def t_nest(vmf: VMF) -> None:
    """Nested instances with $fixup tables; a marker."""
    a = vmf.create_ent('func_instance', targetname='inner', file='inner.vmf', origin='16 0 0', angles='0 90 0', fixup_style='0')
    for k, v in (('tgt', 'door'), ('num', '5'), ('glob', '@x'), ('neg', '-3'), ('dot', '.5'), ('empty', ''), ('bang', '!act'), ('var', '$tgt')):
        a.fixup[k] = v
    a['$tgt'] = 'door'
    b = vmf.create_ent('func_instance', targetname='', file='other.vmf', origin='0 0 32', angles='90 0 0', fixup_style='1')
    b.fixup['name'] = 'relay'
    vmf.create_ent('func_instance', targetname='@ginst', file='other.vmf', origin='0 8 0', angles='0 0 90', fixup_style='2')
    vmf.create_ent('info_target', targetname='mark', origin='1 0 0', angles='0 0 0')


def t_nest_plain(vmf: VMF) -> None:
    """Nested instances whose $fixup values are never renamed (numbers, global names)."""
    a = vmf.create_ent('func_instance', targetname='inner', file='inner.vmf', origin='16 0 0', angles='0 90 0', fixup_style='0')
    for k, v in (('num', '5'), ('glob', '@x'), ('neg', '-3'), ('dot', '.5'), ('empty', ''), ('bang', '!act')):
        a.fixup[k] = v
    vmf.create_ent('info_target', targetname='mark', origin='1 0 0', angles='0 0 0')


def t_angles(vmf: VMF) -> None:
    """Orientation: angles with pitch / yaw keyvalues, $variables in them, a sound's pitch."""
    for j, (ang, pitch) in enumerate((('0 0 0', '-90'), ('0 90 0', '0'), ('0 180 90', '90'), ('270 0 0', '-180'))):
        vmf.create_ent('light_spot', targetname=f'spot{j}', origin='0 0 0', angles=ang, pitch=pitch)
    for j, (ang, yaw) in enumerate((('0 0 0', '90'), ('90 180 0', '270'), ('0 90 90', '0'))):
        vmf.create_ent('info_target', targetname=f'yaw{j}', origin='0 0 0', angles=ang, yaw=yaw)
    for j, ang in enumerate(('0 0 0', '90 0 0', '270 90 0', '0 90 180', '180 0 0', '90 90 90', '0 360 -90')):
        vmf.create_ent('info_target', targetname=f'a{j}', origin=f'{j} 0 0', angles=ang)
    vmf.create_ent('func_door', targetname='door', origin='0 0 0', angles='0 0 0', movedir='90 0 0')


def t_angles_var(vmf: VMF) -> None:
    vmf.create_ent('info_target', targetname='rotvar', origin='0 0 0', angles='$rot')


def t_pitch_sound(vmf: VMF) -> None:
    vmf.create_ent('ambient_generic', targetname='snd', origin='0 0 0', angles='0 0 0', pitch='90', message='x.wav')


def t_unknown_var(vmf: VMF) -> None:
    vmf.create_ent('info_target', targetname='unk', origin='0 0 0', angles='0 0 0', foo='pre$tgt')


def mixed_solids(vmf: VMF, ent: Entity, at: list, mat: str) -> None:
    """Give a brush entity four solids: visible, individually hidden, hidden through a visgroup, visible."""
    for j, mode in enumerate(('vis', 'hidden', 'vishidden', 'vis')):
        a = [at[0] + 24 * j, at[1], at[2]]
        b = vmf.make_prism(Vec(*a), Vec(a[0] + 16, a[1] + 8, a[2] + 4 + j), mat=f'{mat}_{mode}{j}').solid
        b.sides[0].uaxis = UVAxis(1, 0, 0, 3 + j, 0.5)
        if mode == 'hidden':
            b.hidden = True
        elif mode == 'vishidden':
            b.vis_shown = False
        ent.solids.append(b)


def t_hidsolid(vmf: VMF) -> None:
    """Visibility: visible brush entities owning visible and hidden solids, hidden brush entities, hidden world
    brushes, a user visgroup with members."""
    vg = VisGroup(vmf, 'grp')
    vmf.vis_tree.append(vg)
    child = VisGroup(vmf, 'child')
    vg.child_groups.append(child)
    det = vmf.create_ent('func_detail')
    mixed_solids(vmf, det, [0, 0, 0], 'DET')
    door = vmf.create_ent('func_door', targetname='door', origin='8 8 8', movedir='0 90 0')
    mixed_solids(vmf, door, [0, 64, 0], 'DOOR')
    door.visgroup_ids.add(vg.id)
    door.solids[0].visgroup_ids.add(child.id)
    allvis = vmf.create_ent('func_brush', targetname='allvis', origin='0 0 0')
    allvis.solids.append(vmf.make_prism(Vec(0, 128, 0), Vec(8, 136, 8), mat='ALLVIS').solid)
    onlyhid = vmf.create_ent('func_brush', targetname='onlyhidden', origin='0 0 0')
    h = vmf.make_prism(Vec(0, 160, 0), Vec(8, 168, 8), mat='ONLYHID').solid
    h.hidden = True
    onlyhid.solids.append(h)
    hid_ent = vmf.create_ent('func_detail')
    hid_ent.hidden = True
    hid_ent.solids.append(vmf.make_prism(Vec(0, 192, 0), Vec(8, 200, 8), mat='HIDENT').solid)
    vh_ent = vmf.create_ent('func_brush', targetname='vishiddenent', origin='0 0 0')
    vh_ent.vis_shown = False
    vh_ent.solids.append(vmf.make_prism(Vec(0, 224, 0), Vec(8, 232, 8), mat='VHENT').solid)
    w1 = vmf.make_prism(Vec(-64, 0, 0), Vec(-32, 16, 8), mat='W1').solid
    w1.visgroup_ids.add(vg.id)
    vmf.add_brush(w1)
    w2 = vmf.make_prism(Vec(-64, 32, 0), Vec(-32, 48, 8), mat='W2HID').solid
    w2.hidden = True
    vmf.add_brush(w2)
    w3 = vmf.make_prism(Vec(-64, 64, 0), Vec(-32, 80, 8), mat='W3VH').solid
    w3.vis_shown = False
    vmf.add_brush(w3)
    vmf.add_brush(vmf.make_prism(Vec(-64, 96, 0), Vec(-32, 112, 8), mat='W4').solid)
    # an overlay on faces of visible solids only
    vmf.create_ent('info_overlay', targetname='ov', origin='0 0 0', angles='0 0 0',
                   sides=f'{det.solids[0].sides[0].id} {det.solids[3].sides[1].id} {w1.sides[0].id} {w2.sides[0].id}',
                   basisorigin='0 0 0', basisu='1 0 0', basisv='0 1 0', basisnormal='0 0 1')


TEMPLATES = {'hidsolid': t_hidsolid, 'brush': t_brush, 'ents': t_ents, 'nest': t_nest, 'nestplain': t_nest_plain, 'angles': t_angles,
             'anglesvar': t_angles_var, 'pitchsound': t_pitch_sound, 'unknownvar': t_unknown_var}


def build_template(name: str) -> InstanceFile:
    vmf = VMF()
    TEMPLATES[name](vmf)
    return InstanceFile(vmf)



# ------------------------------------------------------------------ instance inputs / outputs (io proxy)
def proj_out(o: Output) -> dict:
    none = [0]
    return {'o': cp(o.output), 't': cp(o.target), 'i': cp(o.input), 'p': cp(o.params), 'd': int(round(o.delay * 1000)),
            'n': int(o.times), 'io': none if o.inst_out is None else cp(o.inst_out),
            'ii': none if o.inst_in is None else cp(o.inst_in)}


IO_OUTS = {
    'pa': lambda: Output('OnPressed', 'proxy', 'ProxyRelay', delay=0.25),
    'pb': lambda: Output('OnUser1', 'PROXY', 'proxyrelay', 'inner_param', delay=0.5, times=3),
    'pa2': lambda: Output('OnPressed', 'proxy', 'ProxyRelay', 'second', delay=1.0, times=1),
    'n': lambda: Output('OnDamaged', 'inner', 'Trigger', '$x'),
}


def io_conns(cs: int) -> list:
    if cs == 1:
        return [Output('OnPressed', 'door_out', 'Open', delay=1.0, inst_out='button'),
                Output('OnUser1', 'counter', 'Add', '1', delay=0.125, times=5, inst_out='button'),
                Output('OnUser2', 'lamp', 'TurnOn', inst_out='button'),            # nothing relays OnUser2
                Output('onpressed', 'second', 'Close', times=1, inst_out='BUTTON'),  # a second connection, other case
                Output('OnPressed', 'plain', 'Kill'),                              # not an instance output
                Output('OnPressed', 'other', 'Kill', inst_out='inner')]            # entity without that relay
    return [Output('OnUser1', 'only', 'Fire', 'p', delay=2.0, times=2, inst_out='button'),
            Output('OnUser1', 'relay2', 'Trigger', inst_out='relay')]


def run_io(sc: dict, out: hlib.RecWriter, src_tag: str = 'scen') -> None:
    """One instance I/O scenario: outputs of entities of the file aimed at the io proxy, connections of the
    func_instance out of the instance, outputs of an outside entity into it."""
    tv = VMF()
    proxy = tv.create_ent('func_instance_io_proxy', targetname='proxy', origin='4 0 0')
    proxy.add_out(Output('OnProxyRelay', 'door', 'open', delay=0.5),
                  Output('OnProxyRelay', 'Inner', 'Trigger', 'from_proxy', times=1),
                  Output('OnUser1', 'door', 'Kill'))
    tv.create_ent('logic_relay', targetname='inner', origin='8 0 0')
    relay = tv.create_ent('logic_relay', targetname='relay', origin='8 8 0')
    relay.add_out(Output('OnTrigger', 'proxy', 'ProxyRelay'), Output('OnUser1', 'proxy', 'ProxyRelay', delay=0.125))
    button = tv.create_ent('func_button', targetname='button', origin='16 0 0')
    for a in sc['arr']:
        button.add_out(IO_OUTS[a]())
    tv.create_ent('func_door', targetname='door', origin='0 16 0')
    src = [{'name': cp(e['targetname']), 'cls': e['classname'], 'outs': [proj_out(o) for o in e.outputs]} for e in tv.entities]
    file = InstanceFile(tv)
    tplouts = [[proj_out(o) for o in e.outputs] for e in file.vmf.entities]
    table = FIX_TABLES[1]
    inst = Instance('A', 'io.vmf', Vec(64, 0, 0), Matrix.from_yaw(90), FixupStyle(sc['style']), io_conns(sc['cs']),
                    [FixupValue(k, v, i + 1) for i, (k, v) in enumerate(table)])
    vmf = VMF()
    trig = vmf.create_ent('trigger_once', targetname='trig')
    trig.add_out(Output('OnTrigger', 'A', 'open', delay=1.0, inst_in='door'),          # matches the proxy input as written
                 Output('OnTrigger', 'A', 'Open', 'keep', delay=0.25, times=1, inst_in='door'),   # same input, other case
                 Output('OnTrigger', 'a', 'trigger', 'mine', inst_in='inner'),         # instance name in other case
                 Output('OnTrigger', 'A', 'open', inst_in='nomatch'),
                 Output('OnTrigger', 'A', 'open'),
                 Output('OnTrigger', 'B', 'open', inst_in='door'))
    opre = [proj_out(o) for o in trig.outputs]
    pre_outs = [o.copy() for o in trig.outputs]
    old = {id(e) for e in vmf.entities}
    conns = [proj_out(o) for o in inst.outputs]
    collapse_one(vmf, inst, file)
    placed = [[proj_out(o) for o in e.outputs] for e in vmf.entities if id(e) not in old]
    opost = [proj_out(o) for o in trig.outputs]
    out.write({'k': 'io', 'src': src, 'tplouts': tplouts,
               'inst': {'name': cp('A'), 'style': sc['style'], 'fix': [[cp(k), cp(v)] for k, v in table]},
               'conns': conns, 'placed': placed, 'opre': opre, 'opost': opost,
               'sig': {'kind': 'io', 'action': 'collapse', 'src': src_tag, 'style': sc['style'], 'arr': ' '.join(sc['arr']),
                       # some outside output names the inner entity / input in another case than the folded table key
                       'input_case': any(o.inst_in is not None and (o.inst_in != o.inst_in.casefold() or o.input != o.input.casefold())
                                         for o in pre_outs)},
               'hist': {'gen': 'io', 'sc': sc}})

# ------------------------------------------------------------------ mode: scen
def run_scen(sc: dict, out: hlib.RecWriter, src: str = 'scen') -> None:
    """One TLC-generated scenario: a template and a sequence of instances collapsed from one cached file."""
    if sc['t'] == 'io':
        run_io(sc, out, src)
        return
    file = build_template(sc['t'])
    pristine = proj_template(file.vmf)
    h0 = tpl_hash(file.vmf)
    vmf = VMF()
    col = Collapser(out, src, {'gen': 'scen', 'sc': sc})
    done = []
    for n, i in enumerate(sc['insts']):
        inst = make_instance(uncp(i['name']), i['pos'], i['ang'], i['style'], FIX_TABLES[i['fix']])
        rec, nb, ne = col.collapse(vmf, inst, i['ang'], file, {'template': sc['t'], 'seq': n}, vg=sc.get('vg', 0))
        done.append((rec['inst'], nb, ne, rec['sig']['nested_fixup_renamed']))
    if len(done) > 1:
        # results of repeated collapses differ only by placement: judged against the pristine template at the end
        h1 = tpl_hash(file.vmf)
        tainted = any(d[3] for d in done)     # some collapse of the sequence renamed a shared $fixup value
        for n, (iabs, nb, ne, _) in enumerate(done):
            rec = col.record(iabs, pristine, proj_template(file.vmf), [h0, h1], nb, ne, 'final',
                             {'template': sc['t'], 'seq': n, 'nested_fixup_renamed': tainted, 'visgroup': sc.get('vg', 0)})
            out.write(rec)


# ------------------------------------------------------------------ mode: subst
def subst_records(out: hlib.RecWriter, rng: random.Random, thorough: bool) -> None:
    def one(table, text, default, src):
        fx = EntityFixup([FixupValue(k, v, i + 1) for i, (k, v) in enumerate(table)])
        res = fx.substitute(text, default)
        tab = [[cp(k), cp(v.value)] for k, v in fx._fixup.items()]
        out.write({'k': 'subst', 'tab': tab, 'text': cp(text), 'def': cp(default), 'res': cp(res),
                   'sig': {'kind': 'subst', 'action': 'substitute', 'src': src, 'empty_table_var': not tab},
                   'hist': {'gen': 'subst', 'table': table, 'text': text, 'default': default}})
    # exhaustive: all texts up to length 4 (5 thorough) over {$, a, b, A, 1, !} against a family of tables
    alpha = '$abA1!'
    tables = [[], [('a', 'X')], [('a', 'X'), ('ab', 'YY')], [('ab', 'YY'), ('a', 'X'), ('b', '')], [('a', '$a')], [('A1', 'Z'), ('_', 'U')]]
    maxlen = 5 if thorough else 4
    texts = ['']
    frontier = ['']
    for _ in range(maxlen):
        frontier = [t + c for t in frontier for c in alpha]
        texts += frontier
    for table in tables:
        for text in texts:
            if '$' in text:
                one(table, text, '', 'exhaustive')
    for default in ('D', '$a'):
        for text in texts:
            if '$' in text and len(text) <= 3:
                one(tables[2], text, default, 'exhaustive')
    # random, longer, wider alphabet
    names = ['a', 'ab', 'abc', 'x_1', 'Long_Name', 'q', 'tgt', 'TGT2', '_', 'a1', 'b']
    pieces = ['$', '!', ' ', '-', 'a', 'b', 'c', 'x', '_', '1', '2', 'Q', 'tgt', 'TGT', 'name', '$a', '$ab', '$abc', '$x_1',
              '$long_name', '$tgt', '$TGT2', '$_', '!$a', '$$', 'é', '文', '.', '[', '(', '*']
    for _ in range(4000 if thorough else 500):
        table = [(n, ''.join(rng.choice(pieces) for _ in range(rng.randint(0, 3)))) for n in rng.sample(names, rng.randint(0, 5))]
        text = ''.join(rng.choice(pieces) for _ in range(rng.randint(1, 12)))
        one(table, text, rng.choice(['', '', 'DEF', '$a']), 'random')
    # Instance.fixup_name
    for style in (0, 1, 2):
        for iname in ('A', 'inst', '', 'a-b', '@i'):
            for n in ('', 'x', '@g', '!self', 'a-b', '-x', '$v', 'Ünï', '@', '!', ' lead'):
                inst = Instance(iname, 'f.vmf', Vec(), Matrix(), FixupStyle(style))
                out.write({'k': 'name', 'style': style, 'iname': cp(iname), 'n': cp(n), 'res': cp(inst.fixup_name(n)),
                           'sig': {'kind': 'name', 'action': 'fixup_name', 'src': 'exhaustive'},
                           'hist': {'gen': 'name', 'style': style, 'iname': iname, 'n': n}})


# ------------------------------------------------------------------ the abstract machine on real maps
def abs_to_real(vmf: VMF, e: dict) -> Entity:
    if e['kind'] == 'mark':
        return vmf.create_ent('info_target', targetname=uncp(e['name']), origin=vec_str(e['pos']), angles=ang_str(e['ang']))
    ent = vmf.create_ent('func_instance', targetname=uncp(e['name']), origin=vec_str(e['pos']), angles=ang_str(e['ang']),
                         file=f'f{e["file"]}.vmf', fixup_style=str(e['style']))
    ent.fixup['v'] = uncp(e['fixv'])
    if e.get('rc'):
        setattr(ent, RC_ATTR, e['rc'])
    return ent


def is_abs(ent: Entity) -> bool:
    """The abstract machine follows markers and instances; the brush entities of the files are judged by the
    detailed 'collapse' records."""
    return ent['classname'] in ('info_target', 'func_instance')


def real_to_abs(ent: Entity) -> dict:
    if ent['classname'] == 'func_instance':
        return {'kind': 'inst', 'name': cp(ent['targetname']), 'pos': lat_vec(ent['origin']), 'ang': lat_ang(ent['angles']),
                'file': int(ent['file'][1:-4]), 'style': int(ent['fixup_style']), 'fixv': cp(ent.fixup['v']),
                'rc': int(getattr(ent, RC_ATTR, 0))}
    return {'kind': 'mark', 'name': cp(ent['targetname']), 'pos': lat_vec(ent['origin']), 'ang': lat_ang(ent['angles']),
            'file': 0, 'style': 2, 'fixv': [], 'rc': 0}


def files_of(tmpl: dict) -> VirtualFileSystem:
    """tmpl: {file number: [abstract entities]} -> a file system holding real VMF texts."""
    data = {}
    for f, ents in tmpl.items():
        v = VMF()
        for e in ents:
            abs_to_real(v, e)
        # a world brush with shifted / scaled textures: goes through export -> parse -> collapse (validated by
        # the detailed 'collapse' records; the abstract machine looks at entities only)
        p = v.make_prism(Vec(0, 0, 0), Vec(16 * int(f), 8, 4), mat=f'F{f}')
        p.top.uaxis = UVAxis(1, 0, 0, 7, 0.5)
        p.east.vaxis = UVAxis(0, 0, -1, -2, 1.0)
        v.add_brush(p.solid)
        # a visible brush entity with visible and individually hidden solids, and a hidden world brush (parsed path)
        mixed_solids(v, v.create_ent('func_detail'), [0, 32, 0], f'FD{f}')
        hw = v.make_prism(Vec(0, 64, 0), Vec(8, 72, 8), mat='HW').solid
        hw.hidden = True
        v.add_brush(hw)
        data[f'f{f}.vmf'] = v.export(inc_version=False)
    return CountingFS(data)


class CountingFS(VirtualFileSystem):
    """Counts how often each file is read (collapse_all caches parsed files by name)."""
    def __init__(self, data) -> None:
        super().__init__(data)
        self.reads: dict = {}

    def read_kv1(self, path, *args, **kw):
        name = path if isinstance(path, str) else path.path
        self.reads[name] = self.reads.get(name, 0) + 1
        return super().read_kv1(path, *args, **kw)


class World:
    """A real map plus the loop state of collapse_all, driven step by step (so that the order of
    collapses within a round is the model's choice, not the iteration order of a set)."""
    def __init__(self, tmpl: dict, ents: list) -> None:
        self.tmpl = tmpl
        self.fsys = files_of(tmpl)
        self.vmf = VMF()
        for e in ents:
            abs_to_real(self.vmf, e)
        self.todo: list = []
        self.round = 0
        self.cache: dict = {}
        self.fgd_cache: dict = {}
        # known failure class: a collapse that renames the $fixup value of a nested instance (the
        # value object is shared with the cached template and with every other copy)
        self.renamed_shared = False

    def project(self) -> dict:
        return {'map': [real_to_abs(e) for e in self.vmf.entities if is_abs(e)], 'todo': [real_to_abs(e) for e in self.todo],
                'round': self.round}

    def apply(self, a: dict) -> list:
        """Returns [template hash before, after] for a collapse."""
        if a['op'] == 'roundstart':
            self.todo = list(self.vmf.by_class['func_instance'])
            self.round += 1
            return ['', '']
        if a['op'] != 'collapse':
            return ['', '']
        want = json.dumps(norm_abs(a['e']), sort_keys=True)
        cands = [e for e in self.todo if json.dumps(norm_abs(real_to_abs(e)), sort_keys=True) == want]
        if not cands:
            # an earlier step already left the model's path (that step is reported); carry on from the real
            # state with the instance that differs from the wanted one only in its $fixup value
            loose = lambda d: json.dumps({k: v for k, v in norm_abs(d).items() if k != 'fixv'}, sort_keys=True)
            cands = [e for e in self.todo if loose(real_to_abs(e)) == loose(a['e'])]
            if not cands:
                raise Diverged(f'no instance {want} in the map')
            a['e'] = real_to_abs(cands[0])
            a['diverged'] = True
        ent = cands[0]
        self.todo.remove(ent)
        # the body of collapse_all's loop
        inst = Instance.from_entity(ent)
        ent.remove()
        try:
            file = self.cache[inst.filename]
        except KeyError:
            file = self.cache[inst.filename] = InstanceFile(VMF.parse(self.fsys.read_kv1(inst.filename), preserve_ids=True))
        h0 = tpl_hash(file.vmf)
        if inst.fixup_type is not FixupStyle.NONE and any(
                x['kind'] == 'inst' and x['fixv'] and chr(x['fixv'][0]) not in '@!-.0123456789'
                for x in self.tmpl[inst.filename[1:-4]]):
            self.renamed_shared = True
        collapse_one(self.vmf, inst, file, engine_cache=self.fgd_cache)
        return [h0, tpl_hash(file.vmf)]


_CANON = None


def _canon_table() -> dict:
    global _CANON
    if _CANON is None:
        _CANON = {}
        for p in (0, 1, 3):
            for y in range(4):
                for r in range(4):
                    if p and r:
                        continue
                    _CANON[mat_key(qmat([p, y, r]))] = [p, y, r]
    return _CANON


def canon_ang(a: list) -> list:
    """Canonical Euler triple of a lattice orientation (only used to find an entity; TLC normalises itself)."""
    return _canon_table()[mat_key(qmat(a))]


def mat_key(m) -> tuple:
    return tuple(int(round(x)) for row in m for x in row)


def norm_abs(e: dict) -> dict:
    d = dict(e)
    d['ang'] = canon_ang(e['ang'])
    return d


def edge_states(edges: list):
    key = lambda s: json.dumps(s, sort_keys=True)
    succ: dict = {}
    targets = set()
    for e in edges:
        succ.setdefault(key(e['s']), []).append(e)
        targets.add(key(e['t']))
    roots = [k for k in succ if k not in targets]
    paths = {r: (r, []) for r in roots}
    todo = deque(roots)
    while todo:
        s = todo.popleft()
        for e in succ.get(s, ()):
            t = key(e['t'])
            if t not in paths:
                paths[t] = (paths[s][0], paths[s][1] + [e['a']])
                todo.append(t)
    return key, roots, paths


def state_world(root_state: dict) -> World:
    ents = [p[0] for p in root_state['map'] for _ in range(p[1])]
    ents.sort(key=lambda e: (e['kind'] != 'mark', e['name']))
    tmpl = {str(j + 1): t for j, t in enumerate(root_state['tmpl'])}
    return World(tmpl, ents)


def replay_edges(edge_file: str, out: hlib.RecWriter, stats: dict) -> None:
    edges = [e for e in json.load(open(edge_file)) if e.get('tag') == 'EDGE']
    key, roots, paths = edge_states(edges)
    for e in edges:
        a = e['a']
        if a['op'] not in ('roundstart', 'collapse'):
            stats['edges_without_call'] = stats.get('edges_without_call', 0) + 1
            continue
        root, path = paths[key(e['s'])]
        w = state_world(json.loads(root))
        a = dict(a)
        bad = badc = ''
        pre = post = {'map': [], 'todo': [], 'round': 0}
        hashes = ['', '']
        try:
            for pa in path:
                w.apply(dict(pa))
            pre = w.project()
            hashes = w.apply(a)
            post = w.project()
        except OffLattice as exc:
            bad, badc = str(exc), 'proj.lattice'
        except Diverged as exc:
            # the real map left the model's path at an earlier edge (reported there); this edge cannot be taken
            bad, badc = str(exc), 'step.diverged'
            stats['diverged'] = stats.get('diverged', 0) + 1
        out.write({'k': 'step', 'tmpl': w.tmpl, 'pre': pre, 'a': a, 'post': post, 'hash': hashes, 'bad': bad, 'badc': badc,
                   'sig': {'kind': 'step', 'action': a['op'], 'src': 'edge', 'diverged': bool(a.get('diverged')),
                           'nested_fixup_renamed': w.renamed_shared},
                   'hist': {'gen': 'step', 'root': json.loads(root), 'path': path + [a]}})
        stats['edges_replayed'] = stats.get('edges_replayed', 0) + 1


# ------------------------------------------------------------------ mode: runs (collapse_all)
def run_all(tmpl: dict, ents: list, limit: int, out: hlib.RecWriter, src: str, hist, detail: bool = True) -> None:
    """collapse_all on real files; collapse_one is wrapped from outside to log every inner step."""
    fsys = files_of(tmpl)
    vmf = VMF()
    for e in ents:
        abs_to_real(vmf, e)
    steps = []
    orig = instancing.collapse_one
    col = Collapser(out, src, hist)

    def wrapped(vmf_, inst, file, **kw):
        if not detail:
            return orig(vmf_, inst, file, **kw)
        try:     # the instance's orientation as a lattice rotation (read off its matrix)
            ang = _canon_table()[tuple(lat(inst.orient[r_, c_]) for r_ in range(3) for c_ in range(3))]
        except (OffLattice, KeyError):
            return orig(vmf_, inst, file, **kw)
        t_before = proj_template(file.vmf)
        h0 = tpl_hash(file.vmf)
        old_e = {id(e) for e in vmf_.entities}
        old_b = {id(b) for b in vmf_.brushes}
        iabs = inst_abs(inst, ang)
        orig(vmf_, inst, file, **kw)
        rec = col.record(iabs, t_before, proj_template(file.vmf), [h0, tpl_hash(file.vmf)],
                         [b for b in vmf_.brushes if id(b) not in old_b], [e for e in vmf_.entities if id(e) not in old_e],
                         'step', {'within': 'collapse_all'})
        steps.append(rec)

    instancing.collapse_one = wrapped
    try:
        try:
            collapse_all(vmf, fsys, limit)
            outcome = 'ok'
        except RecursionError:
            outcome = 'recursion'
    finally:
        instancing.collapse_one = orig
    bad = ''
    try:
        final = [real_to_abs(e) for e in vmf.entities if is_abs(e)]
    except OffLattice as exc:
        bad = str(exc)
        final = []
    renamed = any(x['kind'] == 'inst' and x['style'] != 2 for x in ents) or any(
        x['kind'] == 'inst' and x['style'] != 2 for t in tmpl.values() for x in t)
    has_name_fix = any(x['kind'] == 'inst' and x['fixv'] and chr(x['fixv'][0]) not in '@!-.0123456789'
                       for t in tmpl.values() for x in t)
    loads = sorted([int(name[1:-4]), n] for name, n in fsys.reads.items())
    out.write({'k': 'run', 'nf': len(tmpl), 'tmpl': tmpl, 'ents': ents, 'limit': limit, 'outcome': outcome, 'final': final,
               'loads': loads, 'bad': bad, 'sig': {'kind': 'run', 'action': 'collapse_all', 'src': src, 'steps': len(steps),
                                   'nested_fixup_renamed': renamed and has_name_fix},
               'hist': hist})
    for rec in steps:
        out.write(rec)


def grown_size(tmpl: dict, ents: list, limit: int) -> int:
    """Number of entities after `limit` rounds (counting only, to bound the size of a generated case)."""
    n_mark = {f: sum(1 for e in t if e['kind'] == 'mark') for f, t in tmpl.items()}
    insts = collections_counter(str(e['file']) for e in ents if e['kind'] == 'inst')
    total = sum(1 for e in ents if e['kind'] == 'mark')
    for _ in range(limit):
        nxt: dict = {}
        for f, c in insts.items():
            total += c * n_mark[f]
            for e in tmpl[f]:
                if e['kind'] == 'inst':
                    nxt[str(e['file'])] = nxt.get(str(e['file']), 0) + c
        insts = nxt
        if total + sum(insts.values()) > 10000:
            break
    return total + sum(insts.values())


def collections_counter(it) -> dict:
    d: dict = {}
    for x in it:
        d[x] = d.get(x, 0) + 1
    return d


def runs_mode(edge_file: str, out: hlib.RecWriter, rng: random.Random, thorough: bool, stats: dict) -> None:
    edges = [e for e in json.load(open(edge_file)) if e.get('tag') == 'EDGE']
    key, roots, paths = edge_states(edges)
    for r in roots:
        st = json.loads(r)
        ents = [p[0] for p in st['map'] for _ in range(p[1])]
        ents.sort(key=lambda e: (e['kind'] != 'mark', e['name']))
        tmpl = {str(j + 1): t for j, t in enumerate(st['tmpl'])}
        for limit in (1, 2, 3):
            run_all(tmpl, ents, limit, out, 'graph', {'gen': 'run', 'tmpl': tmpl, 'ents': ents, 'limit': limit},
                    detail=(limit == 2))
            stats['runs'] = stats.get('runs', 0) + 1
    # larger seeded graphs: more files, more instances per file, longer names, bigger coordinates, deeper limits
    for _ in range(300 if thorough else 40):
        nf = rng.randint(1, 5)

        def rnd_ent(kind, f):
            name = rng.choice(['', 'A', 'b2', '@glob', '!x', 'Ünï', 'n-m', 'relay_01'])
            if kind == 'inst' and name == '':
                name = 'I'       # unnamed instances get order-dependent automatic names: separate scenario
            return {'kind': kind, 'name': cp(name), 'pos': [rng.randint(-4096, 4096) for _ in range(3)],
                    'ang': canon_ang([rng.randint(0, 3) for _ in range(3)]),
                    'file': rng.randint(1, nf) if kind == 'inst' else 0,
                    'style': rng.randint(0, 2) if kind == 'inst' else 2,
                    'fixv': cp(rng.choice(['door', '5', '@g', '-1', 'x y', 'é'])) if kind == 'inst' else [], 'rc': 0}
        tmpl = {}
        for f in range(1, nf + 1):
            n_inst = rng.choice([0, 0, 1, 1, 2])
            tmpl[str(f)] = [rnd_ent('mark', f) for _ in range(rng.randint(0, 3))] + [rnd_ent('inst', f) for _ in range(n_inst)]
        ents = [rnd_ent('mark', 0)] + [rnd_ent('inst', 0) for _ in range(rng.randint(1, 4))]
        limit = rng.randint(1, 5)
        while limit > 1 and grown_size(tmpl, ents, limit) > 120:     # keep the expected map small enough for TLC's recursion
            limit -= 1
        if grown_size(tmpl, ents, limit) > 120:
            continue
        run_all(tmpl, ents, limit, out, 'random', {'gen': 'run', 'tmpl': tmpl, 'ents': ents, 'limit': limit}, detail=True)
        stats['runs'] = stats.get('runs', 0) + 1


# ------------------------------------------------------------------ mode: random (lattice, outside the bounds)
def random_template(rng: random.Random) -> InstanceFile:
    vmf = VMF()
    names = ['tgt', 'door', 'relay_1', '@glob', '!activator', 'Ünï', 'a-b', 'x y', '', '$tgt', '$x', 'pre$tgt', '$tgtx', 'a.b']

    def rv(m=2048):
        return [rng.randint(-m, m) for _ in range(3)]

    def ra():
        return ang_str([rng.randint(0, 3) for _ in range(3)])
    for _ in range(rng.randint(0, 5)):
        a = rv(1024)
        b = [a[j] + rng.randint(1, 256) for j in range(3)]
        p = vmf.make_prism(Vec(*a), Vec(*b), mat=rng.choice(['A', 'B/c', 'tools/nodraw']))
        for s in p.solid.sides:
            if rng.random() < 0.5:
                s.uaxis.offset = float(rng.randint(-512, 512))
                s.uaxis.scale = rng.choice([0.25, 0.5, 1.0])
                s.vaxis.offset = float(rng.randint(-512, 512))
        if rng.random() < 0.25:
            add_disp(p.top, [rv(), (0, 0, 1), rv(8), rv(8), (1, 0, 0)])
        if rng.random() < 0.2:
            p.solid.hidden = True
        elif rng.random() < 0.15:
            p.solid.vis_shown = False
        vmf.add_brush(p.solid)
    face_ids = [s.id for b in vmf.brushes for s in b.sides]
    for _ in range(rng.randint(1, 8)):
        kind = rng.choice(['info_target', 'info_target', 'light_spot', 'info_overlay', 'func_door', 'prop_door_rotating',
                           'env_beam', 'info_node_link', 'func_instance', 'logic_relay', 'custom_thing'])
        kw = {'targetname': rng.choice(names), 'origin': vec_str(rv()), 'angles': ra()}
        if kind == 'light_spot':
            kw['pitch'] = str(deg(rng.randint(-3, 3)))
            kw['target'] = rng.choice(names)
        elif kind == 'info_overlay':
            kw['sides'] = ' '.join(str(rng.choice(face_ids + [77777])) for _ in range(rng.randint(0, 4))) if face_ids else ''
            kw['basisorigin'] = vec_str(rv())
            kw['basisu'] = vec_str(rv(4))
            kw['basisnormal'] = vec_str(rv(4))
        elif kind == 'func_door':
            kw['movedir'] = ra()
            kw['parentname'] = rng.choice(names)
        elif kind == 'prop_door_rotating':
            kw['axis'] = f'{vec_str(rv())}, {vec_str(rv())}'
        elif kind == 'env_beam':
            kw['targetpoint'] = vec_str(rv())
            kw['lightningstart'] = rng.choice(names)
        elif kind == 'info_node_link':
            kw['allowuse'] = rng.choice(['npc_citizen', 'NPC_Citizen', 'bob', 'door', ''])
        elif kind == 'func_instance':
            kw['file'] = 'x.vmf'
            kw['fixup_style'] = str(rng.randint(0, 2))
        elif kind == 'custom_thing':
            kw['foo'] = rng.choice(['bar', '1 2 3', 'tgt'])
        else:
            kw['globalname'] = rng.choice(names + ['$x $tgt', 'é$x'])
            kw['parentname'] = rng.choice(names)
            if rng.random() < 0.3:
                kw['yaw'] = str(deg(rng.randint(0, 3)))
        ent = vmf.create_ent(kind, **kw)
        if kind == 'func_instance':
            for v in rng.sample(['a', 'b', 'c', 'd'], rng.randint(0, 3)):
                ent.fixup[v] = rng.choice(['5', '@g', '-1', '.5', '', '!x', '0 90 0'] + (['door', 'x y'] if rng.random() < 0.3 else []))
        if kind == 'func_door':
            a = rv(512)
            ent.solids.append(vmf.make_prism(Vec(*a), Vec(a[0] + 16, a[1] + 32, a[2] + 8), mat='D').solid)
            for j in range(rng.randint(0, 2)):     # further solids, some individually hidden
                extra = vmf.make_prism(Vec(a[0], a[1], a[2] + 16 * (j + 1)), Vec(a[0] + 8, a[1] + 8, a[2] + 16 * (j + 1) + 8), mat=f'D{j}').solid
                r = rng.random()
                if r < 0.4:
                    extra.hidden = True
                elif r < 0.6:
                    extra.vis_shown = False
                ent.solids.append(extra)
        for _ in range(rng.randint(0, 3)):
            ent.add_out(Output(rng.choice(['OnTrigger', 'OnUser1']), rng.choice(names), 'Kill', rng.choice(['', '$x'])))
        if rng.random() < 0.15:
            ent.hidden = True
        elif rng.random() < 0.1:
            ent.vis_shown = False
    return InstanceFile(vmf)


def random_mode(out: hlib.RecWriter, rng: random.Random, thorough: bool) -> None:
    for _ in range(400 if thorough else 60):
        random_case(rng.getrandbits(48), out)


def random_case(seed_n: int, out: hlib.RecWriter) -> None:
    rng = random.Random(seed_n)
    tables = [[('tgt', 'door'), ('x', '7')], [('tgt', 'longer'), ('tgtx', 'longest'), ('x', 'é')], [('x', '1'), ('tgt', '@g'), ('y', 'unused')]]
    file = random_template(rng)
    vmf = VMF()
    if rng.random() < 0.5:       # a map that is not empty: IDs collide with the template's
        vmf.add_brush(vmf.make_prism(Vec(0, 0, 0), Vec(8, 8, 8)).solid)
        vmf.create_ent('info_target', targetname='old')
    col = Collapser(out, 'random', {'gen': 'random', 'seed': seed_n})
    for k in range(rng.randint(1, 3)):
        ang = [rng.randint(0, 3) for _ in range(3)]
        inst = make_instance(rng.choice(['A', 'inst_7', 'Ünï', 'a-b', '@I']), [rng.randint(-8192, 8192) for _ in range(3)], ang,
                             rng.randint(0, 2), rng.choice(tables), rc=rng.randint(0, 3))
        col.collapse(vmf, inst, ang, file, {'seq': k}, vg=rng.choice([0, 0, 1, 2]))


# ------------------------------------------------------------------ mode: numeric residue
def rx(a):
    c, s = math.cos(math.radians(a)), math.sin(math.radians(a))
    return [[1, 0, 0], [0, c, s], [0, -s, c]]


def ry(a):
    c, s = math.cos(math.radians(a)), math.sin(math.radians(a))
    return [[c, 0, -s], [0, 1, 0], [s, 0, c]]


def rz(a):
    c, s = math.cos(math.radians(a)), math.sin(math.radians(a))
    return [[c, s, 0], [-s, c, 0], [0, 0, 1]]


def mmul(a, b):
    return [[sum(a[i][k] * b[k][j] for k in range(3)) for j in range(3)] for i in range(3)]


def vrot(v, m):
    return [sum(v[k] * m[k][j] for k in range(3)) for j in range(3)]


def fmat(p, y, r):
    """Independent of srctools: roll about x, then pitch about y, then yaw about z (row vectors)."""
    return mmul(mmul(rx(r), ry(p)), rz(y))


def qmat(a):
    return fmat(deg(a[0]), deg(a[1]), deg(a[2]))


def numeric_mode(out_path: str, rng: random.Random, thorough: bool) -> None:
    """Arbitrary real rotations (numeric residue, evaluated here to 1e-6 as the property states)."""
    checks = 0
    bad = []
    tol = 1e-6

    def close(a, b, what, ctx, t=tol):
        nonlocal checks
        checks += 1
        if abs(a - b) > t:
            bad.append({'what': what, 'got': a, 'want': b, 'ctx': ctx})
    n_cases = 600 if thorough else 120
    for case in range(n_cases):
        vmf_t = VMF()
        a = [rng.randint(-512, 512) for _ in range(3)]
        p = vmf_t.make_prism(Vec(*a), Vec(a[0] + rng.randint(1, 128), a[1] + rng.randint(1, 128), a[2] + rng.randint(1, 128)))
        for s in p.solid.sides:
            s.uaxis.offset = rng.uniform(-256, 256)
            s.uaxis.scale = rng.choice([0.25, 0.5, 0.125, 1.0, 0.3])
            s.vaxis.offset = rng.uniform(-256, 256)
        vmf_t.add_brush(p.solid)
        e_ang = [round(rng.uniform(-80, 80), 3), round(rng.uniform(0, 359), 3), round(rng.uniform(0, 359), 3)]
        e_pos = [round(rng.uniform(-1024, 1024), 3) for _ in range(3)]
        d_vec = [round(rng.uniform(-4, 4), 3) for _ in range(3)]
        pitch = round(rng.uniform(-80, 80), 2)
        vmf_t.create_ent('info_target', targetname='t', origin=vec_str(e_pos), angles=vec_str(e_ang))
        vmf_t.create_ent('light_spot', targetname='l', origin=vec_str(e_pos), angles=vec_str(e_ang), pitch=str(-pitch),
                         _shadoworiginoffset=vec_str(d_vec))
        file = InstanceFile(vmf_t)
        h0 = tpl_hash(file.vmf)
        i_ang = [round(rng.uniform(-89, 89), 3), round(rng.uniform(0, 360), 3), round(rng.uniform(0, 360), 3)]
        if case % 7 == 0:
            i_ang = [rng.choice([0, 90, -90, 45]), rng.choice([0, 45, 135, 270]), rng.choice([0, 30, 180])]
        i_pos = [round(rng.uniform(-2048, 2048), 2) for _ in range(3)]
        M = fmat(*i_ang)
        inst = Instance('N', 'n.vmf', Vec(*i_pos), Matrix.from_angle(*i_ang), FixupStyle.PREFIX)
        vmf = VMF()
        collapse_one(vmf, inst, file)
        ctx = {'case': case, 'i_ang': i_ang, 'i_pos': i_pos}
        checks += 1
        if tpl_hash(file.vmf) != h0:
            bad.append({'what': 'template', 'ctx': ctx})
        text = vmf.export(inc_version=False)
        back = VMF.parse(Keyvalues.parse(text))
        nb = back.brushes[0]
        for s_old, s_new in zip(p.solid.sides, nb.sides):
            for p_old, p_new in zip(s_old.planes, s_new.planes):
                want = [w + o for w, o in zip(vrot(list(p_old), M), i_pos)]
                for j in range(3):
                    close(p_new[j], want[j], 'plane', ctx)
            for ax_old, ax_new in ((s_old.uaxis, s_new.uaxis), (s_old.vaxis, s_new.vaxis)):
                d = vrot([ax_old.x, ax_old.y, ax_old.z], M)
                for j, c in enumerate((ax_new.x, ax_new.y, ax_new.z)):
                    close(c, d[j], 'axis', ctx)
                close(ax_new.offset, ax_old.offset - sum(d[j] * i_pos[j] for j in range(3)) / ax_old.scale, 'offset', ctx)
                close(ax_new.scale, ax_old.scale, 'scale', ctx)
        E = mmul(fmat(*e_ang), M)
        for ent in back.entities:
            got_pos = [float(x) for x in ent['origin'].split()]
            want = [w + o for w, o in zip(vrot(e_pos, M), i_pos)]
            for j in range(3):
                close(got_pos[j], want[j], 'origin', ctx)
            ga = [float(x) for x in ent['angles'].split()]
            if ent['classname'] == 'light_spot':
                Ep = mmul(fmat(pitch, e_ang[1], e_ang[2]), M)
                G = fmat(ga[0], ga[1], ga[2])
                G2 = fmat(-float(ent['pitch']), ga[1], ga[2])
                for r_ in range(3):
                    for c_ in range(3):
                        close(G[r_][c_], Ep[r_][c_], 'spot.angles', ctx)
                        close(G2[r_][c_], Ep[r_][c_], 'spot.pitch', ctx)
                gd = [float(x) for x in ent['_shadoworiginoffset'].split()]
                wd = vrot(d_vec, M)
                for j in range(3):
                    close(gd[j], wd[j], 'direction', ctx)
            else:
                G = fmat(ga[0], ga[1], ga[2])
                for r_ in range(3):
                    for c_ in range(3):
                        close(G[r_][c_], E[r_][c_], 'angles', ctx)
    json.dump({'checks': checks, 'cases': n_cases, 'bad': bad[:50], 'n_bad': len(bad)}, open(out_path, 'w'))


# ------------------------------------------------------------------ replay
def regenerate(hist: dict, out: hlib.RecWriter) -> None:
    g = hist['gen']
    if g == 'io':
        run_io(hist['sc'], out, 'replay')
    elif g == 'scen':
        run_scen(hist['sc'], out, 'replay')
    elif g == 'random':
        random_case(hist['seed'], out)
    elif g == 'run':
        run_all(hist['tmpl'], hist['ents'], hist['limit'], out, 'replay', hist)
    elif g == 'step':
        w = state_world(hist['root'])
        for a in hist['path']:
            a = dict(a)
            bad = badc = ''
            pre = post = {'map': [], 'todo': [], 'round': 0}
            hashes = ['', '']
            try:
                pre = w.project()
                hashes = w.apply(a)
                post = w.project()
            except OffLattice as exc:
                bad, badc = str(exc), 'proj.lattice'
            except Diverged as exc:
                bad, badc = str(exc), 'step.diverged'
            if a['op'] in ('roundstart', 'collapse'):
                out.write({'k': 'step', 'tmpl': w.tmpl, 'pre': pre, 'a': a, 'post': post, 'hash': hashes, 'bad': bad, 'badc': badc,
                           'sig': {'kind': 'step', 'action': a['op'], 'src': 'replay', 'diverged': bool(a.get('diverged')),
                                   'nested_fixup_renamed': w.renamed_shared}, 'hist': hist})
            if bad:
                break
    elif g == 'subst':
        fx = EntityFixup([FixupValue(k, v, i + 1) for i, (k, v) in enumerate(hist['table'])])
        res = fx.substitute(hist['text'], hist['default'])
        out.write({'k': 'subst', 'tab': [[cp(k), cp(v.value)] for k, v in fx._fixup.items()], 'text': cp(hist['text']),
                   'def': cp(hist['default']), 'res': cp(res),
                   'sig': {'kind': 'subst', 'action': 'substitute', 'src': 'replay', 'empty_table_var': not hist['table']}, 'hist': hist})
    elif g == 'name':
        inst = Instance(hist['iname'], 'f.vmf', Vec(), Matrix(), FixupStyle(hist['style']))
        out.write({'k': 'name', 'style': hist['style'], 'iname': cp(hist['iname']), 'n': cp(hist['n']),
                   'res': cp(inst.fixup_name(hist['n'])), 'sig': {'kind': 'name', 'action': 'fixup_name', 'src': 'replay'}, 'hist': hist})
    else:
        raise SystemExit(2)


def main() -> None:
    mode = sys.argv[1]
    stats: dict = {}
    rng = random.Random(hlib.seed() * 7919 + 17)
    thorough = hlib.tier() == 'thorough'
    if mode == 'numeric':
        numeric_mode(sys.argv[2], rng, thorough)
        print(json.dumps({'records': 0}))
        return
    out = hlib.RecWriter(sys.argv[-1])
    if mode == 'scen':
        scens = json.load(open(sys.argv[2]))
        for sc in scens:
            run_scen(sc, out)
        stats['scenarios'] = len(scens)
    elif mode == 'subst':
        subst_records(out, rng, thorough)
    elif mode == 'edges':
        replay_edges(sys.argv[2], out, stats)
    elif mode == 'runs':
        runs_mode(sys.argv[2], out, rng, thorough, stats)
    elif mode == 'random':
        random_mode(out, rng, thorough)
    elif mode == 'replay':
        rp = json.load(open(sys.argv[2]))
        regenerate(rp['record']['hist'], out)
    else:
        raise SystemExit(2)
    out.close()
    stats['records'] = out.n
    print(json.dumps(stats))


if __name__ == '__main__':
    main()
