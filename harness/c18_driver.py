"""C18 driver: runs the real RawFileSystem (constrain_path=True), a FileSystemChain member with
a sub-folder prefix, and packlist.unify_path on path inputs and logs one record per input with
the outcome of every kind of access.  Modes:
  exh <family json> <nproc> <part> <out>   a bounded family of specs/PathRes (part k of nproc)
  unify <maxlen> <out>                the bounded family for unify_path
  random <out>                        seeded random inputs far outside the bounds
  replay <replay.json> <out>          re-execute the input stored in a replay file
The driver only executes and serialises; every verdict is TLC's (specs/PathResTrace.tla).
"""
from __future__ import annotations

import itertools
import json
import os
import random
import shutil
import sys
import tempfile

from vlib import hlib

hlib.require_repo_src()
from srctools.filesys import FileSystemChain, RawFileSystem, RootEscapeError  # noqa: E402
from srctools.packlist import unify_path  # noqa: E402

BS = '\\'
ALPHABET = ['..', '.', '', 'sub', 'in.txt', 'rootx', 'root', 'B', 'A']
U_ALPHABET = ['..', '.', '', 'a', 'B']
PRES = ['rel', 'abs0', 'absW']
KINDS = ['fwd', 'back', 'mix']
FORMS = ['plain', 'trail']
WORLD = {   # path below the world directory -> content tag
    'A/B/root/in.txt': 'IN1', 'A/B/root/sub/in.txt': 'IN2',
    'A/B/rootx/in.txt': 'OUT_X', 'A/B/root.bak/in.txt': 'OUT_BAK', 'A/B/roo/in.txt': 'OUT_ROO',
    'A/B/Root/in.txt': 'OUT_CAP', 'A/B/in.txt': 'OUT_B', 'A/in.txt': 'OUT_A', 'in.txt': 'OUT_W',
}
WDIR = ['']      # current world directory (real path); locations below it are logged as '~/...'
WALK_CAP = 12   # a correct walk lists at most 2 files; never crawl the machine if containment is broken


class World:
    def __init__(self) -> None:
        self.dir = os.path.realpath(tempfile.mkdtemp(prefix='vc18_', dir='/tmp'))
        for rel, tag in WORLD.items():
            p = os.path.join(self.dir, rel)
            os.makedirs(os.path.dirname(p), exist_ok=True)
            with open(p, 'wb') as f:
                f.write(tag.encode())
        WDIR[0] = self.dir
        self.base = self.dir.strip('/').split('/')
        self.root_comps = self.base + ['A', 'B', 'root']
        self.root_str = '/' + '/'.join(self.root_comps)
        self._fs: dict = {}

    def root_given(self, form: str) -> list:
        b = self.base
        return {'plain': b + ['A', 'B', 'root'], 'trail': b + ['A', 'B', 'root', ''],
                'dot': b + ['A', 'B', '.', 'root', ''], 'updown': b + ['A', 'B', 'rootx', '..', 'root']}[form]

    def fs(self, form: str, chain: bool):
        key = (form, chain)
        if key not in self._fs:
            raw = RawFileSystem('/' + '/'.join(self.root_given(form)), constrain_path=True)
            self._fs[key] = FileSystemChain((raw, 'sub')) if chain else raw
        return self._fs[key]

    def cleanup(self) -> None:
        shutil.rmtree(self.dir, ignore_errors=True)


def sep_at(kind: str, i: int) -> str:
    return '/' if kind == 'fwd' else BS if kind == 'back' else ('/' if i % 2 == 1 else BS)


def tokens(pre: str, kind: str, body: list, base: list) -> list:
    toks = [['' if (pre == 'rel' and i == 1) else sep_at(kind, i), c] for i, c in enumerate(body, 1)]
    if pre == 'absW':
        toks = [['/', c] for c in base] + toks
    return toks


def read_tag(fobj) -> list:
    """[real path, content tag] of an opened file."""
    with fobj:
        data = fobj.read(64)
        name = getattr(fobj, 'name', None)     # where the OS says the handle points, when it says so
        real = os.path.realpath(name) if isinstance(name, str) else ''
    if real.startswith(WDIR[0] + '/'):
        real = '~' + real[len(WDIR[0]):]
    if isinstance(data, bytes):
        data = data.decode('latin-1')
    return [real, data if data in WORLD.values() else '?' + data[:16]]


def exc_class(exc: BaseException) -> str:
    """The statement fixes one error type (RootEscapeError); every OS error is 'no such file'."""
    if isinstance(exc, RootEscapeError):
        return 'RootEscapeError'
    return 'OSError' if isinstance(exc, OSError) else type(exc).__name__


def attempt(fn) -> dict:
    try:
        return {'e': '', 'files': [fn()]}
    except Exception as exc:   # the type name is the outcome; TLC decides whether it is acceptable
        return {'e': exc_class(exc), 'files': []}


def lands(w: World, chain: bool, name: str) -> str:
    """Abstract parameter for known-finding signatures (not a verdict): where the name points."""
    eff = os.path.join('sub', name).replace(BS, '/') if chain else name
    loc = os.path.normpath(os.path.join(w.root_str, eff))
    if loc.startswith('//'):
        loc = loc[1:]
    comps = loc.strip('/').split('/') if loc != '/' else []
    if comps[:len(w.root_comps)] == w.root_comps:
        return 'inside'
    if loc.startswith(w.root_str):
        return 'name-extends-root'
    return 'outside'


def run_input(w: World, cfg: dict, toks: list, body, src: str) -> dict:
    name = ''.join(s + c for s, c in toks)
    fs = w.fs(cfg['form'], cfg['chain'])
    try:
        has = {'e': '', 'v': bool(name in fs)}
    except Exception as exc:
        has = {'e': exc_class(exc), 'v': False}
    get = attempt(lambda: read_tag(fs[name].open_bin()))
    ob = attempt(lambda: read_tag(fs.open_bin(name)))
    os_ = attempt(lambda: read_tag(fs.open_str(name)))
    walk = {'e': '', 'files': [], 'trunc': False}
    try:
        for n, f in enumerate(fs.walk_folder(name)):
            if n >= WALK_CAP:
                walk['trunc'] = True
                break
            walk['files'].append(read_tag(f.open_bin()))
        walk['files'].sort()
    except Exception as exc:
        walk = {'e': exc_class(exc), 'files': [], 'trunc': False}
    given = w.root_given(cfg['form'])
    return {'k': 'res', 'src': src, 'cfg': cfg, 'body': body, 'b': w.base, 'pfx': ['sub'],
            'rootstr': '/' + '/'.join(given), 'toks': toks, 'str': name,
            'has': has, 'get': get, 'ob': ob, 'os': os_, 'walk': walk,
            'sig': {'kind': 'chain' if cfg['chain'] else 'raw', 'lands': lands(w, cfg['chain'], name),
                    'pre': cfg['pre'], 'sep': cfg['kind'], 'src': src}}


def bodies(alphabet: list, maxlen: int, min_len: int):
    for n in range(min_len, maxlen + 1):
        yield from itertools.product(alphabet, repeat=n)


def exhaustive(out: hlib.RecWriter, fam: dict, nproc: int, part: int) -> None:
    """fam = the constants of a specs/PathRes_*.cfg (read from the cfg by props/c18.py)."""
    assert sorted(fam['alphabet']) == sorted(ALPHABET), fam
    w = World()
    try:
        cfgs = [{'pre': p, 'kind': k, 'form': f, 'chain': c}
                for p in sorted(fam['pres']) for k in sorted(fam['kinds']) for f in sorted(fam['forms'])
                for c in sorted(fam['chains'])]
        for ci, cfg in enumerate(cfgs):
            if ci % nproc != part:
                continue
            for body in bodies(ALPHABET, fam['maxlen'], 0 if cfg['pre'] == 'rel' else 1):
                body = list(body)
                out.write(run_input(w, cfg, tokens(cfg['pre'], cfg['kind'], body, w.base), body, 'exh'))
    finally:
        w.cleanup()


def unify_record(toks: list, src: str, cfg=None, body=None) -> dict:
    name = ''.join(s + c for s, c in toks)
    try:
        res, exc = unify_path(name), ''
    except Exception as e:
        res, exc = '', type(e).__name__
    comps = sorted({c for _, c in toks})
    norm = os.path.normpath(name.replace(BS, '/')) if name else '.'
    shape = ('bare-dotdot' if norm == '..' else 'climbs' if norm.startswith('../') else
             'absolute' if norm.startswith('/') else 'below')
    return {'k': 'unify', 'src': src, 'cfg': cfg or {}, 'body': body or [], 'toks': toks, 'str': name,
            'e': exc, 'res': res, 'rescomps': res.split('/') if res else [],
            'fold': [[c, c.casefold()] for c in comps if c.casefold() != c],
            'sig': {'kind': 'unify', 'action': 'unify_path', 'shape': shape, 'src': src,
                    'backslash': BS in name}}


def unify_family(out: hlib.RecWriter, maxlen: int) -> None:
    for pre in ('rel', 'abs0'):
        for kind in KINDS:
            cfg = {'pre': pre, 'kind': kind}
            for body in bodies(U_ALPHABET, maxlen, 0 if pre == 'rel' else 1):
                body = list(body)
                out.write(unify_record(tokens(pre, kind, body, []), 'exh', cfg, body))


def random_inputs(out: hlib.RecWriter, rng: random.Random, n: int) -> None:
    """Longer paths, arbitrary separator at every position, more sibling names, all root spellings."""
    w = World()
    try:
        names = ['..', '..', '..', '.', '', 'sub', 'in.txt', 'rootx', 'root.bak', 'roo', 'Root', 'root',
                 'B', 'A', 'ROOT', 'root/', 'in.txt.bak', 'su', 'x' * 40, 'röot', '..sub', 'sub..']
        names = [x for x in names if '/' not in x]
        for _ in range(n):
            cfg = {'pre': rng.choice(['rel', 'rel', 'rel', 'abs0', 'absW']), 'kind': 'any',
                   'form': rng.choice(['plain', 'trail', 'dot', 'updown']), 'chain': rng.random() < 0.4}
            ln = rng.randint(1, 12)
            style = rng.random()
            if style < 0.35:      # climb out, then come back down through plausible names
                up = rng.randint(1, 5)
                body = ['..'] * up + rng.choice([['rootx'], ['root.bak'], ['root'], ['B', 'root'], ['B', 'rootx'],
                                                  ['A', 'B', 'root'], ['roo'], ['Root'], []]) \
                    + rng.choice([['in.txt'], ['sub', 'in.txt'], [], ['sub']])
                body = [rng.choice(['.', '', 'sub']) for _ in range(rng.randint(0, 2))] + body
            else:
                body = [rng.choice(names) for _ in range(ln)]
            toks = []
            for i, c in enumerate(body, 1):
                s = rng.choice(['/', '/', '/', BS])
                if cfg['pre'] == 'rel' and i == 1:
                    s = ''
                toks.append([s, c])
            if cfg['pre'] == 'absW':
                toks = [['/', c] for c in w.base] + toks
            if cfg['pre'] != 'rel' and not body:
                continue
            out.write(run_input(w, cfg, toks, body, 'rnd'))
        # unify_path: long mixed paths
        unames = ['..', '..', '.', '', 'a', 'B', 'Materials', 'MODELS', 'props', 'x.vmt', 'straße', 'Straße']
        for _ in range(n):
            ln = rng.randint(1, 10)
            toks = []
            lead = rng.random() < 0.2
            for i in range(1, ln + 1):
                s = rng.choice(['/', '/', BS])
                if i == 1 and not lead:
                    s = ''
                toks.append([s, rng.choice(unames)])
            out.write(unify_record(toks, 'rnd'))
    finally:
        w.cleanup()


def replay(path: str, out: hlib.RecWriter) -> None:
    rp = json.load(open(path))
    rec = rp['record']
    if rec['k'] == 'unify':
        out.write(unify_record(rec['toks'], 'replay', rec.get('cfg'), rec.get('body')))
        return
    w = World()
    try:
        cfg = rec['cfg']
        # the stored tokens contain the old world directory for absolute inputs: rebuild them
        nb = len(rec['b'])
        toks = rec['toks']
        if cfg['pre'] == 'absW':
            toks = [['/', c] for c in w.base] + toks[nb:]
        new = run_input(w, cfg, toks, rec['body'], 'replay')
        new['sig']['src'] = rp.get('src', 'replay')
        out.write(new)
    finally:
        w.cleanup()


def main() -> None:
    mode = sys.argv[1]
    if mode == 'exh':
        out = hlib.RecWriter(sys.argv[5])
        exhaustive(out, json.loads(sys.argv[2]), int(sys.argv[3]), int(sys.argv[4]))
    elif mode == 'unify':
        out = hlib.RecWriter(sys.argv[3])
        unify_family(out, int(sys.argv[2]))
    elif mode == 'random':
        out = hlib.RecWriter(sys.argv[2])
        rng = random.Random(hlib.seed() * 104729 + 18)
        random_inputs(out, rng, 30000 if hlib.tier() == 'thorough' else 3000)
    elif mode == 'replay':
        out = hlib.RecWriter(sys.argv[3])
        replay(sys.argv[2], out)
    else:
        raise SystemExit(2)
    out.close()
    print(json.dumps({'records': out.n}))


if __name__ == '__main__':
    main()
