"""C12 driver: runs the real srctools.AtomicWriter (bytes and text mode) and BSP.save in fresh
temporary directories under schedules chosen by TLC, and logs what happens at every
file-system operation boundary.

The io stack is observed from outside, inside this process: io.open / builtins.open, os.mkdir,
os.replace, os.rename, os.unlink, os.remove are wrapped, and files opened for writing inside the
sandbox are built from subclasses of io.FileIO / io.BufferedWriter / io.TextIOWrapper whose
write/close are the boundaries (so the real buffering of CPython is in play).  At a boundary the
scheduler decides: go, raise OSError (fault), kill (crash: SIGKILL of the forked child, or - with two
writers - the writer thread is parked for ever and the child leaves through os._exit), raise in the
body.  Every event is logged with the directory listing observed immediately before it.

Modes:
  paths <paths.json> <kinds> <out> [limit]   execute every TLC schedule (PATH lines of AtomicWrite)
  ref <out>                                  fault-free reference runs of the large scenarios
  inject <ref.ndjson> <points.json> <out>    execute every injection point TLC derived from the references
  replay <replay.json> <out>                 re-execute the run stored in a replay file
"""
from __future__ import annotations

import builtins
import codecs
import errno
import io
import json
import os
import random
import re
import shutil
import signal
import struct
import sys
import tempfile
import threading
import time
import traceback

from vlib import hlib

hlib.require_repo_src()
import srctools  # noqa: E402
from srctools import AtomicWriter  # noqa: E402
from srctools.bsp import BSP, BSP_LUMPS  # noqa: E402

UNIT = 600            # bytes per body write in TLC schedules (well below any io buffer size)
_PROBED: dict = {}


def probe_names(dest_base: str, text: bool) -> list:
    """The names AtomicWriter gives its temporary file for a destination called dest_base when nothing,
    one, two files are in the way (observed in a scratch directory, not hooked).  Missing ranks (the
    writer creates no new file) fall back to tmp_1, tmp_2, tmp_3."""
    key = (dest_base, text)
    if key not in _PROBED:
        names: list = []
        d = tempfile.mkdtemp(prefix='c12probe_')
        try:
            for _ in range(3):
                before = set(os.listdir(d))
                try:
                    f = AtomicWriter(os.path.join(d, dest_base), is_bytes=not text).__enter__()
                    f.close()
                except Exception:       # noqa: BLE001
                    break
                new = set(os.listdir(d)) - before - {dest_base}
                if len(new) != 1:
                    break
                names.append(new.pop())
        finally:
            shutil.rmtree(d, ignore_errors=True)
        for k in range(len(names), 3):
            cand = f'tmp_{k + 1}'
            names.append(cand if cand not in names else f'tmp_x{k + 1}')
        _PROBED[key] = names
    return _PROBED[key]


def naming_deterministic() -> bool:
    a = list(probe_names('dest_w1.bin', False))
    _PROBED.pop(('dest_w1.bin', False))
    return a == probe_names('dest_w1.bin', False)
_REAL = {'open': io.open, 'mkdir': os.mkdir, 'replace': os.replace, 'rename': os.rename,
         'unlink': os.unlink, 'remove': os.remove}
_tls = threading.local()
RUN: 'Run | None' = None


class BodyErr(Exception):
    """Raised by the caller's body (not an OSError)."""


def _cur():
    w = getattr(_tls, 'w', None)
    if RUN is not None and w is not None:
        return RUN, w
    return None, None


# ------------------------------------------------------------------ hooked io stack
class HookedFileIO(io.FileIO):
    """The raw file: write() and close() are the operating-system boundaries."""
    _outer = None

    def write(self, b):
        run, w = _cur()
        if run is None:
            return super().write(b)
        n = memoryview(b).nbytes
        dec = run.boundary(w, 'write')
        if dec == 'fault':
            run.log(w, 'write', 'fault', n=n)
            if self._outer is not None and not self._outer._body_over:
                self._outer._body_over = True       # the OSError ends the body
            raise OSError(errno.EIO, 'injected write fault')
        k = super().write(b)
        run.log(w, 'write', 'ok', n=k)
        return k

    def close(self):
        if self.closed:
            return super().close()
        run, w = _cur()
        if run is None:
            return super().close()
        if self._outer is not None:
            self._outer._mark_body_end(sys.exc_info()[0])
        dec = run.boundary(w, 'close')
        super().close()                 # like the OS: the descriptor is gone even if close fails
        if dec == 'fault':
            run.log(w, 'close', 'fault')
            raise OSError(errno.EIO, 'injected close fault')
        run.log(w, 'close', 'ok')


class _Outer:
    """Mixin for the object handed to the body: write() = the body hands over bytes; __exit__/close
    = the body is over."""
    _body_over = False

    def _mark_body_end(self, exc_type):
        if self._body_over:
            return
        self._body_over = True
        run, w = _cur()
        if run is None:
            return
        op = 'endbody' if exc_type is None else 'bodyerr'
        run.boundary(w, op)
        run.log(w, op, 'ok')

    def _bcall(self, n):
        run, w = _cur()
        if run is None or self._body_over:
            return
        dec = run.boundary(w, 'bcall')
        if dec == 'bodyerr':
            self._body_over = True
            run.log(w, 'bodyerr', 'ok')
            raise BodyErr('injected body exception')
        run.log(w, 'bcall', 'ok', n=n)


class HookedBuffered(_Outer, io.BufferedWriter):
    def write(self, b):
        self._bcall(memoryview(b).nbytes)
        return super().write(b)

    def __exit__(self, exc_type, exc, tb):
        self._mark_body_end(exc_type)
        return super().__exit__(exc_type, exc, tb)

    def close(self):
        if not self.closed:
            self._mark_body_end(sys.exc_info()[0])
        return super().close()


class HookedText(_Outer, io.TextIOWrapper):
    _enc = None
    _wr_newline = None

    def write(self, s):
        # the bytes this text becomes under the file's own encoding and error handling (an incremental
        # encoder: a BOM counts once); text the encoding cannot express raises here exactly as it would
        # in the real write
        if self._enc is None:
            self._enc = codecs.getincrementalencoder(self.encoding)(self.errors or 'strict')
        data = s.replace('\n', os.linesep) if self._wr_newline is None else s
        self._bcall(len(self._enc.encode(data)))
        return super().write(s)

    def __exit__(self, exc_type, exc, tb):
        self._mark_body_end(exc_type)
        return super().__exit__(exc_type, exc, tb)

    def close(self):
        if not self.closed:
            self._mark_body_end(sys.exc_info()[0])
        return super().close()


def hooked_open(file, mode='r', buffering=-1, encoding=None, errors=None, newline=None,
                closefd=True, opener=None):
    run, w = _cur()
    if (run is None or isinstance(file, int) or not any(c in mode for c in 'wxa+')
            or not run.inside(file)):
        return _REAL['open'](file, mode, buffering, encoding, errors, newline, closefd, opener)
    name = os.fspath(file)
    idx = run.tmp_index(name)
    binary = 'b' in mode
    rawmode = mode.replace('b', '').replace('t', '')
    dec = run.boundary(w, 'open')
    if dec == 'fault':
        run.log(w, 'open', 'fault', i=idx)
        raise OSError(errno.EIO, 'injected open fault', name)
    try:
        raw = HookedFileIO(name, rawmode)
    except FileExistsError:
        run.log(w, 'open', 'exists', i=idx)
        raise
    except FileNotFoundError:
        run.log(w, 'open', 'noent', i=idx)      # the directory is not there (yet): nothing was created
        raise
    run.log(w, 'open', 'ok', i=idx)
    if buffering < 0:
        buffering = getattr(raw, '_blksize', io.DEFAULT_BUFFER_SIZE)
        if buffering <= 1:
            buffering = io.DEFAULT_BUFFER_SIZE
    if binary:
        out = HookedBuffered(raw, buffering)
        raw._outer = out
        return out
    buf = io.BufferedWriter(raw, buffering)
    out = HookedText(buf, encoding, errors, newline)
    out._wr_newline = newline
    out.mode = mode
    raw._outer = out
    return out


def _fs_hook(opname, realname):
    real = _REAL[realname]

    def hook(*args, **kw):
        run, w = _cur()
        if run is None or not run.inside(args[0]):
            return real(*args, **kw)
        src = os.fspath(args[0])
        if opname == 'mkdir':
            dec = run.boundary(w, 'mkdir')
            if dec == 'fault':
                run.log(w, 'mkdir', 'fault')
                raise OSError(errno.EIO, 'injected mkdir fault', src)
            try:
                real(*args, **kw)
            except FileExistsError:
                run.log(w, 'mkdir', 'exists')
                raise
            run.log(w, 'mkdir', 'ok', n=1 if os.path.abspath(src) == run.ddir else 0)
            return None
        idx = run.tmp_index(src)
        if opname == 'replace':
            tgt = 1 if os.path.abspath(os.fspath(args[1])) == run.dest[w] else 0
            dec = run.boundary(w, 'replace')
            if dec == 'fault':
                run.log(w, 'replace', 'fault', i=idx, n=tgt)
                raise OSError(errno.EIO, 'injected replace fault', src)
            real(*args, **kw)
            run.log(w, 'replace', 'ok', i=idx, n=tgt)
            return None
        dec = run.boundary(w, 'unlink')
        if dec == 'fault':
            run.log(w, 'unlink', 'fault', i=idx)
            raise OSError(errno.EIO, 'injected unlink fault', src)
        try:
            real(*args, **kw)
        except FileNotFoundError:
            run.log(w, 'unlink', 'noent', i=idx)
            raise
        run.log(w, 'unlink', 'ok', i=idx)
        return None
    return hook


def install_hooks() -> None:
    io.open = hooked_open
    builtins.open = hooked_open
    os.mkdir = _fs_hook('mkdir', 'mkdir')
    os.replace = _fs_hook('replace', 'replace')
    os.rename = _fs_hook('replace', 'rename')
    os.unlink = _fs_hook('unlink', 'unlink')
    os.remove = _fs_hook('unlink', 'remove')


# ------------------------------------------------------------------ one run
class Run:
    """One execution in a fresh directory.  path = TLC schedule (list of events) or None;
    inject = (k, kind) the k-th boundary of the single writer gets kind; None = nothing."""

    def __init__(self, base: str, init: dict, writers: list, kind: str, path=None, inject=None,
                 bodies=None) -> None:
        self.base = base
        self.root = os.path.join(base, 'root')
        self.ddir = os.path.join(self.root, 'd')
        self.init = init
        self.writers = writers
        self.kind = kind
        self.path = path or []
        self.ptr = 0
        self.inject = inject
        self.count = 0
        self.bodies = bodies or {}
        self.dest = {w: os.path.join(self.ddir, f'dest_{w}.bin') for w in writers}
        self.dest_names = {os.path.basename(p) for p in self.dest.values()}
        self.ids: dict = {}
        text = kind == 'aw-text'
        ranks = [probe_names(os.path.basename(self.dest[w]), text) for w in writers]
        for k in range(3):                     # rank k+1 of the first writer is name number k+1
            for names in ranks:
                if names[k] not in self.ids:
                    self.ids[names[k]] = max(self.ids.values(), default=0) + 1
        self.rank_names = ranks[0]
        self.old = {}
        self.new = {}
        self.new2: dict = {}        # complete contents of a writer's second round (re-used writer object)
        self.cv = threading.Condition()
        self.active = None
        self.pending: dict = {}
        self.finished: set = set()
        self.parked: set = set()
        self.cur_ls: dict = {}
        self.events: list = []
        self.logfd = None
        self.single = len(writers) == 1
        self.forked = False

    # -- the sandbox
    def inside(self, p) -> bool:
        try:
            return os.path.abspath(os.fspath(p)).startswith(self.root + os.sep)
        except TypeError:
            return False

    def tmp_index(self, p: str) -> int:
        """The number of a file name by its ROLE: 0 = a destination or a file outside the destination's
        directory; every other name in that directory gets a number >= 1 (the names the writer was seen to
        try first, second, ... in a probe run get 1, 2, ...; unknown names the next free numbers)."""
        if os.path.dirname(os.path.abspath(p)) != self.ddir:
            return 0
        bn = os.path.basename(p)
        if bn in self.dest_names:
            return 0
        if bn not in self.ids:
            self.ids[bn] = max(self.ids.values(), default=0) + 1
            if self.logfd is not None:          # tell the parent process which number the name got
                os.write(self.logfd, (json.dumps({'op': '_id', 'name': bn, 'id': self.ids[bn]}) + '\n').encode())
        return self.ids[bn]

    def setup(self) -> None:
        os.makedirs(self.root)
        if self.init['dir']:
            _REAL['mkdir'](self.ddir)
        for w in self.writers:
            if self.init['orig'][w] == 'old':
                with _REAL['open'](self.dest[w], 'wb') as f:
                    f.write(self.old[w])
        # files lying around under the names the writer would pick first, second, ... (learnt by probing)
        for k in self.init['stale']:
            with _REAL['open'](os.path.join(self.ddir, self.rank_names[k - 1]), 'wb') as f:
                f.write(b'stale temp file of an earlier process\n')

    def ls(self) -> dict:
        if not os.path.isdir(self.ddir):
            return {'dir': False, 'd': {w: 'absent' for w in self.writers}, 'tmp': [], 'other': []}
        names = sorted(os.listdir(self.ddir))
        d = {}
        known = set()
        for w in self.writers:
            bn = os.path.basename(self.dest[w])
            known.add(bn)
            if bn not in names:
                d[w] = 'absent'
                continue
            size = os.stat(self.dest[w]).st_size
            cls = 'bad'
            if size in (len(self.old[w]), len(self.new[w]), len(self.new2.get(w, b''))):
                with _REAL['open'](self.dest[w], 'rb') as f:
                    data = f.read()
                if data == self.new[w]:
                    cls = 'new'
                elif w in self.new2 and data == self.new2[w]:
                    cls = 'new2'
                elif data == self.old[w] and self.init['orig'][w] == 'old':
                    cls = 'old'
            d[w] = cls
        tmp = []
        other = []
        for nm in names:
            if nm not in known:
                tmp.append([self.tmp_index(os.path.join(self.ddir, nm)), os.stat(os.path.join(self.ddir, nm)).st_size > 0])
        tmp.sort()
        return {'dir': True, 'd': d, 'tmp': tmp, 'other': other}

    # -- logging
    def emit(self, rec: dict) -> None:
        self.events.append(rec)
        if self.logfd is not None:
            os.write(self.logfd, (json.dumps(rec, separators=(',', ':')) + '\n').encode())

    def log(self, w, op, res, n=0, i=0) -> None:
        self.emit({'w': w, 'op': op, 'res': res, 'n': n, 'i': i, 'ls': self.cur_ls.get(w)})

    # -- scheduling
    def _decide(self, w, op):
        """With self.cv held: None = not this writer's turn; else the decision for its boundary."""
        if self.active not in (None, w):
            return None
        if self.inject is not None:
            if self.count + 1 == self.inject[0]:
                self.count += 1
                return self.inject[1]
            self.count += 1
            return 'go'
        # A schedule step means: let that writer perform its next file-system operation.  Steps of the
        # schedule that do not happen in this run (a mkdir the writer does not need, an attempt at a name
        # that is not taken, a raw write the io stack does not repeat) are dropped, operations of this run
        # the schedule does not have are let through without using a step up.
        def optional(ev):
            return ((ev['op'] == 'write' and ev['res'] == 'ok') or (ev['op'] == 'open' and ev['res'] in ('ok', 'exists'))
                    or (ev['op'] == 'mkdir' and ev['res'] in ('ok', 'exists')))
        while True:
            while self.ptr < len(self.path) and (self.path[self.ptr]['w'] in self.finished
                                                 or self.path[self.ptr]['w'] in self.parked):
                self.ptr += 1
            if self.ptr >= len(self.path):
                return 'go'
            e = self.path[self.ptr]
            if e['w'] == w and optional(e) and e['op'] != op:
                self.ptr += 1
                continue
            break
        if e['w'] != w:
            # the scheduled writer is on its way to a boundary (or will finish): wait for it
            return None
        if e['op'] != op and op in ('write', 'bcall', 'open', 'mkdir') and e['op'] != 'crash':
            return 'go'         # an extra operation of this run: do not consume the schedule
        self.ptr += 1
        if e['op'] == 'crash':
            return 'crash'
        if e['res'] == 'fault':
            return 'fault'
        return 'go'

    def boundary(self, w, op) -> str:
        with self.cv:
            if self.active == w:
                self.active = None
            self.pending[w] = op
            self.cv.notify_all()
            while True:
                before = self.ptr
                dec = self._decide(w, op)
                if dec is not None:
                    break
                if self.ptr != before:
                    self.cv.notify_all()        # steps were dropped: it may be another writer's turn now
                self.cv.wait()
            self.active = w
            del self.pending[w]
            self.cur_ls[w] = self.ls()
        if dec == 'crash':
            self.log(w, 'crash', 'ok')
            if self.single:
                os.kill(os.getpid(), signal.SIGKILL)
                os._exit(9)
            with self.cv:
                self.parked.add(w)
                self.active = None
                self.cv.notify_all()
            threading.Event().wait()        # for ever: the writer is dead, its file stays open
        return dec

    def finish(self, w) -> None:
        with self.cv:
            self.finished.add(w)
            if self.active == w:
                self.active = None
            self.cv.notify_all()

    # -- the writers
    def end_round(self, w, res: str, more: bool) -> None:
        """Control is back at the caller; with more = True the same writer object is entered again."""
        self.boundary(w, 'end')
        self.log(w, 'end', res)
        if more:
            self.boundary(w, 'reenter')
            self.log(w, 'reenter', 'ok')

    def _writer(self, w) -> None:
        _tls.w = w
        try:
            body = self.bodies[w]
            if getattr(body, 'rounds', False):
                body(self, w)           # logs the end of each of its rounds itself
            else:
                res = 'ok'
                try:
                    body(self, w)
                except BaseException:       # noqa: BLE001 - whatever leaves the with statement
                    res = 'raised'
                self.end_round(w, res, False)
        finally:
            _tls.w = None
            self.finish(w)

    def stuck(self, why: str) -> None:
        """The run did not come to an end the harness understands: say so IN THE RECORD (TLC judges it,
        clause run.incomplete, together with everything that was observed up to here)."""
        try:
            ls = self.ls()
        except Exception:       # noqa: BLE001
            ls = {'dir': False, 'd': {w: 'absent' for w in self.writers}, 'tmp': [], 'other': []}
        self.emit({'w': '', 'op': 'stuck', 'res': why, 'n': 0, 'i': 0, 'ls': ls})

    def execute(self) -> None:
        global RUN
        RUN = self
        try:
            if self.single:
                self._writer(self.writers[0])
            else:
                ths = [threading.Thread(target=self._writer, args=(w,), daemon=True) for w in self.writers]
                for t in ths:
                    t.start()
                with self.cv:
                    ok = self.cv.wait_for(lambda: len(self.finished | self.parked) == len(self.writers), timeout=25)
                if not ok:
                    RUN = None
                    self.stuck(f'writers neither finished nor killed: pending={sorted(self.pending.items())} '
                               f'active={self.active} finished={sorted(self.finished)} ptr={self.ptr} of {len(self.path)}')
        finally:
            RUN = None

    def run(self, fork: bool) -> list:
        """Execute; returns the event list (with the final 'post' observation).  Runs with a kill or with
        more than one writer (threads) are executed in a forked child, so that nothing of them can stay
        behind in this process; whatever happens to the child becomes part of the record."""
        self.setup()
        if not (fork or not self.single):
            class _Alarm(Exception):
                pass

            def on_alarm(signum, frame):
                raise _Alarm()
            old = signal.signal(signal.SIGALRM, on_alarm)
            signal.alarm(40)
            try:
                self.execute()
            except _Alarm:
                global RUN
                RUN = None
                self.stuck('the writer did not return within 40 s')
            finally:
                signal.alarm(0)
                signal.signal(signal.SIGALRM, old)
            evs = list(self.events)
        else:
            logp = os.path.join(self.base, 'log.ndjson')
            fd = os.open(logp, os.O_WRONLY | os.O_CREAT | os.O_APPEND, 0o600)
            pid = os.fork()
            if pid == 0:
                try:
                    self.logfd = fd
                    self.forked = True

                    def on_alarm(signum, frame):
                        self.stuck('watchdog: the run did not end within 45 s')
                        os._exit(0)
                    signal.signal(signal.SIGALRM, on_alarm)
                    signal.alarm(45)
                    self.execute()
                    os._exit(0)
                except BaseException:       # noqa: BLE001
                    try:
                        self.stuck('harness child: ' + traceback.format_exc()[-600:])
                    finally:
                        os._exit(0)
            os.close(fd)
            status = None
            t_start = time.monotonic()
            while time.monotonic() - t_start < 70:
                got, st = os.waitpid(pid, os.WNOHANG)
                if got:
                    status = st
                    break
                time.sleep(0.002 if time.monotonic() - t_start < 2 else 0.1)
            why = ''
            if status is None:
                os.kill(pid, signal.SIGKILL)
                os.waitpid(pid, 0)
                why = 'the child process had to be killed after 70 s'
            elif os.WIFSIGNALED(status):
                if os.WTERMSIG(status) != signal.SIGKILL:
                    why = f'the child process died with signal {os.WTERMSIG(status)}'
            elif os.WEXITSTATUS(status) != 0:
                why = f'the child process left with status {os.WEXITSTATUS(status)}'
            with _REAL['open'](logp, encoding='utf-8') as f:
                evs = []
                for ln in f:
                    try:
                        evs.append(json.loads(ln))
                    except ValueError:
                        pass                    # a line cut short by the kill
            for e in evs:
                if e['op'] == '_id':
                    self.ids[e['name']] = e['id']
            evs = [e for e in evs if e['op'] != '_id']
            planned_kill = any(e['op'] == 'crash' for e in evs)
            if status is not None and os.WIFSIGNALED(status) and os.WTERMSIG(status) == signal.SIGKILL and not planned_kill:
                why = 'the child process was killed although no kill was logged'
            if why:
                evs.append({'w': '', 'op': 'stuck', 'res': why, 'n': 0, 'i': 0, 'ls': self.ls()})
        evs.append({'w': '', 'op': 'post', 'res': 'ok', 'n': 0, 'i': 0, 'ls': self.ls()})
        return evs


# ------------------------------------------------------------------ bodies
def chunk_bytes(w: str, j: int, n: int) -> bytes:
    head = f'<{w}#{j}>'.encode()
    rnd = random.Random(f'{w}/{j}/{n}')
    return (head + rnd.randbytes(max(0, n - len(head))))[:n]


def chunk_text(w: str, j: int, n: int) -> str:
    """n encoded bytes worth of text with non-ASCII characters (2-byte UTF-8 sequences)."""
    head = f'<{w}#{j}>'[:n]
    rnd = random.Random(f'{w}/{j}/{n}/t')
    s = head
    size = len(head)
    while size < n:
        if size + 2 <= n and rnd.random() < 0.3:
            s += chr(rnd.randrange(0xC0, 0x250))
            size += 2
        else:
            s += chr(rnd.randrange(0x20, 0x7F))
            size += 1
    return s


def rounds_of_path(path: list, w: str) -> list:
    """The events of writer w, one list per round (a 'reenter' event starts the next round)."""
    rounds: list = [[]]
    for e in path:
        if e['w'] != w:
            continue
        if e['op'] == 'reenter':
            rounds.append([])
        else:
            rounds[-1].append(e)
    return rounds


def script_from_path(path: list, w: str) -> tuple[list, bool]:
    """The body the caller runs in one round, read off the schedule: one write per bcall, a flush
    where the schedule has raw writes inside the body, a raise at bodyerr.  Returns (steps, complete)."""
    steps: list = []
    in_body = False
    complete = False
    for e in path:
        if e['w'] != w:
            continue
        if e['op'] == 'open' and e['res'] == 'ok':
            in_body = True
        elif not in_body:
            continue
        elif e['op'] == 'bcall':
            steps.append(('w', e['n']))
        elif e['op'] == 'write':
            if not steps or steps[-1][0] != 'flush':
                steps.append(('flush',))
            if e['res'] == 'fault':
                break
        elif e['op'] == 'bodyerr':
            steps.append(('err',))
            break
        elif e['op'] == 'endbody':
            complete = True
            break
        elif e['op'] == 'crash':
            break
    return steps, complete


def new_of_script(w: str, steps: list, complete: bool, text: bool, j0: int = 0):
    parts = []
    j = j0
    for st in steps:
        if st[0] == 'w':
            parts.append(chunk_text(w, j, st[1] * UNIT) if text else chunk_bytes(w, j, st[1] * UNIT))
            j += 1
    if text:
        data = ''.join(parts).encode('utf8')
    else:
        data = b''.join(parts)
    # (complete or not: the bytes are those of the whole body as far as the schedule defines it - a body that
    # is cut short by an exception or a kill can at most have produced a prefix, and a prefix that is renamed
    # over the destination is rejected by the specification because the body had not finished)
    if not data:
        data = b''
    return data


def aw_body(steps, text: bool, unit: int = UNIT, rounds: bool = False):
    """steps: the body of one use of the writer; with rounds = True a list of bodies, run one after
    the other through the SAME AtomicWriter object (round k numbers its chunks from 100 * k)."""
    def one(aw, w: str, steps: list, j: int) -> None:
        with aw as f:
            for st in steps:
                if st[0] == 'w':
                    f.write(chunk_text(w, j, st[1] * unit) if text else chunk_bytes(w, j, st[1] * unit))
                    j += 1
                elif st[0] == 'flush':
                    f.flush()
                elif st[0] == 'err':
                    raise BodyErr('the body raises')

    def body(run: Run, w: str) -> None:
        aw = AtomicWriter(run.dest[w], is_bytes=not text)
        if not rounds:
            one(aw, w, steps, 0)
            return
        for k, st in enumerate(steps):
            res = 'ok'
            try:
                one(aw, w, st, 100 * k)
            except BaseException:       # noqa: BLE001 - whatever leaves the with statement
                res = 'raised'
            run.end_round(w, res, k + 1 < len(steps))
    body.rounds = rounds
    return body


# ------------------------------------------------------------------ a small synthetic BSP
def make_bsp_bytes(seed: int, rev: int) -> bytes:
    """A valid version-21 BSP: 64 lumps (some empty, some tens of KiB), one game lump."""
    rnd = random.Random(seed)
    lumps = {}
    for idx in range(64):
        if idx == 35:
            continue
        r = rnd.random()
        if r < 0.5:
            lumps[idx] = b''
        elif r < 0.85:
            lumps[idx] = rnd.randbytes(rnd.randrange(1, 300))
        else:
            lumps[idx] = rnd.randbytes(rnd.randrange(5000, 24000))
    lumps[0] = b'{\n"classname" "worldspawn"\n}\n\x00'
    header_size = 8 + 64 * 16 + 4
    glump_data = rnd.randbytes(777)
    # game lump: count, then (id, flags, version, offset, length), data follows
    pos = header_size
    offsets = {}
    body = bytearray()
    for idx in range(64):
        if idx == 35:
            g_off = pos + 4 + 16
            data = struct.pack('<i', 1) + struct.pack('<4sHHii', b'prps'[::-1], 0, 4, g_off, len(glump_data)) + glump_data
        else:
            data = lumps[idx]
        offsets[idx] = (pos, len(data))
        body += data
        pos += len(data)
    out = bytearray(struct.pack('<4si', b'VBSP', 21))
    for idx in range(64):
        out += struct.pack('<iiii', offsets[idx][0], offsets[idx][1], 0, 0)
    out += struct.pack('<i', rev)
    out += body
    return bytes(out)


def bsp_prepare(base: str, variant: str):
    """Returns (old bytes, BSP factory).  The factory loads the old file and modifies it."""
    old = make_bsp_bytes(7, 3)
    src = os.path.join(base, 'src.bsp')
    with _REAL['open'](src, 'wb') as f:
        f.write(old)

    def load() -> BSP:
        bsp = BSP(src)
        bsp.map_revision = 4
        bsp.lumps[BSP_LUMPS.ENTITIES].data = b'{\n"classname" "worldspawn"\n"message" "changed"\n}\n\x00'
        bsp.lumps[BSP_LUMPS.LIGHTING].data = random.Random(11).randbytes(30011)
        if variant == 'noversion':
            bsp.version = None            # BSP.save raises ValueError inside the with block
        elif variant == 'badlump':
            bsp.lumps[BSP_LUMPS.VERTEXES].data = 'not bytes'   # file.write raises TypeError mid-way
        return bsp
    return old, load


def bsp_body(load):
    def body(run: Run, w: str) -> None:
        bsp = load()
        bsp.save(run.dest[w])
    return body


def reference_output(load, base: str) -> bytes:
    """What a complete save writes (io not hooked: no run is active)."""
    p = os.path.join(base, 'reference.bsp')
    load().save(p)
    with _REAL['open'](p, 'rb') as f:
        return f.read()


# ------------------------------------------------------------------ records
def abnormal_of(path: list) -> dict:
    """Abstract parameters of a schedule, used to match known findings."""
    phase = {}
    out = {'crash': '', 'fault_op': '', 'fault_phase': '', 'bodyerr': False}
    for e in path:
        w = e['w']
        if e['op'] == 'crash':
            out['crash'] = phase.get(w, 'start')
        elif e['res'] == 'fault':
            out.update(fault_op=e['op'], fault_phase=phase.get(w, 'start'))
        elif e['op'] == 'bodyerr':
            out['bodyerr'] = True
        if e['op'] == 'open' and e['res'] == 'ok':
            phase[w] = 'body'
        elif e['op'] in ('endbody', 'bodyerr') or (e['op'] == 'write' and e['res'] == 'fault' and phase.get(w) == 'body'):
            phase[w] = 'closing'
        elif e['op'] == 'close':
            phase[w] = 'closed'
    return out


def run_path(base: str, p: dict, kind: str, t: int) -> dict:
    init = dict(p['init'])
    init['stale'] = sorted(init['stale'])
    writers = sorted(init['orig'])
    init['faults'] = 1
    path = p['ev']
    text = kind == 'aw-text'
    rdir = tempfile.mkdtemp(prefix='r', dir=base)
    run = Run(rdir, init, writers, kind, path=path)
    reuse = any(e['op'] == 'reenter' for e in path)
    for w in writers:
        scripts = [script_from_path(evs, w) for evs in rounds_of_path(path, w)]
        run.bodies[w] = aw_body([sc[0] for sc in scripts], text, rounds=True)
        run.old[w] = b'previous contents of ' + w.encode() + b'\n' * 50
        run.new[w] = new_of_script(w, scripts[0][0], scripts[0][1], text)
        if len(scripts) > 1:
            run.new2[w] = new_of_script(w, scripts[1][0], scripts[1][1], text, 100)
    crash = any(e['op'] == 'crash' for e in path)
    evs = run.run(fork=crash)
    shutil.rmtree(rdir, ignore_errors=True)
    sig = {'kind': kind, 'action': p.get('lab') or 'path%d%s' % (len(writers), 'r' if reuse else '')}
    sig.update(abnormal_of(path))
    return {'t': t, 'sig': sig, 'init': init, 'unit': UNIT, 'plan': path, 'ev': evs,
            'how': {'mode': 'path', 'kind': kind, 'path': p}}


PC_PHASE = {'idle': 'start', 'open': 'open', 'body': 'body', 'closing': 'closing', 'renaming': 'closed',
            'unlinking': 'closed', 'done': 'closed', 'failed': 'closed'}
SIZES = [0, 1, 17, 600, 4095, 4096, 4097, 8191, 8192, 8193, 20000, 70001]


def scenario(name: str, seed: int, base: str):
    """A large scenario outside the TLC bounds: (init, kind, body, old, new)."""
    rnd = random.Random(f'{name}/{seed}')
    w = 'w1'
    dirp = rnd.random() < 0.8
    init = {'dir': dirp, 'orig': {w: rnd.choice(['old', 'absent']) if dirp else 'absent'},
            'stale': sorted(rnd.sample([1, 2, 3], rnd.randrange(0, 4))) if dirp else [], 'faults': 1}
    if name.startswith('bsp'):
        variant = name.partition('-')[2]
        old, load = bsp_prepare(base, variant)
        new = reference_output(load, base) if not variant else old + b'<the save never completes>'
        return init, 'bsp', bsp_body(load), old, new
    if name.startswith('awe'):
        return encoding_scenario(name, init, w, rnd)
    text = name.startswith('awt')
    steps = []
    for _ in range(rnd.randrange(2, 8)):
        if rnd.random() < 0.25:
            steps.append(('flush',))
        else:
            steps.append(('w', rnd.choice(SIZES) if rnd.random() < 0.7 else rnd.randrange(0, 30000)))
    old = b'previous contents\n' * rnd.randrange(1, 2000)
    parts = []
    j = 0
    for st in steps:
        if st[0] == 'w':
            parts.append(chunk_text(w, j, st[1]) if text else chunk_bytes(w, j, st[1]))
            j += 1
    new = ''.join(parts).encode('utf8') if text else b''.join(parts)
    if new == old or (new == b'' and init['orig'][w] == 'absent' and False):
        new += b'!'
    return init, 'aw-text' if text else 'aw-bytes', aw_body(steps, text, unit=1), old, new


# text-mode writers with an explicit encoding: (encoding, pieces of text written one after the other)
ENCODING_CASES = [
    ('ascii', ['plain header\n', 'caf\u00e9 is not ascii\n', 'tail\n']),
    ('ascii', ['all of this\n', 'is seven bit\r\n', 'text\r']),
    ('latin-1', ['na\u00efve r\u00e9sum\u00e9\n', 'snowman \u2603 is not latin-1\n']),
    ('latin-1', ['\u00fcber \u00e5ngstr\u00f6m\r\n', '\u00a3 \u00bd\n']),
    ('cp1252', ['price \u20ac5 \u2013 ok\n', '\u201cquoted\u201d\r\n']),
    ('cp1252', ['fine so far\n', 'but \u0100 is not in cp1252\n']),
    ('utf8', ['\u00e9\u4e2d\U0001f600\n', 'lone surrogate \ud800 cannot be encoded\n']),
    ('utf8', ['\u00e9\u4e2d\U0001f600\n', 'line\r\nline\rline\n', '\ufeff is just a character here']),
    ('utf-16', ['bom first \u2603\n', 'second piece \U0001f600\r\n', 'third\r']),
    ('utf-8-sig', ['signature then text \u00e9\n', 'more\r\n']),
    ('utf-16-le', ['no bom \u2603\n', 'lone \udc00 surrogate\n']),
]


def encoding_scenario(name: str, init: dict, w: str, rnd: random.Random):
    """What must be in the destination is decided here, independently of the io stack: the text written,
    encoded with the writer's encoding (newlines as the platform writes them); if the encoding cannot
    express the text the write must fail and the previous contents must stay."""
    enc, pieces = ENCODING_CASES[int(name.partition('-')[2]) % len(ENCODING_CASES)]
    old = ('previous text \u00e9\n' * rnd.randrange(1, 50)).encode('utf8')
    try:
        new = ''.join(pieces).replace('\n', os.linesep).encode(enc)
    except UnicodeEncodeError:
        new = old + b'<cannot be encoded: must never be committed>'

    def body(run: Run, ww: str) -> None:
        with AtomicWriter(run.dest[ww], is_bytes=False, encoding=enc) as f:
            for piece in pieces:
                f.write(piece)
    return init, 'aw-text', body, old, new


def scenario_names(tier: str) -> list:
    n = 2 if tier == 'quick' else 8
    return (['bsp', 'bsp-noversion', 'bsp-badlump'] + [f'awb-{k}' for k in range(n)]
            + [f'awt-{k}' for k in range(n)] + [f'awe-{k}' for k in range(len(ENCODING_CASES))])


def run_scenario(base: str, name: str, seed: int, inject, t: int, point=None) -> dict:
    rdir = tempfile.mkdtemp(prefix='s', dir=base)
    init, kind, body, old, new = scenario(name, seed, rdir)
    run = Run(rdir, init, ['w1'], kind, inject=inject)
    run.bodies['w1'] = body
    run.old['w1'] = old
    run.new['w1'] = new
    evs = run.run(fork=bool(inject and inject[1] == 'crash'))
    shutil.rmtree(rdir, ignore_errors=True)
    sig = {'kind': kind, 'action': 'inject' if inject else 'reference', 'scenario': name,
           'crash': '', 'fault_op': '', 'fault_phase': '', 'bodyerr': name in ('bsp-noversion', 'bsp-badlump')}
    if point:
        ph = PC_PHASE.get(point['pc'], point['pc'])
        if point['kind'] == 'crash':
            sig['crash'] = ph
        elif point['kind'] == 'fault':
            sig['fault_op'] = point['op']
            sig['fault_phase'] = ph
        else:
            sig['bodyerr'] = True
    return {'t': t, 'sig': sig, 'init': init, 'unit': 1, 'plan': [], 'ev': evs,
            'how': {'mode': 'scenario', 'name': name, 'seed': seed, 'point': point or {}}}


def main() -> None:
    mode = sys.argv[1]
    install_hooks()
    base = tempfile.mkdtemp(prefix='c12_')
    try:
        if mode == 'paths':
            with open(sys.argv[2]) as f:
                paths = json.load(f)
            kinds = sys.argv[3].split(',')
            out = hlib.RecWriter(sys.argv[4])
            t = 0
            for kind in kinds:
                for p in paths:
                    t += 1
                    out.write(run_path(base, p, kind, t))
            out.close()
            print(json.dumps({'runs': t}))
        elif mode == 'ref':
            out = hlib.RecWriter(sys.argv[2])
            t = 0
            for name in scenario_names(hlib.tier()):
                t += 1
                out.write(run_scenario(base, name, hlib.seed(), None, t))
            out.close()
            print(json.dumps({'runs': t, 'naming_deterministic': naming_deterministic(),
                              'first_names': probe_names('dest_w1.bin', False)}))
        elif mode == 'inject':
            refs = [json.loads(ln) for ln in open(sys.argv[2]) if ln.strip()]
            with open(sys.argv[3]) as f:
                points = json.load(f)          # {t: [point, ...]}
            out = hlib.RecWriter(sys.argv[4])
            t = 0
            for r in refs:
                for pt in points.get(str(r['t']), []):
                    t += 1
                    out.write(run_scenario(base, r['how']['name'], r['how']['seed'], (pt['k'], pt['kind']), t, pt))
            out.close()
            print(json.dumps({'runs': t}))
        elif mode == 'replay':
            with open(sys.argv[2]) as f:
                how = json.load(f)['record']['how']
            out = hlib.RecWriter(sys.argv[3])
            if how['mode'] == 'path':
                out.write(run_path(base, how['path'], how['kind'], 1))
            else:
                pt = how['point']
                out.write(run_scenario(base, how['name'], how['seed'], (pt['k'], pt['kind']) if pt else None, 1, pt))
            out.close()
        else:
            raise SystemExit(f'unknown mode {mode}')
    finally:
        shutil.rmtree(base, ignore_errors=True)


if __name__ == '__main__':
    main()
