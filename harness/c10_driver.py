"""C10 driver: lazily parsed BSP views, save(), re-read - on real files.  Modes:
  prepare <dir> <tier>                 build the test files (synthesised layouts x compression, variants,
                                       the repository's sample map), measure the BspLazy constants of each
                                       file by wrapping ParsedLump.__get__/__set__ and BSP._save_funcs
  run <dir> <job> <edges.json> <out.ndjson>
                                       execute TLC-selected access sequences on one (file, part) of the manifest
  replay <replay.json> <dir> <out.ndjson>
                                       rebuild the file of a replay record, run its access sequence again
"""
from __future__ import annotations

import json
import os
import random
import shutil
import sys
from collections import deque

from vlib import hlib

hlib.require_repo_src()
from vlib import bsplib as L  # noqa: E402
from vlib import bspsynth as S  # noqa: E402
from srctools.bsp import BSP  # noqa: E402

SAMPLE = os.path.join(os.path.dirname(os.environ.get('VERIF_SRC', '/repo/src').rstrip('/')) or '/repo',
                      'tests', 'test_vec', 'rot_main.bsp')
if not os.path.exists(SAMPLE):
    SAMPLE = '/repo/tests/test_vec/rot_main.bsp'


def file_specs(tier: str) -> list:
    specs = []
    for lay in S.LAYOUTS:
        for comp in (False, True):
            if comp and tier != 'thorough' and lay not in ('v20', 'l4d2', 'chaos', 'vitamin'):
                continue    # recompression costs 15 ms per lump: the other layouts' compressed twins run in the thorough tier
            specs.append({'id': f'{lay}{"c" if comp else ""}', 'layout': lay, 'compress': comp, 'variant': 'std', 'wseed': 0})
    # format variants a reader has to cope with: game lumps stored back to back (what the engine's
    # own tools write), no trailing directory entry, other static prop formats, no visibility
    specs.append({'id': 'v20nosep', 'layout': 'v20', 'compress': False, 'variant': 'nosep', 'wseed': 1})
    specs.append({'id': 'v21cnosep', 'layout': 'v21', 'compress': True, 'variant': 'nosep', 'wseed': 1})
    specs.append({'id': 'v19cnodummy', 'layout': 'v19', 'compress': True, 'variant': 'nodummy', 'wseed': 2})
    specs.append({'id': 'v20novis', 'layout': 'v20', 'compress': False, 'variant': 'novis', 'wseed': 3})
    # header version words that are no member of VERSIONS (BSP.version is Union[VERSIONS, int]: unknown numbers
    # only log a warning and have to be written back unchanged): upper 16 bits set, unknown small numbers
    specs.append({'id': 'verhi', 'layout': 'v20', 'compress': False, 'variant': 'ver:262164', 'wseed': 6})      # 0x00040014
    specs.append({'id': 'ver24', 'layout': 'v20', 'compress': True, 'variant': 'ver:24', 'wseed': 7})
    specs.append({'id': 'ver16', 'layout': 'v19', 'compress': False, 'variant': 'ver:16', 'wseed': 8})
    if tier == 'thorough':
        specs.append({'id': 'v20call', 'layout': 'v20', 'compress': 'all', 'variant': 'std', 'wseed': 5})
        for k, fmt in enumerate(sorted(S.SPRP)):
            lay = 'chaos' if 'CHAOS' in fmt else ('v20' if fmt != 'V11' else 'v21')
            specs.append({'id': f'sprp_{fmt}', 'layout': lay, 'compress': bool(k & 1), 'variant': 'sprp:' + fmt, 'wseed': 4 + k})
    specs.append({'id': 'sample', 'layout': 'sample', 'compress': False, 'variant': 'std', 'wseed': 0})
    for sp in specs:
        # 0.7 s per entity-lump parse of the sample; 15 ms per recompressed lump (the compression
        # dimension is orthogonal to the access history, so fewer histories per compressed file)
        sp['heavy'] = sp['layout'] == 'sample' or bool(sp['compress']) or sp['variant'].startswith('sprp:')
        sp['parts'] = 8 if sp['layout'] == 'sample' else (4 if tier == 'thorough' and not sp['heavy'] else (2 if sp['heavy'] else 1))
    return specs


def build_file(spec: dict, path: str) -> None:
    if spec['layout'] == 'sample':
        shutil.copyfile(SAMPLE, path)
        return
    var = spec['variant']
    sprp = var.split(':', 1)[1] if var.startswith('sprp:') else None
    w = S.make_world(spec['layout'], spec['wseed'], sprp=sprp)
    if var == 'novis':
        w['vis'] = None
    if var.startswith('ver:'):
        w['version_word'] = int(var[4:])
    data = S.build(w, compress=spec['compress'], game_sep=var != 'nosep', dummy_game_lump=var != 'nodummy')
    with open(path, 'wb') as f:
        f.write(data)
    # the reader must hand back, decompressed, exactly the lump bytes the independent encoder put in
    # (judged with every scenario of the file: clause prop.rawAsEncoded)
    spec['raw_mismatch'] = []
    try:
        bsp = BSP(path)
        exp = S.expected_raw(w)
        spec['raw_mismatch'] = sorted(name for name, data in exp.items() if bsp.lumps[L.BSP_LUMPS[name]].data != data)
        gl = {b'sprp': S._sprp_bytes(spec['layout'], w['sprp']), b'dprp': S._dprp_bytes(w['dprp'])}
        gl.update({g[0]: g[3] for g in w['other_game_lumps']})
        spec['raw_mismatch'] += sorted('game:' + k.decode() for k, data in gl.items()
                                       if k not in bsp.game_lumps or bsp.game_lumps[k].data != data)
    except Exception as exc:    # noqa: BLE001 - reported by the scenarios (stage 'open')
        spec['raw_mismatch'] = ['unreadable:' + type(exc).__name__]


def prepare(work: str, tier: str) -> None:
    tracer = L.Tracer().install()
    specs = file_specs(tier)
    groups: list = []
    for spec in specs:
        path = os.path.join(work, spec['id'] + '.bsp')
        build_file(spec, path)
        try:
            K = L.measure(path, tracer, work)
        except Exception as exc:    # noqa: BLE001 - the code under test cannot even read/save this file
            spec['measure_error'] = type(exc).__name__
            tracer.on = False
            tracer.stack.clear()
            tracer.take()
            K = L.stub_constants()
        key = json.dumps(K, sort_keys=True)
        for g in groups:
            if g['key'] == key:
                break
        else:
            g = {'key': key, 'K': K, 'files': [], 'name': f'K{len(groups)}', 'stub': 'measure_error' in spec}
            groups.append(g)
        g['files'].append(spec['id'])
        spec['group'] = g['name']
        spec['path'] = path
    tracer.uninstall()
    for g in groups:
        with open(os.path.join(work, g['name'] + '.json'), 'w') as f:
            json.dump(g['K'], f)
    with open(os.path.join(work, 'manifest.json'), 'w') as f:
        json.dump({'files': specs, 'groups': [{'name': g['name'], 'files': g['files'], 'stub': g['stub']} for g in groups]}, f)
    print(json.dumps({'files': len(specs), 'groups': {g['name']: g['files'] for g in groups}}))


# ------------------------------------------------------------------ one scenario on one file
class FileCtx:
    def __init__(self, spec: dict, work: str) -> None:
        self.spec = spec
        self.path = spec['path']
        try:
            self.ref = L.project_file(self.path)
            self.trivial = sorted(v for v in L.PROJECT_ORDER if L.is_trivial(self.ref['views'][v]))
        except Exception:   # noqa: BLE001 - reported by the first scenario (stage 'open')
            self.ref = {'head': {}, 'meta': {}, 'raw': {}, 'views': {v: None for v in L.PROJECT_ORDER}, 'errors': {}}
            self.trivial = []
        self.tmp = os.path.join(work, f'tmp_{spec["id"]}_{os.getpid()}')
        with open(self.path, 'rb') as f:
            self.indep = S.decode_file(f.read())    # the input as the FILE states it, decoded without srctools


def indep_diff(a: dict, b: dict) -> tuple[list, list]:
    """Header differences between two independently decoded files ([what, item] pairs) and the lumps /
    game lumps whose decompressed bytes differ."""
    head = [[k, ''] for k in ('magic', 'version', 'revision', 'l4d2') if a[k] != b[k]]
    changed = []
    for name, la in a['lumps'].items():
        lb = b['lumps'][name]
        if name == 'GAME_LUMP':
            continue        # the directory holds file offsets; its entries are compared below
        if la['ver'] != lb['ver']:
            head.append(['lumpVersion', name])
        if la['comp'] != lb['comp']:
            head.append(['lumpCompressed', name])
        if la['data'] != lb['data']:
            changed.append(name)
    if [g['id'] for g in a['game']] != [g['id'] for g in b['game']]:
        head.append(['gameLumpList', ''])
    gb = {g['id']: g for g in b['game']}
    for g in a['game']:
        h = gb.get(g['id'])
        if h is None:
            continue
        if g['flags'] != h['flags']:
            head.append(['gameFlags', 'game:' + g['id']])
        if g['ver'] != h['ver']:
            head.append(['gameVersion', 'game:' + g['id']])
        if g['data'] != h['data']:
            changed.append('game:' + g['id'])
    return head, changed


def run_scenario(ctx: FileCtx, acc: list, tracer: L.Tracer, src: str, full: bool = True) -> dict:
    """full=False (expensive files): the extra cycles (same object saved again, second access/save cycle) are skipped;
    the main cycle and the re-save of the result are always run.  An exception of the code under test ends the
    scenario; the stage and the exception type are logged ('failed') and judged like any other observation."""
    p1, p2, p3, p4 = (ctx.tmp + s for s in ('.1.bsp', '.2.bsp', '.3.bsp', '.4.bsp'))
    spec = ctx.spec
    rec = {
        'k': 'run', 'file': spec['id'], 'acc': acc, 'cacheAfterAccess': [], 'ev': [], 'cacheAfterSave': [],
        'changed': [], 'viewDiff': [], 'headDiff': [], 'metaDiff': [], 'trivial': ctx.trivial, 'resave': 'same',
        'saveAgain': 'same', 'cycle2': [], 'errors': {}, 'cycles': 'full' if full else 'main', 'failed': [],
        'rawMismatch': spec.get('raw_mismatch', []), 'indepHead': [], 'indepChanged': [],
        'sig': {'kind': 'run', 'action': 'save', 'layout': spec['layout'], 'compress': spec['compress'],
                'variant': spec['variant'], 'src': src},
        'spec': {k: spec[k] for k in ('id', 'layout', 'compress', 'variant', 'wseed', 'heavy')},
    }
    stage = 'open'
    try:
        bsp = BSP(ctx.path)
        stage = 'access'
        with tracer.recording():
            for v in acc:
                getattr(bsp, v)
        tracer.take()
        rec['cacheAfterAccess'] = L.cache_of(bsp)
        stage = 'save'
        try:
            with tracer.recording():
                L.quiet_save(bsp, p1)
        finally:
            for e in tracer.take():
                if e[0] == 'get':
                    rec['ev'].append(['get', e[1], 'hit' if e[2] else 'miss'])
                elif e[0] == 'write':
                    rec['ev'].append(['write', e[1], e[2]])
                else:
                    rec['ev'].append([e[0], e[1], ''])
        rec['cacheAfterSave'] = L.cache_of(bsp)
        with open(p1, 'rb') as f:
            bytes1 = f.read()
        if full:
            stage = 'saveAgain'     # the same object saved once more: same bytes?
            L.quiet_save(bsp, p2)
            with open(p2, 'rb') as f:
                rec['saveAgain'] = 'same' if f.read() == bytes1 else 'diff'
        stage = 'decode'        # the written file against the INPUT, both decoded without srctools
        rec['indepHead'], rec['indepChanged'] = indep_diff(ctx.indep, S.decode_file(bytes1))
        stage = 'reread'
        new = L.project_file(p1)
        cmp1 = L.compare_files(ctx.ref, new)
        rec.update(changed=cmp1['changed'], viewDiff=cmp1['viewDiff'], headDiff=cmp1['headDiff'], metaDiff=cmp1['metaDiff'],
                   errors=new['errors'])
        stage = 'resave'            # saving the result again (fresh object, nothing accessed) changes nothing
        b3 = BSP(p1)
        L.quiet_save(b3, p3)
        with open(p3, 'rb') as f:
            rec['resave'] = 'same' if f.read() == bytes1 else 'diff'
        if full:
            stage = 'cycle2'        # second cycle with the same accesses on the written file
            b4 = BSP(p1)
            for v in acc:
                getattr(b4, v)
            L.quiet_save(b4, p4)
            cmp2 = L.compare_files(ctx.ref, L.project_file(p4))
            rec['cycle2'] = [d for d in cmp2['viewDiff'] if d not in cmp1['viewDiff']] + [[h, 'head'] for h in cmp2['headDiff']]
    except Exception as exc:    # noqa: BLE001 - whatever the code under test raises is an observation
        rec['failed'] = [stage, type(exc).__name__]
        rec['sig']['failed'] = stage
        tracer.on = False
        tracer.stack.clear()
        tracer.take()
    for p in (p1, p2, p3, p4):
        if os.path.exists(p):
            os.unlink(p)
    return rec


def sequences(edges: list, tier: str, rng: random.Random, heavy: bool, every_state: bool = True) -> list:
    """Access sequences selected from TLC's transition graph of the user phase: every single access,
    every ordered pair TLC generated, the shortest path to every distinct cache state (all of them in
    the thorough tier, a seeded sample otherwise), and seeded walks through the graph."""
    key = lambda s: json.dumps(sorted(s))
    succ: dict = {}
    for e in edges:
        succ.setdefault(key(e['s']), []).append((e['a']['v'], key(e['t'])))
    init = key([])
    seqs = [([], 'none')]
    for v, t in succ[init]:
        seqs.append(([v], 'single'))
    pairs = [[v, w] for v, t in succ[init] for w, _ in succ.get(t, ())]
    if heavy:
        pairs = rng.sample(pairs, min(len(pairs), 40 if tier == 'thorough' else 8))
    elif tier != 'thorough':
        pairs = rng.sample(pairs, min(len(pairs), 60))
    seqs += [(p, 'pair') for p in pairs]
    # BFS: shortest access sequence into every distinct cache state
    paths = {init: []}
    todo = deque([init])
    while todo:
        s = todo.popleft()
        for v, t in succ.get(s, ()):
            if t not in paths:
                paths[t] = paths[s] + [v]
                todo.append(t)
    deep = [p for p in paths.values() if len(p) > 2]
    if tier == 'thorough' and not heavy:
        n_deep = len(deep) if every_state else 1200
    else:
        n_deep = (40 if tier == 'thorough' else 4) if heavy else 40
    deep = deep if n_deep >= len(deep) else rng.sample(deep, n_deep)
    seqs += [(p, 'state') for p in deep]
    # walks: random orders, with repeated requests of views already cached
    for _ in range(2 if heavy else (60 if tier == 'thorough' else 12)):
        s = init
        walk = []
        for _ in range(rng.randint(3, 9)):
            if not succ.get(s):
                break
            v, t = rng.choice(succ[s])
            walk.append(v)
            if rng.random() < 0.3:
                walk.append(rng.choice(walk))
            s = t
        seqs.append((walk, 'walk'))
    return seqs, len(paths)


def run(work: str, job: int, edge_file: str, out_path: str) -> None:
    """job indexes the list of (file, part) pairs of the manifest."""
    with open(os.path.join(work, 'manifest.json')) as f:
        man = json.load(f)
    with open(edge_file) as f:
        edges = json.load(f)
    tier = hlib.tier()
    jobs = [(spec, part) for spec in man['files'] for part in range(spec['parts'])]
    spec, part = jobs[job]
    tracer = L.Tracer().install()
    out = hlib.RecWriter(out_path)
    rng = random.Random(f'{hlib.seed()}/{spec["id"]}')
    # every distinct cache state on one file per code path (standard structs, L4D2 header, Chaos structs,
    # VitaminSource); a seeded sample of 1200 states on the other layouts and variants
    seqs, n_states = sequences(edges, tier, rng, spec['heavy'], spec['id'] in ('v20', 'l4d2', 'chaos', 'vitamin'))
    ctx = FileCtx(spec, work)
    import time
    t0 = time.time()
    stats = {'scenarios': 0, 'file': spec['id'], 'part': part, 'states': n_states}
    for n, (acc, src) in enumerate(seqs):
        if n % spec['parts'] != part:
            continue
        rec = run_scenario(ctx, acc, tracer, src, full=not spec['heavy'])
        rec['group'] = spec['group']
        out.write(rec)
        stats['scenarios'] += 1
    out.close()
    tracer.uninstall()
    stats['wall_s'] = round(time.time() - t0, 1)
    print(json.dumps(stats))


def replay(replay_path: str, work: str, out_path: str) -> None:
    with open(replay_path) as f:
        rp = json.load(f)
    rec = rp['record']
    spec = dict(rec['spec'])
    spec['path'] = os.path.join(work, spec['id'] + '.bsp')
    spec.setdefault('heavy', False)
    build_file(spec, spec['path'])
    tracer = L.Tracer().install()
    K = L.measure(spec['path'], tracer, work)
    with open(os.path.join(work, 'K.json'), 'w') as f:
        json.dump(K, f)
    ctx = FileCtx(spec, work)
    out = hlib.RecWriter(out_path)
    new = run_scenario(ctx, rec['acc'], tracer, 'replay', full=not spec['heavy'])
    out.write(new)
    out.close()
    print(json.dumps({'records': 1}))


def main() -> None:
    mode = sys.argv[1]
    if mode == 'prepare':
        prepare(sys.argv[2], sys.argv[3])
    elif mode == 'run':
        run(sys.argv[2], int(sys.argv[3]), sys.argv[4], sys.argv[5])
    elif mode == 'replay':
        replay(sys.argv[2], sys.argv[3], sys.argv[4])
    else:
        raise SystemExit(2)


if __name__ == '__main__':
    main()
