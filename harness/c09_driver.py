"""C09 driver: builds real map objects (Entity / Solid / Side / Output / VisGroup / Keyvalues) with
every optional block present or absent, copies them, walks the REAL heap of original and copy
(attributes, slots, containers), mutates one side and logs everything TLC (AliasTrace) needs:

  k=copy    walk of original and copy (path, type, value), mutable cells shared between the two (by
            access path), flattened export text of both
  k=mutate  export + walk of both sides before and after one in-place mutation of one side
  k=binop   walk of the operands before/after an operator documented as producing a new value,
            walk of the result, cells the result shares with an operand

Modes:
  edges <edges.json> <out> <part> <nparts>   every TLC-enumerated (class, blocks, copy target, cell path /
                                             method, side) case and operator row
  cells <cases.json> <out> <part> <nparts>   every mutable cell of the REAL heap of each case (beyond the model's
                                             two-element lists), copies made by collapse_one
  random <cases.json> <out> <ops.json>       seeded multi-step mutation sequences; operators with other values
  replay <replay.json> <out>
"""
from __future__ import annotations

import enum
import io
import json
import random
import re
import sys
import warnings
from array import array

from vlib import hlib

hlib.require_repo_src()
from srctools.keyvalues import Keyvalues  # noqa: E402
from srctools.math import Angle, FrozenAngle, FrozenMatrix, FrozenVec, Matrix, Vec  # noqa: E402
import srctools.vmf as vmf_mod  # noqa: E402
from srctools.vmf import (  # noqa: E402
    VMF, Camera, Cordon, DispFlag, Entity, EntityFixup, EntityGroup, FixupValue, Output, Side, Solid, TriangleTag, UVAxis,
    Vec4, VisGroup,
)

warnings.simplefilter('ignore', DeprecationWarning)

IMMUTABLE = (str, int, float, bool, type(None), enum.Enum, Vec4, FrozenVec, FrozenAngle, FrozenMatrix, re.Pattern,
             frozenset, bytes)
LEAF_CELLS = (Vec, Angle, Matrix)


# ---------------------------------------------------------------------------- heap walk
def fields_of(obj) -> list[str]:
    names: list[str] = []
    for klass in type(obj).__mro__:
        sl = klass.__dict__.get('__slots__', ())
        if isinstance(sl, str):
            sl = (sl,)
        for s in sl:
            if s not in ('__weakref__', '__dict__') and s not in names:
                names.append(s)
    if hasattr(obj, '__dict__'):
        for s in vars(obj):
            if s not in names:
                names.append(s)
    return names


def scalar_text(v) -> str:
    if isinstance(v, float):
        return repr(v)
    if isinstance(v, enum.Enum):
        return f'{type(v).__name__}.{v.name}'
    if isinstance(v, (Vec4, FrozenVec, FrozenAngle, FrozenMatrix)):
        return repr(v)
    if isinstance(v, re.Pattern):
        return 're:' + v.pattern
    return repr(v)


def walk(root) -> tuple[list, dict]:
    """-> (entries [path, type, value], {id(mutable object): path}).  VMF objects are the context the
    object lives in, not part of it: recorded as a leaf without identity."""
    entries: list = []
    cells: dict = {}

    def rec(obj, path: list) -> None:
        if isinstance(obj, VMF):
            entries.append([path, 'VMF', ''])
            return
        if isinstance(obj, IMMUTABLE):
            entries.append([path, 'scalar', scalar_text(obj)])
            return
        if isinstance(obj, tuple):
            entries.append([path, 'tuple', str(len(obj))])
            for i, x in enumerate(obj):
                rec(x, path + [str(i)])
            return
        if id(obj) in cells:      # a second path to the same cell inside one object
            entries.append([path, 'again', cells[id(obj)]])
            return
        cells[id(obj)] = path
        if isinstance(obj, LEAF_CELLS):
            entries.append([path, type(obj).__name__, repr(obj)])
        elif isinstance(obj, array):
            entries.append([path, 'Array', ' '.join(map(str, obj))])
        elif isinstance(obj, (set,)):
            entries.append([path, 'set', ' '.join(sorted(map(repr, obj)))])
        elif isinstance(obj, list):
            entries.append([path, 'list', str(len(obj))])
            for i, x in enumerate(obj):
                rec(x, path + [str(i)])
        elif isinstance(obj, dict):
            keys = sorted(obj, key=repr)
            entries.append([path, 'dict', ' '.join(map(repr, keys))])
            for i, k in enumerate(keys):
                rec(obj[k], path + [str(i)])
        else:
            entries.append([path, type(obj).__name__, ''])
            for f in fields_of(obj):
                try:
                    v = getattr(obj, f)
                except AttributeError:
                    entries.append([path + [f], 'unset', ''])
                    continue
                rec(v, path + [f])
    rec(root, ['$'])
    return entries, cells


def shared_cells(a_cells: dict, b_cells: dict) -> list:
    return sorted([p, b_cells[i]] for i, p in a_cells.items() if i in b_cells)


def resolve(root, path: list):
    """Object at a walk path."""
    obj = root
    for part in path[1:]:
        if isinstance(obj, (list, tuple)):
            obj = obj[int(part)]
        elif isinstance(obj, dict):
            obj = obj[sorted(obj, key=repr)[int(part)]]
        else:
            obj = getattr(obj, part)
    return obj


# ---------------------------------------------------------------------------- export text
def export_text(obj, multiblend: bool = True) -> str:
    buf = io.StringIO()
    if isinstance(obj, Keyvalues):
        return obj.serialise()
    if isinstance(obj, Output):
        buf.write('connections\n{\n')
        obj.export(buf, '\t')
        buf.write('}\n')
    elif isinstance(obj, Side):
        obj.export(buf, '', multiblend)
    elif isinstance(obj, Solid):
        obj.export(buf, '', multiblend)
    elif isinstance(obj, Entity):
        obj.export(buf, '', multiblend)
    elif isinstance(obj, (VisGroup, EntityGroup, Camera, Cordon)):
        obj.export(buf, '')
    elif isinstance(obj, EntityFixup):
        buf.write('fixups\n{\n')
        obj.export(buf, '')
        buf.write('}\n')
    elif isinstance(obj, UVAxis):
        buf.write(f'"uaxis" "{obj}"\n')
    else:
        raise TypeError(type(obj))
    return buf.getvalue()


def flat_export(obj) -> list:
    """Export text re-read as a key/value tree and flattened: [key path, key, value]; the key path
    alternates key names and the occurrence number among equally named siblings."""
    try:
        text = export_text(obj)
        tree = Keyvalues.parse(text)
    except Exception as exc:
        return [[['!'], 'export-raised', type(exc).__name__]]
    out: list = []

    def rec(kv, path: list) -> None:
        seen: dict = {}
        for ch in kv:
            n = seen.get(ch.name, 0)
            seen[ch.name] = n + 1
            p = path + [ch.real_name, str(n)]
            if ch.has_children():
                out.append([p, ch.real_name, '{'])
                rec(ch, p)
            else:
                out.append([p, ch.real_name, ch.value])
    rec(tree, [])
    return out


# ---------------------------------------------------------------------------- generators
def make_side(vmf: VMF, o: dict, k: int = 0) -> Side:
    side = Side(vmf, [Vec(k, 0, 0), Vec(k + 64, 0, 0), Vec(k + 64, 64, 0)], mat=f'brick/wall{k}', rotation=15.0,
                lightmap=32, smoothing=3, uaxis=UVAxis(1, 0, 0, 8.0, 0.5), vaxis=UVAxis(0, -1, 0, -4.0, 0.25),
                disp_power=1 if o.get('disp') else 0)
    if o.get('disp'):
        side.disp_pos = Vec(k, 1, 2)
        side.disp_elevation = 2.5
        side.disp_flags = DispFlag.COLL_PHYSICS | DispFlag.SUBDIV
        side.disp_allowed_vert = array('i', [3, -1, 7, -1, -1, 5, -1, -1, -1, 9])
        for y in range(3):
            for x in range(3):
                v = side[x, y]
                n = 3 * y + x + 1
                v.normal = Vec(0, 0, 1) if n % 2 else Vec(0, 1, 0)
                v.distance = float(n)
                v.offset = Vec(n, 0, 0)
                v.offset_norm = Vec(0, 0, 1)
                v.alpha = 10.0 * n
                v.triangle_a = TriangleTag.WALKABLE
                v.triangle_b = TriangleTag.BUILDABLE | TriangleTag.WALKABLE
                if o.get('multi'):
                    v.multi_blend = Vec4(0.25, 0.5, 0.125 * n, 1.0)
                    v.multi_alpha = Vec4(1.0, 0.5, 0.25, 0.125)
                    v.multi_colors = [Vec(1, 0, 0), Vec(0, 1, 0), Vec(0, 0, 1), Vec(0.5, 0.5, n)]
    if o.get('strata'):
        side.strata_points = [Vec(k, 0, 0), Vec(k + 64, 0, 0), Vec(k + 64, 64, 0), Vec(k, 64, 0)]
    return side


def make_solid(vmf: VMF, o: dict) -> Solid:
    so = {'disp': o.get('disp'), 'multi': o.get('multi')}
    sides = [make_side(vmf, so, 0), make_side(vmf, so, 128)]
    return Solid(vmf, -1, sides, visgroup_ids={2, 5} if o.get('vis') else (), hidden=bool(o.get('hidden')),
                 group_id=7 if o.get('group') else None, vis_shown=not o.get('hidden'), vis_auto_shown=True,
                 is_cordon=bool(o.get('cordon')), editor_color=Vec(0, 180, 90))


def make_output(o: dict, k: int = 0) -> Output:
    if o.get('inst'):
        # fire counts other than Hammer's -1 / 1 are legal (parse, combine and repr handle them):
        # generic values, so that a copy which only keeps "once or not" shows
        return Output('OnTrigger', f'inst{k}', 'FireUser1', 'par am', 0.5, times=(1, 5, 0)[k % 3], inst_out='rl_out',
                      inst_in='rl_in', comma_sep=bool(o.get('comma')))
    return Output(f'OnUser{k + 1}', f'target{k}', 'Trigger', '', 1.25, times=(3, -1, 0, 2)[k % 4], comma_sep=bool(o.get('comma')))


def make_entity(vmf: VMF, o: dict) -> Entity:
    bo = {'disp': o.get('disp'), 'multi': o.get('multi'), 'vis': o.get('vis'), 'hidden': o.get('hidden')}
    ent = Entity(
        vmf, keys={'classname': 'func_brush' if o.get('brush') else 'info_target', 'targetname': 'Thing', 'origin': '1 2 3',
                   'angles': '0 90 0'},
        fixup=[FixupValue('var', 'val', 1), FixupValue('Other', '2', 2)] if o.get('fix') else (),
        outputs=[make_output({'inst': True}, 0), make_output({'comma': True}, 1)] if o.get('outs') else (),
        solids=[make_solid(vmf, bo), make_solid(vmf, bo)] if o.get('brush') else (),
        hidden=bool(o.get('hidden')), groups={4} if o.get('group') else (), vis_ids={2, 3} if o.get('vis') else (),
        vis_shown=not o.get('hidden'), editor_color=Vec(220, 30, 220), comments='a "comment"' if o.get('vis') else '',
    )
    return ent


def make_visgroup(vmf: VMF, o: dict) -> VisGroup:
    def kids(depth: int, tag: str) -> list:
        if not o.get('kids') or depth == 0:
            return []
        return [VisGroup(vmf, f'{tag}{i}', -1, Vec(depth, i, 3), kids(depth - 1, f'{tag}{i}_')) for i in range(2)]
    return VisGroup(vmf, 'Group "A"', -1, Vec(10, 20, 30), kids(2, 'kid'))


def make_kv(o: dict) -> Keyvalues:
    if o.get('leaf'):
        return Keyvalues('Name', 'Value')
    second = Keyvalues('Block', [Keyvalues('Inner', 'i1'), Keyvalues('inner', 'i2')]) if o.get('nested') else Keyvalues('key', 'v2')
    kids = [Keyvalues('Key', 'v1'), second]
    if o.get('root'):
        return Keyvalues.root(*kids)
    return Keyvalues('Top', kids)


def build(cls: str, o: dict, vmf: VMF):
    if cls == 'Side':
        return make_side(vmf, o)
    if cls == 'Solid':
        return make_solid(vmf, o)
    if cls == 'Entity':
        return make_entity(vmf, o)
    if cls == 'Output':
        return make_output(o)
    if cls == 'VisGroup':
        return make_visgroup(vmf, o)
    if cls == 'Keyvalues':
        return make_kv(o)
    if cls in SIMPLE_PROBES:
        return SIMPLE_PROBES[cls](vmf)
    raise SystemExit(f'MACHINERY: no probe object for class {cls}')


# probe objects of the classes without optional blocks
SIMPLE_PROBES = {
    'EntityGroup': lambda vmf: EntityGroup(vmf, -1, False, True, Vec(220, 30, 220)),
    'Camera': lambda vmf: Camera(vmf, Vec(1, 2, 3), Vec(64, 5, 6)),
    'Cordon': lambda vmf: Cordon(vmf, Vec(-64, -64, -32), Vec(64, 128, 256), True, 'cord "A"'),
    'UVAxis': lambda vmf: UVAxis(0.6, 0.0, -0.8, 8.0, 0.5),
    'EntityFixup': lambda vmf: EntityFixup([FixupValue('var', 'val', 1), FixupValue('Other', '2', 2)]),
}
PROBED = {'Side', 'Solid', 'Entity', 'Output', 'VisGroup', 'Keyvalues'} | set(SIMPLE_PROBES)


def copyable_classes() -> dict:
    """Reflective inventory: every class defined in srctools.vmf (plus Keyvalues) that defines copy(),
    __copy__() or __deepcopy__() itself, with the fields its definition declares (attrs fields,
    __slots__, or the attributes its __init__ assigns)."""
    import inspect
    found = {}
    for name, klass in [('Keyvalues', Keyvalues)] + inspect.getmembers(vmf_mod, inspect.isclass):
        if klass is not Keyvalues and klass.__module__ != vmf_mod.__name__:
            continue
        how = [m for m in ('copy', '__copy__', '__deepcopy__') if m in vars(klass)]
        if not how:
            continue
        if hasattr(klass, '__attrs_attrs__'):
            fields = [a.name for a in klass.__attrs_attrs__]
        elif '__slots__' in vars(klass):
            fields = [f for f in vars(klass)['__slots__'] if f != '__weakref__']
        else:
            fields = sorted(set(re.findall(r'self\.(\w+)\s*(?::[^=\n]+)?=[^=]', inspect.getsource(klass.__init__))))
        found[name] = {'how': how, 'fields': sorted(fields)}
    return found


def do_copy(cls: str, obj, how: str, other: VMF):
    """how: 'same' (copy inside its map), 'other' (into another map), 'copy' / 'deepcopy' (copy module)."""
    if how in ('copy', 'deepcopy'):
        import copy
        return getattr(copy, how)(obj)
    if cls in ('Output', 'Keyvalues', 'Camera', 'Cordon', 'UVAxis'):
        return obj.copy()
    if cls in ('VisGroup', 'EntityGroup'):
        return obj.copy(other) if how == 'other' else obj.copy()
    return obj.copy(vmf_file=other) if how == 'other' else obj.copy()


# ---------------------------------------------------------------------------- mutations
def mutate_cell(obj) -> str:
    """In-place mutation of one heap cell, chosen by its type -> description."""
    if isinstance(obj, Vec):
        obj += Vec(1, 2, 4)
        return 'Vec +='
    if isinstance(obj, Angle):
        obj.yaw += 45
        return 'Angle.yaw'
    if isinstance(obj, array):
        obj[0] = obj[0] + 11
        return 'Array[0]'
    if isinstance(obj, set):
        obj.add(99)
        return 'set.add'
    if isinstance(obj, list):
        if len(obj) >= 2:
            obj[0], obj[1] = obj[1], obj[0]
            return 'list swap'
        if obj:
            obj.append(obj[0])
            return 'list append'
        return 'nothing'
    if isinstance(obj, dict):
        k = sorted(obj, key=repr)[0] if obj else 'zz'
        if obj and isinstance(obj[k], str):
            obj[k] = obj[k] + '_edited'
            return 'dict value'
        obj.pop(k, None)
        return 'dict pop'
    if isinstance(obj, EntityFixup):
        obj['added_var'] = 'av'
        return 'fixup add'
    # a plain object: change its first scalar attribute that is not an ID
    for f in fields_of(obj):
        if f in ('id', 'map', 'vmf', '_folded_name', '_matcher'):
            continue
        v = getattr(obj, f, None)
        if isinstance(v, bool):
            setattr(obj, f, not v)
        elif isinstance(v, int):
            setattr(obj, f, v + 1)
        elif isinstance(v, float):
            setattr(obj, f, v + 1.5)
        elif isinstance(v, str):
            setattr(obj, f, v + '_edited')
        else:
            continue
        return f'attr {f}'
    return 'nothing'


def method_mutation(cls: str, obj, meth: str) -> None:
    if meth == 'translate':
        if cls == 'Entity':
            for s in obj.solids:
                s.translate(Vec(16, -32, 8))
        else:
            obj.translate(Vec(16, -32, 8))
    elif meth == 'localise':
        if cls == 'Entity':
            for s in obj.solids:
                s.localise(Vec(5, 6, 7), Angle(0, 90, 0))
        else:
            obj.localise(Vec(5, 6, 7), Angle(0, 90, 0))
    elif meth == 'key_edit':
        if cls == 'Keyvalues':
            if obj.has_children():
                obj['Key'] = 'changed'
                obj.append(Keyvalues('extra', 'e'))
            else:
                obj.value = 'changed'
        else:
            obj['origin'] = '9 9 9'
            obj['newkey'] = 'nv'
            del obj['angles']
    elif meth == 'fixup_edit':
        fix = obj if cls == 'EntityFixup' else obj.fixup
        fix['$var'] = 'edited'
        fix['third'] = '3'
    elif meth == 'vertex_edit':
        side = obj if cls == 'Side' else (obj.sides[0] if cls == 'Solid' else obj.solids[0].sides[0])
        v = side[1, 1]
        v.alpha = 77.0
        v.distance = 5.5
        v.normal.z = -1.0
        v.offset @= Matrix.from_yaw(90)
        if v.multi_colors is not None:
            v.multi_colors[0] *= 0.5
        side.disp_allowed_vert[1] = 42
    elif meth == 'out_edit':
        out = obj if cls == 'Output' else obj.outputs[0]
        out.target = 'elsewhere'
        out.delay += 2
    elif meth == 'vis_edit':
        if cls == 'VisGroup':
            obj.name = 'renamed'
            obj.color.x = 200
            if obj.child_groups:
                obj.child_groups[0].color *= 2
                obj.child_groups.pop()
        elif cls == 'EntityGroup':
            obj.shown = not obj.shown
            obj.color *= 0.5
        else:
            obj.visgroup_ids.add(77)
            obj.hidden = not obj.hidden
    else:
        raise ValueError(meth)


# ---------------------------------------------------------------------------- records
import hashlib  # noqa: E402


def digest(x) -> str:
    return hashlib.sha1(json.dumps(x, sort_keys=True).encode()).hexdigest()[:16]


def opts_dict(opts) -> dict:
    return {k: 1 for k in opts}


def norm(path: list) -> str:
    return '.'.join('N' if p.isdigit() else p for p in path)


class Case:
    """One object of a class with given blocks, and its copy."""
    def __init__(self, cls: str, opts: list, how: str) -> None:
        self.cls, self.opts, self.how = cls, sorted(opts), how
        self.m1, self.m2 = VMF(), VMF()
        self.file = None
        o = opts_dict(opts)
        if how == 'collapse':
            self.obj, self.cp = self.collapse(o)
        else:
            self.obj = build(cls, o, self.m1)
            self.cp = do_copy(cls, self.obj, how, self.m2)

    def collapse(self, o: dict):
        """The object sits in an instance file; collapse_one() copies it into another map."""
        from srctools.instancing import Instance, InstanceFile, collapse_one
        src = self.m1
        for vid in (2, 3, 5):        # the visgroups the generated objects are members of
            src.vis_tree.append(VisGroup(src, f'vis{vid}', vid, Vec(vid, vid, vid)))
        if self.cls == 'Solid':
            o = {k: v for k, v in o.items() if k != 'hidden'}     # collapse_one leaves hidden world brushes out
        obj = build(self.cls, o, src)
        if self.cls == 'Entity':
            src.add_ent(obj)
        else:
            src.add_brush(obj)
        self.file = InstanceFile(src)
        tgt = self.m2
        inst_ent = tgt.create_ent('func_instance', targetname='inst', origin='128 0 64', angles='0 90 0', file='x.vmf')
        inst = Instance.from_entity(inst_ent)
        self.src_before = map_text(src)
        collapse_one(tgt, inst, self.file, visgroup=True)
        cp = tgt.entities[-1] if self.cls == 'Entity' else tgt.brushes[-1]
        return obj, cp

    def base(self) -> dict:
        return {'cls': self.cls, 'opts': self.opts, 'how': self.how}

    def sig(self, src: str) -> dict:
        return {'kind': self.cls, 'src': src, 'how': self.how, 'opts': '+'.join(self.opts) or 'plain'}


def map_text(vmf: VMF) -> list:
    buf = io.StringIO()
    vmf.export(buf, inc_version=False)
    out = []

    def rec(kv, path):
        seen = {}
        for ch in kv:
            n = seen.get(ch.name, 0)
            seen[ch.name] = n + 1
            p = path + [ch.real_name, str(n)]
            if ch.has_children():
                out.append([p, ch.real_name, '{'])
                rec(ch, p)
            else:
                out.append([p, ch.real_name, ch.value])
    rec(Keyvalues.parse(buf.getvalue()), [])
    return out


def copy_record(c: Case, out: hlib.RecWriter, src: str, stats: dict) -> None:
    ow, oc = walk(c.obj)
    cw, cc = walk(c.cp)
    sh = shared_cells(oc, cc)
    out.write({'k': 'copy', **c.base(), 'shared': sh, 'owalk': ow, 'cwalk': cw,
               'oexp': flat_export(c.obj), 'cexp': flat_export(c.cp), 'sig': {**c.sig(src), 'action': 'copy'}})
    stats['copies'] = stats.get('copies', 0) + 1
    if c.how == 'collapse':
        # collapsing is an operation on the instance file that must leave it as it was
        after = map_text(c.m1)
        out.write({'k': 'binop', 'f': 'collapse_one', 'lt': c.cls, 'rt': 'VMF', 'a_before': c.src_before, 'a_after': after,
                   'b_before': [], 'b_after': [], 'shared': [], 'res': [], 'a_flat': [], 'b_flat': [], 'exc': '',
                   **{'sig': {**c.sig(src), 'action': 'collapse_one'}}})


def apply_mut(c: Case, mut: dict) -> tuple:
    tgt = c.cp if mut['side'] == 'c' else c.obj
    try:
        if mut['op'] == 'cell':
            try:
                cell = resolve(tgt, mut['path'])
                if isinstance(cell, IMMUTABLE):
                    raise LookupError
            except (AttributeError, LookupError, TypeError, ValueError):
                return '', 'NoSuchCell'
            return mutate_cell(cell), ''
        method_mutation(c.cls, tgt, mut['meth'])
        return mut['meth'], ''
    except Exception as e:    # the record carries it; TLC reports mutate.raised
        return '', type(e).__name__


def mutate_record(c: Case, muts: list, out: hlib.RecWriter, src: str, stats: dict) -> None:
    """Apply in-place mutations (all on the same side) one after the other; one record per mutation
    with what both sides look like before and after it."""
    side = muts[0]['side']
    other = c.obj if side == 'c' else c.cp
    ok = 'o' if side == 'c' else 'c'
    wb = {'o': walk(c.obj)[0], 'c': walk(c.cp)[0]}
    other_exp_before = flat_export(other)
    done: list = []
    for n, m in enumerate(muts):
        what, exc = apply_mut(c, m)
        if n and exc == 'NoSuchCell':
            continue        # an earlier mutation of the sequence removed that cell
        wa = {'o': walk(c.obj)[0], 'c': walk(c.cp)[0]}
        other_exp_after = flat_export(other)
        before = {tuple(e[0]): e for e in wb[ok]}
        delta = [e for e in wa[ok] if before.get(tuple(e[0])) != e][:4]
        eb = {tuple(e[0]): e for e in other_exp_before}
        edelta = [e for e in other_exp_after if eb.get(tuple(e[0])) != e][:4]
        out.write({'k': 'mutate', **c.base(), 'mut': m, 'earlier': list(done), 'what': what, 'exc': exc,
                   'ed': [digest(other_exp_before), digest(other_exp_after)], 'edelta': edelta,
                   'wd': {'o': [digest(wb['o']), digest(wa['o'])], 'c': [digest(wb['c']), digest(wa['c'])]},
                   'delta': delta,
                   'sig': {**c.sig(src), 'action': m['op'] if m['op'] == 'cell' else m['meth'], 'side': side,
                           'path': norm(m['path']) if m['op'] == 'cell' else m['meth']}})
        stats['mutations'] = stats.get('mutations', 0) + 1
        done.append(m)
        wb, other_exp_before = wa, other_exp_after


# ---------------------------------------------------------------------------- operators
def operand(t: str, rng: random.Random, k: int):
    a, b, c = (rng.choice([0, 90, 180, 270]) for _ in range(3))
    x, y, z = (float(rng.randint(-64, 64)) + k for _ in range(3))
    if t == 'Vec':
        return Vec(x, y, z)
    if t == 'FrozenVec':
        return FrozenVec(x, y, z)
    if t == 'tuple':
        return (x, y, z)
    if t == 'float':
        return float(rng.choice([2, 3, 0.5, -4]))
    if t == 'Angle':
        return Angle(a, b, c)
    if t == 'FrozenAngle':
        return FrozenAngle(a, b, c)
    if t == 'Matrix':
        return Matrix.from_angle(a, b, c)
    if t == 'FrozenMatrix':
        return FrozenMatrix.from_angle(a, b, c)
    if t == 'Keyvalues':
        return Keyvalues(f'Blk{k}', [Keyvalues(f'k{k}', str(x)), Keyvalues('Sub', [Keyvalues('deep', str(y))])])
    if t == 'KVRoot':
        return Keyvalues.root(Keyvalues(f'r{k}', str(x)), Keyvalues('Sub', [Keyvalues('deep', str(y))]))
    if t == 'list':
        return [Keyvalues(f'item{k}', str(z)), Keyvalues('blk', [Keyvalues('in', '1')])]
    if t == '':
        return None
    raise ValueError(t)


def value_walk(v) -> list:
    """Operands are values, frozen or not: their content by repr, plus the heap walk if mutable."""
    if isinstance(v, (Keyvalues, list)):
        return walk(v)[0]
    return [[['$'], type(v).__name__, repr(v)]]


def kv_flat(v) -> list:
    """Children of a Keyvalues block / items of a list as a preorder list [depth, name, value]."""
    out = []

    def rec(kv, d):
        for ch in kv:
            if ch.has_children():
                out.append([d, ch.real_name, '{'])
                rec(ch, d + 1)
            else:
                out.append([d, ch.real_name, ch.value])
    rec(v, 0)
    return out


def apply_op(f: str, a, b):
    import operator
    if f == 'neg':
        return -a
    if f == 'abs':
        return abs(a)
    if f == 'round':
        return round(a)
    if f == 'cross':
        return a.cross(b)
    if f == 'lerp':
        return a.lerp(b, 0.25) if hasattr(a, 'lerp') else Vec.lerp(a, b, 0.25)
    return {'+': operator.add, '-': operator.sub, '*': operator.mul, '/': operator.truediv, '//': operator.floordiv,
            '%': operator.mod, '@': operator.matmul}[f](a, b)


def binop_record(f: str, lt: str, rt: str, rng: random.Random, out: hlib.RecWriter, src: str, stats: dict) -> None:
    a, b = operand(lt, rng, 1), operand(rt, rng, 2)
    ab, bb = value_walk(a), value_walk(b)
    b_item = b.copy() if isinstance(b, Keyvalues) else None      # the right operand as it was
    exc = ''
    res = None
    try:
        res = apply_op(f, a, b)
    except Exception as e:
        exc = type(e).__name__
    aa, ba = value_walk(a), value_walk(b)
    shared = []
    if res is not None and not isinstance(res, IMMUTABLE + (tuple,)):
        _, rc = walk(res)
        for name, opnd in (('a', a), ('b', b)):
            if opnd is not None and not isinstance(opnd, IMMUTABLE + (tuple,)):
                _, oc = walk(opnd)
                shared += [[name] + s for s in shared_cells(oc, rc)]
    is_kv = lt in ('Keyvalues', 'KVRoot')
    out.write({'k': 'binop', 'f': f, 'lt': lt, 'rt': rt, 'a_before': ab, 'a_after': aa, 'b_before': bb, 'b_after': ba,
               'shared': shared, 'exc': exc,
               'res': kv_flat(res) if is_kv and res is not None else [],
               'a_flat': flat_from_walk(ab) if is_kv else [],
               'b_flat': (kv_flat([b_item]) if rt == 'Keyvalues' else flat_from_walk(bb)) if is_kv else [],
               'sig': {'kind': 'Operator', 'src': src, 'action': f'{f} {lt} {rt}'}})
    stats['binops'] = stats.get('binops', 0) + 1


def flat_from_walk(w: list) -> list:
    """[depth, name, value] of the children, derived from the operand's walk BEFORE the operator ran."""
    ent = {tuple(e[0]): e for e in w}
    out = []

    def children(path: tuple, depth: int) -> None:
        # a Keyvalues block: path + ('_value',) is a list; a plain list: path itself
        lst = path + ('_value',) if ent[path][1] == 'Keyvalues' else path
        n = int(ent[lst][2])
        for i in range(n):
            ch = lst + (str(i),)
            name = eval(ent[ch + ('_real_name',)][2])
            val = ent[ch + ('_value',)]
            if val[1] == 'list':
                out.append([depth, name, '{'])
                children(ch, depth + 1)
            else:
                out.append([depth, name, eval(val[2])])
    children(('$',), 0)
    return out


# ---------------------------------------------------------------------------- modes
def run_edges(edge_file: str, out: hlib.RecWriter, part: int, nparts: int, stats: dict) -> None:
    edges = json.load(open(edge_file))
    rng = random.Random(hlib.seed() * 31 + 5)
    for n, e in enumerate(edges):
        if n % nparts != part:
            continue
        a = e['a']
        if a['op'] == 'binop':
            binop_record(a['f'], a['lt'], a['rt'], rng, out, 'edge', stats)
            continue
        c = Case(e['cls'], e['opts'], e['how'])
        if a['op'] == 'copy':
            copy_record(c, out, 'edge', stats)
        elif a['op'] == 'cell':
            mutate_record(c, [{'op': 'cell', 'side': a['side'], 'path': a['path']}], out, 'edge', stats)
        elif a['op'] == 'method':
            mutate_record(c, [{'op': 'method', 'side': a['side'], 'meth': a['meth']}], out, 'edge', stats)
        stats['edges_replayed'] = stats.get('edges_replayed', 0) + 1


def run_cells(cases_file: str, out: hlib.RecWriter, part: int, nparts: int, stats: dict) -> None:
    """Every mutable cell of the REAL heap of every (class, blocks, how) the model starts from, on both
    sides (the model's lists have two elements, the real ones up to nine); plus collapse_one copies."""
    cases = json.load(open(cases_file))
    n = 0
    for cls, opts, how in cases:
        hows = [how] + (['collapse'] if cls in ('Entity', 'Solid') and how == 'other' else [])
        for hw in hows:
            probe = Case(cls, opts, hw)
            if hw == 'collapse':
                if n % nparts == part:
                    copy_record(probe, out, 'cells', stats)
                n += 1
            _, cells = walk(probe.obj)
            paths = sorted(cells.values())
            _, ccells = walk(probe.cp)
            for side, ps in (('o', paths), ('c', sorted(ccells.values()))):
                for p in ps:
                    n += 1
                    if n % nparts != part:
                        continue
                    if hw != 'collapse' and all(x in ('0', '1') or not x.isdigit() for x in p):
                        continue      # a slot of the model: already exercised from TLC's edge
                    mutate_record(Case(cls, opts, hw), [{'op': 'cell', 'side': side, 'path': p}], out, 'cells', stats)
            stats['cases'] = stats.get('cases', 0) + 1


METHODS = {'Side': ['translate', 'localise', 'vertex_edit'], 'Solid': ['translate', 'localise', 'vertex_edit', 'vis_edit'],
           'Entity': ['translate', 'localise', 'vertex_edit', 'key_edit', 'fixup_edit', 'out_edit', 'vis_edit'],
           'Output': ['out_edit'], 'VisGroup': ['vis_edit'], 'Keyvalues': ['key_edit'],
           'EntityGroup': ['vis_edit'], 'Camera': [], 'Cordon': [], 'UVAxis': [], 'EntityFixup': ['fixup_edit']}


def method_ok(cls: str, opts: list, meth: str) -> bool:
    o = set(opts)
    if meth == 'vertex_edit':
        return 'disp' in o
    if meth in ('translate', 'localise'):
        return cls != 'Entity' or 'brush' in o
    if meth == 'fixup_edit':
        return True
    if meth == 'out_edit':
        return cls == 'Output' or 'outs' in o
    if meth == 'vis_edit' and cls == 'Entity':
        return True
    return True


def run_random(cases_file: str, out: hlib.RecWriter, stats: dict) -> None:
    """Seeded sequences of several in-place mutations on one side (cells and methods mixed)."""
    cases = json.load(open(cases_file))
    rng = random.Random(hlib.seed() * 7 + 9)
    n = 1500 if hlib.tier() == 'thorough' else 150
    for _ in range(n):
        cls, opts, how = rng.choice(cases)
        if cls in ('Entity', 'Solid') and rng.random() < 0.2:
            how = 'collapse'
        c = Case(cls, opts, how)
        side = rng.choice(['o', 'c'])
        tgt = c.cp if side == 'c' else c.obj
        muts = []
        for _ in range(rng.randint(2, 6)):
            if rng.random() < 0.35:
                ms = [m for m in METHODS[cls] if method_ok(cls, c.opts, m)]
                if ms:
                    muts.append({'op': 'method', 'side': side, 'meth': rng.choice(ms)})
                    continue
            _, cells = walk(tgt)
            muts.append({'op': 'cell', 'side': side, 'path': rng.choice(sorted(cells.values()))})
        mutate_record(c, muts, out, 'random', stats)


def main() -> None:
    mode = sys.argv[1]
    stats: dict = {}
    if mode == 'edges':
        out = hlib.RecWriter(sys.argv[3])
        run_edges(sys.argv[2], out, int(sys.argv[4]), int(sys.argv[5]), stats)
    elif mode == 'cells':
        out = hlib.RecWriter(sys.argv[3])
        run_cells(sys.argv[2], out, int(sys.argv[4]), int(sys.argv[5]), stats)
    elif mode == 'random':
        out = hlib.RecWriter(sys.argv[3])
        run_random(sys.argv[2], out, stats)
        rng = random.Random(hlib.seed() + 77)
        ops = json.load(open(sys.argv[4]))
        for _ in range(20 if hlib.tier() == 'thorough' else 3):
            for f, lt, rt in ops:
                binop_record(f, lt, rt, rng, out, 'random', stats)
    elif mode == 'inventory':
        inv = copyable_classes()
        walked = {}
        for name in inv:
            if name in PROBED:      # the fields a probe object really has (what the heap walk will see)
                opts = {'Side': ['disp', 'multi', 'strata'], 'Entity': ['fix', 'outs', 'brush']}.get(name, [])
                walked[name] = sorted(fields_of(build(name, opts_dict(opts), VMF())))
        print(json.dumps({'classes': inv, 'probed': sorted(PROBED), 'walked': walked}))
        return
    elif mode == 'replay':
        rp = json.load(open(sys.argv[2]))
        rec = rp['record']
        out = hlib.RecWriter(sys.argv[3])
        if rec['k'] == 'binop' and rec['f'] != 'collapse_one':
            binop_record(rec['f'], rec['lt'], rec['rt'], random.Random(0), out, 'replay', stats)
        else:
            c = Case(rec['cls'] if 'cls' in rec else rec['lt'], rec.get('opts', rp.get('opts', '').split('+') if rp.get('opts') not in (None, 'plain') else []),
                     rec.get('how', rp.get('how', 'same')))
            if rec['k'] in ('copy', 'binop'):
                copy_record(c, out, 'replay', stats)
            else:
                mutate_record(c, rec.get('earlier', []) + [rec['mut']], out, 'replay', stats)
    else:
        raise SystemExit(2)
    out.close()
    stats['records'] = out.n
    print(json.dumps(stats))


if __name__ == '__main__':
    main()
