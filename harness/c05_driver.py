"""C05 driver: runs histories of public Vec / Angle / Matrix operations on the real objects and logs the
projected references before/after each step; formats numbers and logs the texts.  TLC judges every record
(MathObjTrace, FloatTextTrace).  Modes:
  edges <edges.json> <out_steps> <out_text>   every transition of the MathObj model (BFS path + action), twice:
                                              on the exact integer domain (k=step) and with hostile floats
                                              substituted for the arguments (k=hstep); str() of every touched
                                              Vec/Angle goes to <out_text> (k=str3)
  text <edges.json> <out>                     every number of the FloatText model through format_float/str, and
                                              seeded floats (tiny negatives, multiples of 360, x.5e-7 straddlers)
  replay <replay.json> <out_steps> <out_text>
"""
from __future__ import annotations

import copy
import json
import math
import operator
import pickle
import random
import sys
from decimal import ROUND_HALF_EVEN, Decimal, localcontext
from fractions import Fraction

from vlib import hlib

hlib.require_repo_src()
from srctools.math import Angle, FrozenAngle, FrozenMatrix, FrozenVec, Matrix, Vec, format_float  # noqa: E402

I31 = 2 ** 31 - 1
CLS = {'Vec': Vec, 'FrozenVec': FrozenVec, 'Angle': Angle, 'FrozenAngle': FrozenAngle,
       'Matrix': Matrix, 'FrozenMatrix': FrozenMatrix}
FROZEN = (FrozenVec, FrozenAngle, FrozenMatrix)
VECS = (Vec, FrozenVec)
ANGS = (Angle, FrozenAngle)
MATS = (Matrix, FrozenMatrix)
COPYLIKE = ('copy', 'freeze', 'thaw', 'str')


def comps(obj) -> list:
    if isinstance(obj, MATS):
        return [obj[i, j] for i in range(3) for j in range(3)]
    return list(obj)


class World:
    """Three reference slots and every object ever created (kept alive, so identities are never reused)."""
    def __init__(self) -> None:
        self.slots: list = [None, None, None]
        self.keep: list = []
        self.uids: dict = {}

    def uid(self, obj) -> int:
        if obj is None:
            return 0
        if id(obj) not in self.uids:
            self.uids[id(obj)] = len(self.uids) + 1
            self.keep.append(obj)
        return self.uids[id(obj)]

    def ids(self) -> list:
        out, seen = [], []
        for obj in self.slots:
            if obj is None:
                out.append(0)
                continue
            for n, other in enumerate(seen):
                if other is obj:
                    out.append(n + 1)
                    break
            else:
                seen.append(obj)
                out.append(len(seen))
        return out

    def project(self, hostile: bool) -> tuple[dict, float]:
        cls = [type(o).__name__ if o is not None else 'None' for o in self.slots]
        st = {'cls': cls, 'id': self.ids(), 'uid': [self.uid(o) for o in self.slots],
              'hash': [str(hash(o)) if isinstance(o, (FrozenVec, FrozenAngle)) else '' for o in self.slots]}
        err = 0.0
        if hostile:
            st['val'] = [[x.hex() for x in comps(o)] if o is not None else [] for o in self.slots]
            st['rng'] = [[rng_of(x) for x in o] if isinstance(o, ANGS) else [] for o in self.slots]
        else:
            vals = []
            for o in self.slots:
                xs = comps(o) if o is not None else []
                ns = [round(x) if math.isfinite(x) and abs(x) < I31 else I31 for x in xs]
                err = max([err] + [abs(x - n) / max(1.0, abs(x)) for x, n in zip(xs, ns)])
                vals.append(ns)
            st['val'] = vals
        return st, err

    # ---------------------------------------------------------------- one public operation
    def apply(self, a: dict, how: int) -> str:
        """Execute a concrete action (arguments already numbers). Returns '' or the exception type name."""
        op = a['op']
        sl = self.slots
        t = sl[a['t'] - 1] if 't' in a else None
        u = sl[a['u'] - 1] if 'u' in a else None
        try:
            if op == 'new':
                res = make(a['c'], a['v'], how)
            elif op == 'conv':
                res = CLS[a['c']](t)
            elif op == 'set':
                names = ('x', 'y', 'z') if isinstance(t, VECS) else ('pitch', 'yaw', 'roll')
                i = a['i'] - 1
                if how % 3 == 0:
                    setattr(t, names[i], a['v'])
                elif how % 3 == 1:
                    t[i] = a['v']
                else:
                    t[names[i]] = a['v']
                return ''
            elif op == 'mul':
                res = t * a['k'] if how % 2 == 0 else a['k'] * t
            elif op == 'imul':
                sl[a['t'] - 1] = operator.imul(t, a['k'])
                return ''
            elif op == 'mm':
                res = t @ u
            elif op == 'imm':
                sl[a['t'] - 1] = operator.imatmul(t, u)
                return ''
            elif op == 'transform':
                with t.transform() as mat:
                    mat @= u
                return ''
            elif op == 'to_angle':
                res = t.to_angle()
            elif op == 'from_angle':
                res = CLS[a['c']].from_angle(t) if how % 2 == 0 else CLS[a['c']].from_angle(t.pitch, t.yaw, t.roll)
            elif op == 'from_basis':
                kw = [dict(x=t.forward(), y=t.left()), dict(x=t.forward().freeze(), z=t.up()), dict(y=t.left(), z=t.up()),
                      dict(x=t.forward(), y=t.left(), z=t.up())][how % 4]
                res = CLS[a['c']].from_basis(**kw)
            elif op == 'copy':
                h = a['how']
                res = (t.copy() if h == 'copy' else copy.copy(t) if h == 'copymod' else copy.deepcopy(t) if h == 'deepcopy'
                       else pickle.loads(pickle.dumps(t, how % (pickle.HIGHEST_PROTOCOL + 1))))
            elif op == 'freeze':
                res = t.freeze()
            elif op == 'thaw':
                res = t.thaw()
            elif op == 'str':
                res = derive_same_kind(a['c'], t, how % 5)
            else:
                raise SystemExit('unknown op ' + op)
        except Exception as exc:  # noqa: BLE001 - type is logged and judged by TLC
            return type(exc).__name__
        sl[a['s'] - 1] = res
        return ''


def derive_same_kind(cls: str, t, spelling: int):
    """An object of class cls with the value of t (same kind): through the text form in its three spellings,
    from_str given the instance itself, or with_axes taking every axis from the instance."""
    if spelling == 3:
        return CLS[cls].from_str(t)
    if spelling == 4:
        ax = ('x', 'y', 'z') if isinstance(t, VECS) else ('pitch', 'yaw', 'roll')
        return CLS[cls].with_axes(ax[0], t, ax[1], t, ax[2], t)
    return CLS[cls].from_str(str(t) if spelling == 0 else format(t) if spelling == 1 else t.join(' '))


def make(cls: str, v, how: int):
    a, b, c = v
    if cls in ('Matrix', 'FrozenMatrix'):
        return CLS[cls].from_angle(a, b, c) if how % 2 == 0 else CLS[cls].from_angle(Angle(a, b, c))
    if how % 3 == 0:
        return CLS[cls](a, b, c)
    return CLS[cls]([a, b, c]) if how % 3 == 1 else CLS[cls](iter([a, b, c]))


def rng_of(x: float) -> list:
    if not math.isfinite(x):
        return [False, True, I31]
    return [math.copysign(1.0, x) < 0, x != 0.0, min(I31, math.floor(abs(x)))]


# -------------------------------------------------------------------- hostile substitution
H_ANG = [-1e-14, -1e-9, 359.99999999999994, 360.0, 720.0, -0.0, 1e-7, 123456.7891234, -360.0, 359.9999996, 90.0, 180.0, 270.0,
         -90.0, 0.0, 45.0, 5e-324, -5e-324, 1e15, 89.99999999999999, 269.99999999999994, 90.00000000000001]
H_VEC = [-1e-9, -0.0, 1e-7, 123456.7891234, -4e-7, 5e-7, -5.0000001e-7, 1e15, 0.0078125, 1.0, -1.0, 0.0, 1e-17, -1e-17, 64.0,
         0.3, -2.5e5, 1e-300, 0.9999995, 2.0000005]
H_K = [-1.0, 0.5, 3.0, 1e-9, -2.5, 4.0, 360.0, 1e6, 0.1, -0.0, 1.0000000000000002, -1e-9, -1e-7, 2.0, 8.0]


def concretise(a: dict, rng: random.Random | None, tcls: str = '') -> dict:
    """The action with numeric arguments: the model's integers, or hostile floats chosen by rng."""
    c = dict(a)
    if rng is None or 'fixed' in a:
        c.pop('fixed', None)
        return c
    if a['op'] == 'new':
        pool = H_VEC if a['c'] in ('Vec', 'FrozenVec') else H_ANG
        c['v'] = [rng.choice(pool) for _ in range(3)]
        if a['c'] in ('Vec', 'FrozenVec') and rng.random() < 0.3:       # axis-aligned directions: yaw = atan2(-0.0 or tiny, x)
            c['v'] = [0.0, 0.0, 0.0]
            c['v'][rng.randrange(3)] = rng.choice([1.0, -1.0, 128.0])
            c['v'][rng.randrange(3)] += rng.choice([0.0, -1e-17, 1e-17, -0.0])
    elif a['op'] == 'set':
        c['v'] = rng.choice(H_ANG if 'Angle' in tcls else H_VEC)
    elif a['op'] in ('mul', 'imul'):
        c['k'] = rng.choice(H_K)
    return c


# -------------------------------------------------------------------- exact decimal view of a double
def num_of(x: float, places: int) -> tuple[dict, dict]:
    with localcontext() as ctx:
        ctx.prec = 1200
        d = Decimal(x)
        unit = Decimal(1).scaleb(-places)
        q = d.quantize(unit, rounding=ROUND_HALF_EVEN)
        alt = q
        if abs(d - q) * 2 == unit:
            alt = q + unit if d > q else q - unit

        def enc(v: Decimal) -> dict:
            a = abs(v)
            ip = int(a)
            return {'neg': v < 0, 'ip': [ord(ch) for ch in str(ip)], 'frac': int((a - ip).scaleb(places))}
        return enc(q), enc(alt)


def num_class(xs, places: int = 6) -> str:
    for x in xs:
        if math.copysign(1.0, x) < 0 and x != 0 and abs(Fraction(x)) * 10 ** places <= Fraction(1, 2):
            return 'tiny_negative'
    return 'other'


def str3_record(obj, text: str, action: str, hist: dict) -> dict:
    xs = list(obj)
    enc = [num_of(x, 6) for x in xs]
    back = type(obj).from_str(text, math.nan, math.nan, math.nan)
    bx = list(back)
    if isinstance(obj, ANGS):      # an Angle reads 360 back as 0: compare on the circle
        bx = [x if not (n[0]['ip'] == [51, 54, 48] and n[0]['frac'] == 0 and x == 0.0) else 360.0 for x, n in zip(bx, enc)]
    bk = [num_of(x, 6)[0] if math.isfinite(x) else {'neg': False, 'ip': [63], 'frac': 0} for x in bx]
    return {'k': 'str3', 'places': 6, 'nums': [e[0] for e in enc], 'alts': [e[1] for e in enc],
            'text': [ord(ch) for ch in text], 'back': bk,
            'sig': {'kind': 'text', 'action': action, 'cls': type(obj).__name__, 'class': num_class(xs)},
            'hist': dict(hist, text_of=[x.hex() for x in xs], cls=type(obj).__name__)}


# -------------------------------------------------------------------- edges of the MathObj model
def copy_eq(op: str, res, src) -> dict:
    lib = bool(res == src)
    close = True
    if op == 'str':
        lib = True      # the text round trip is judged on the numbers only (an Angle of 359.9999996 reads back as 0)
    for x, y in zip(comps(res), comps(src)):
        # 5e-7 per component for the text form (plus one ulp: the parsed double is itself rounded); exact otherwise
        tol = Fraction(5, 10 ** 7) + Fraction(math.ulp(max(abs(x), abs(y), 1.0))) if op == 'str' else Fraction(0)
        if not (math.isfinite(x) and math.isfinite(y)):
            close = close and (x == y or (math.isnan(x) and math.isnan(y)))
            continue
        d = abs(Fraction(x) - Fraction(y))
        if isinstance(res, ANGS):
            d = min(d, 360 - d)
        close = close and d <= tol
    return {'lib': lib, 'close': close}


def run_history(path: list, a: dict, hostile_seed, base_how: int, expect_pre, steps: hlib.RecWriter, text: hlib.RecWriter,
                stats: dict, src: str) -> None:
    hostile = hostile_seed is not None
    rng = random.Random(hostile_seed) if hostile else None
    a_full = a
    if 'fixed' in a:      # explicit numeric arguments: the abstract action TLC judges carries none
        a = {k: v for k, v in a.items() if k not in ('v', 'k', 'fixed')}
    w = World()
    conc = []
    for n, pa in enumerate(path):
        ca = concretise(pa, rng, type(w.slots[pa['t'] - 1]).__name__ if 't' in pa else '')
        conc.append(ca)
        w.apply(ca, base_how + n)
    pre, e1 = w.project(hostile)
    if expect_pre is not None:
        got = {'cls': pre['cls'], 'id': pre['id']}
        want = {'cls': expect_pre['cls'], 'id': expect_pre['id']}
        if not hostile:
            got['val'], want['val'] = pre['val'], expect_pre['val']
        bad_angle = hostile and any(not (0.0 <= x < 360.0) for o in w.slots if isinstance(o, ANGS) for x in o)
        if got != want or bad_angle:
            # an earlier step of the path already deviated (reported on its own edge): nothing to learn here
            stats['tainted_' + ('hostile' if hostile else 'exact')] = stats.get('tainted_' + ('hostile' if hostile else 'exact'), 0) + 1
            return
    ca = concretise(a_full, rng, pre['cls'][a['t'] - 1] if 't' in a else '')
    src_obj = w.slots[a['t'] - 1] if 't' in a else None
    et = w.apply(ca, base_how + len(path))
    post, e2 = w.project(hostile)
    hist = {'path': conc, 'a': ca, 'abstract': a, 'how': base_how, 'hostile': hostile}
    tgt = w.slots[(a['s'] if 's' in a else a['t']) - 1]
    sig = {'kind': 'hstep' if hostile else 'step', 'action': a['op'], 'src': src,
           'lcls': pre['cls'][a['t'] - 1] if 't' in a else '', 'rcls': pre['cls'][a['u'] - 1] if 'u' in a else '',
           'selfop': 'u' in a and pre['id'][a['t'] - 1] == pre['id'][a['u'] - 1],
           'has360': any(x == 360.0 for o in w.slots if isinstance(o, ANGS) for x in o)}
    rec = {'k': 'hstep' if hostile else 'step', 'a': a, 'pre': pre, 'post': post, 'exc': bool(et), 'et': et,
           'e': min(I31, math.ceil(max(e1, e2) * 1e12)), 'sig': sig, 'hist': hist}
    if hostile and a['op'] in COPYLIKE and not et:
        rec['eq'] = copy_eq(a['op'], tgt, src_obj)
    steps.write(rec)
    if hostile and not et and isinstance(tgt, VECS + ANGS):
        for n, txt in enumerate((str(tgt), format(tgt, ''), tgt.join(' '))):
            if n == 0 or (base_how + n) % 5 == 0:
                text.write(str3_record(tgt, txt, 'str.' + type(tgt).__name__, {'steps': hist}))


def mode_edges(edge_file: str, steps: hlib.RecWriter, text: hlib.RecWriter, stats: dict) -> None:
    edges = json.load(open(edge_file))
    key = lambda s: json.dumps(s, sort_keys=True)  # noqa: E731
    empty = {'cls': ['None'] * 3, 'val': [[], [], []], 'id': [0, 0, 0]}
    paths = hlib.bfs_paths(edges, key, key(empty))
    reps = 2 if hlib.tier() == 'thorough' else 1
    ops: dict = {}
    for n, e in enumerate(edges):
        path = paths[key(e['s'])]
        run_history(path, e['a'], None, n, e['s'], steps, text, stats, 'edge')
        for rep in range(reps):
            run_history(path, e['a'], hlib.seed() * 1000003 + n * 7 + rep, n + rep, e['s'], steps, text, stats, 'edge')
        ops[e['a']['op']] = ops.get(e['a']['op'], 0) + 1
        stats['edges_replayed'] = stats.get('edges_replayed', 0) + 1
    stats['ops'] = ops
    mode_grid(steps, text, stats)
    mode_probes(steps, stats)


def mode_grid(steps: hlib.RecWriter, text: hlib.RecWriter, stats: dict) -> None:
    """Every normalising entry point of Angle / FrozenAngle with every hostile value (and products that land on
    -tiny or on exact multiples of 360), as explicit two-step histories judged like any other hostile step."""
    extra = [360.0 * k for k in (-3, 2, 1000)] + [math.nextafter(360.0, 0.0), math.nextafter(0.0, -1.0), -1e-16, -3e-14, 1e300, -1e300]
    vals = H_ANG + extra
    n = 0

    def fixed(**kw) -> dict:
        return dict(kw, fixed=True)
    for x in vals:
        for i in (1, 2, 3):
            trip = [0.0, 0.0, 0.0]
            trip[i - 1] = x
            for how in (0, 1, 2):
                for cls in ('Angle', 'FrozenAngle'):
                    run_history([], fixed(op='new', s=1, c=cls, v=trip), n, how, None, steps, text, stats, 'grid')
                run_history([fixed(op='new', s=1, c='Angle', v=[10.0, 20.0, 30.0])], fixed(op='set', t=1, i=i, v=x), n, how,
                            None, steps, text, stats, 'grid')
                n += 1
            for src in ('Vec', 'FrozenVec'):
                for cls in ('Angle', 'FrozenAngle'):
                    run_history([fixed(op='new', s=1, c=src, v=trip)], fixed(op='conv', s=2, t=1, c=cls), n, 0, None,
                                steps, text, stats, 'grid')
    pairs = [(1e-7, -1e-9), (5e-324, -1.0), (120.0, 3.0), (90.0, 4.0), (1e-7, -1e-7), (359.99999999999994, 1.0000000000000002),
             (180.0, 2.0), (0.1, 3600.0), (1e-300, -1e-300), (45.0, -8.0), (359.99999999999994, -1.0), (1e-9, -1e-6)]
    for x, k in pairs:
        for i in (1, 2, 3):
            trip = [15.0, 15.0, 15.0]
            trip[i - 1] = x
            for cls in ('Angle', 'FrozenAngle'):
                new = fixed(op='new', s=1, c=cls, v=trip)
                for how in (0, 1):
                    run_history([new], fixed(op='mul', s=2, t=1, k=k), n, how, None, steps, text, stats, 'grid')
                run_history([new], fixed(op='imul', t=1, k=k), n, 0, None, steps, text, stats, 'grid')
                n += 1
    stats['grid_histories'] = n


# -------------------------------------------------------------------- independence probes
def hexes(obj) -> list:
    return [x.hex() for x in comps(obj)]


def mutations(obj) -> list:
    """(name, callable mutating obj in place) for every public in-place path of the object's class."""
    if isinstance(obj, Vec):
        def tf(o):
            with o.transform() as m:
                m @= Angle(0.0, 90.0, 0.0)
        return [('attr', lambda o: setattr(o, 'y', 77.5)), ('item', lambda o: o.__setitem__(2, -9.25)),
                ('item_name', lambda o: o.__setitem__('x', 4.5)), ('imul', lambda o: operator.imul(o, 3.0)),
                ('iadd', lambda o: operator.iadd(o, (1.0, 2.0, 3.0))), ('imm', lambda o: operator.imatmul(o, Angle(0.0, 90.0, 0.0))),
                ('transform', tf), ('localise', lambda o: o.localise((1.0, 1.0, 1.0), Angle(0.0, 90.0, 0.0))),
                ('max', lambda o: o.max((1e3, 1e3, 1e3)))]
    if isinstance(obj, Angle):
        def tf(o):
            with o.transform() as m:
                m @= Angle(15.0, 45.0, 0.0)
        return [('attr', lambda o: setattr(o, 'yaw', -1e-14 + 77.0)), ('item', lambda o: o.__setitem__(2, 720.5)),
                ('item_name', lambda o: o.__setitem__('pit', 45.0)), ('imul', lambda o: operator.imul(o, 1.5)),
                ('imm', lambda o: operator.imatmul(o, Angle(15.0, 45.0, 0.0))), ('imm_matrix', lambda o: operator.imatmul(o, Matrix.from_yaw(45.0))),
                ('transform', tf)]
    if isinstance(obj, Matrix):
        return [('item', lambda o: o.__setitem__((0, 1), 0.5)), ('imm', lambda o: operator.imatmul(o, Matrix.from_yaw(45.0))),
                ('imm_angle', lambda o: operator.imatmul(o, Angle(15.0, 45.0, 0.0)))]
    return []


def derivations(src) -> list:
    """(via, abstract action for MathObjOps.Shape, callable) for every public way to derive an object from src."""
    scls = type(src).__name__
    k = 'V' if isinstance(src, VECS) else 'A' if isinstance(src, ANGS) else 'M'
    same = {'V': ('Vec', 'FrozenVec'), 'A': ('Angle', 'FrozenAngle'), 'M': ('Matrix', 'FrozenMatrix')}[k]
    out = []
    for c in same:
        out.append(('ctor', {'op': 'conv', 's': 2, 't': 1, 'c': c}, lambda o, c=c: CLS[c](o)))
        if k != 'M':
            for sp, nm in enumerate(('str', 'format', 'join', 'from_str_instance', 'with_axes')):
                out.append((nm, {'op': 'str', 's': 2, 't': 1, 'c': c}, lambda o, c=c, sp=sp: derive_same_kind(c, o, sp)))
        else:
            for n, kw in enumerate(('xy', 'xz', 'yz', 'xyz')):
                def fb(o, c=c, kw=kw):
                    ax = {'x': o.forward(), 'y': o.left(), 'z': o.up()}
                    return CLS[c].from_basis(**{a: ax[a] for a in kw})
                out.append(('from_basis_' + kw, {'op': 'from_basis', 's': 2, 't': 1, 'c': c}, fb))
    for h, fn in (('copy', lambda o: o.copy()), ('copymod', copy.copy), ('deepcopy', copy.deepcopy),
                  ('pickle', lambda o: pickle.loads(pickle.dumps(o)))):
        out.append((h, {'op': 'copy', 's': 2, 't': 1, 'how': h}, fn))
    if scls in ('Vec', 'Angle', 'Matrix'):
        out.append(('freeze', {'op': 'freeze', 's': 2, 't': 1}, lambda o: o.freeze()))
    else:
        out.append(('thaw', {'op': 'thaw', 's': 2, 't': 1}, lambda o: o.thaw()))
    return out


PROBE_SRC = {'Vec': (1.5, -2.0, 3.25), 'FrozenVec': (1.5, -2.0, 3.25), 'Angle': (10.0, 20.0, 30.0), 'FrozenAngle': (10.0, 20.0, 30.0)}


def probe_source(scls: str):
    if scls in PROBE_SRC:
        return CLS[scls](*PROBE_SRC[scls])
    return CLS[scls].from_angle(10.0, 20.0, 30.0)


def mode_probes(steps: hlib.RecWriter, stats: dict, only: dict | None = None) -> None:
    """Derive, mutate one side in place, watch the other side: the independence clause of the property, for
    every derivation path x every in-place mutation x both directions.  Judged by TLC (MathObjTrace, k=indep)."""
    n = 0
    for scls in CLS:
        for via, a, fn in derivations(probe_source(scls)):
            probes = [('none', 'res', None)]
            res0 = fn(probe_source(scls))
            probes += [(nm, 'res', None) for nm, _ in mutations(res0)]
            probes += [(nm, 'src', None) for nm, _ in mutations(probe_source(scls))]
            for mut, direction, _ in probes:
                key = {'via': via, 'scls': scls, 'mut': mut, 'dir': direction}
                if only is not None and any(only.get(k) != v for k, v in key.items()):
                    continue
                src = probe_source(scls)
                res = fn(src)
                equal0 = copy_eq(a['op'], res, src)
                target, watched = (res, src) if direction == 'res' else (src, res)
                wb, mb = hexes(watched), hexes(target)
                et = ''
                if mut != 'none':
                    try:
                        dict(mutations(target))[mut](target)
                    except Exception as exc:  # noqa: BLE001
                        et = type(exc).__name__
                rec = {'k': 'indep', 'a': a, 'scls': scls, 'rcls': type(res).__name__, 'via': via, 'mut': mut, 'dir': direction,
                       'same': res is src, 'equal0': bool(equal0['lib'] and equal0['close']) or a['op'] == 'from_basis',
                       'wb': wb, 'wa': hexes(watched), 'mb': mb, 'ma': hexes(target), 'exc': bool(et), 'et': et,
                       'sig': dict(key, kind='indep', action=a['op'], lcls=scls, rcls=type(res).__name__),
                       'hist': {'probe': key}}
                steps.write(rec)
                n += 1
    stats['independence_probes'] = stats.get('independence_probes', 0) + n


# -------------------------------------------------------------------- texts
def fmt_record(x: float, places: int, action: str) -> dict:
    text = format_float(x, places) if places != 6 or action != 'format_float.default' else format_float(x)
    k, alt = num_of(x, places)
    return {'k': 'fmt', 'places': places, 'num': k, 'alt': alt, 'text': [ord(ch) for ch in text],
            'sig': {'kind': 'text', 'action': action, 'class': num_class([x], places)},
            'hist': {'x': x.hex(), 'places': places, 'action': action}}


def val_of(k: dict, places: int) -> float:
    ip = int(''.join(chr(c) for c in k['ip']))
    x = float(Fraction(ip * 10 ** places + k['frac'], 10 ** places))
    return -x if k['neg'] else x


def seeded_floats(rng: random.Random, count: int) -> list:
    out = [-1e-9, -4e-7, -4.999999e-7, -5e-7, -5.000001e-7, -6e-7, -0.0, 0.0, 1e-7, 5e-7, 4.9999999e-7, 1e-300, -1e-300, 5e-324,
           360.0, 720.0, -360.0, 359.99999999999994, 359.9999996, 359.9999994, 1e15, 1e16, 1e22, -1e22, 123456.7891234,
           0.0078125, 0.0234375, -0.0078125, 2.5e-6, 3.5e-6, 0.1, 0.30000000000000004, 1 / 3, 1e6 + 1e-7, 999999.9999995,
           0.9999995, 0.99999949, 1e-6, 1.5e-6, 8.5e-6, 1.0000005, 64.0000005]
    for _ in range(count):
        r = rng.random()
        if r < 0.2:        # tiny negatives and positives around the rounding-to-zero edge
            out.append(rng.choice([-1, 1]) * 10.0 ** rng.uniform(-12, -5.5))
        elif r < 0.35:     # exact multiples of 360 and their neighbours
            b = 360.0 * rng.randrange(-5, 6)
            out.append(rng.choice([b, math.nextafter(b, math.inf), math.nextafter(b, -math.inf), b + 1e-7, b - 1e-7]))
        elif r < 0.6:      # straddling x.5e-7
            k = rng.randrange(0, 10 ** rng.randrange(1, 9))
            out.append(rng.choice([-1, 1]) * (k + 0.5 + rng.choice([0.0, 1e-4, -1e-4, 1e-9, -1e-9, 0.4, -0.4])) * 1e-6)
        elif r < 0.7:      # dyadic values: exact ties at 6 places
            out.append(rng.choice([-1, 1]) * rng.randrange(1, 4096) / 128.0)
        elif r < 0.85:
            out.append(rng.uniform(-1, 1) * 10.0 ** rng.uniform(-3, 15))
        else:
            out.append(float(rng.randrange(-10 ** 6, 10 ** 6)))
    return [x for x in out if math.isfinite(x)]


def mode_text(edge_file: str, out: hlib.RecWriter, stats: dict) -> None:
    edges = json.load(open(edge_file))
    n_num = n_vec = 0
    for e in edges:
        c = e['c']
        if c['kind'] == 'num':
            # the model's number at the model's number of places (2), through the real formatter
            out.write(fmt_record(val_of(c['k'], 2), 2, 'format_float.places'))
            n_num += 1
        else:
            xs = [val_of(k, 2) for k in c['ks']]
            for cls in (Vec, FrozenVec):
                obj = cls(*xs)
                out.write(str3_record(obj, str(obj), 'str.' + cls.__name__, {'model': True}))
            n_vec += 1
    stats['model_numbers'] = n_num
    stats['model_vectors'] = n_vec
    rng = random.Random(hlib.seed() * 104729 + 5)
    xs = seeded_floats(rng, 20000 if hlib.tier() == 'thorough' else 4000)
    for n, x in enumerate(xs):
        out.write(fmt_record(x, 6, 'format_float.default'))
        if n % 4 == 0:
            out.write(fmt_record(x, rng.choice([0, 1, 3, 9]), 'format_float.places'))
    for n in range(0, len(xs) - 2, 3):
        trip = xs[n:n + 3]
        for cls in ((Vec, FrozenVec, Angle, FrozenAngle)[n % 4],):
            obj = cls(*trip)
            txt = [str(obj), obj.join(' '), format(obj)][n % 3]
            out.write(str3_record(obj, txt, 'str.' + cls.__name__, {'seeded': True}))
    stats['seeded_floats'] = len(xs)


# -------------------------------------------------------------------- replay
def mode_replay(path: str, steps: hlib.RecWriter, text: hlib.RecWriter) -> None:
    rec = json.load(open(path))['record']
    h = rec['hist']
    if rec['k'] == 'indep':
        mode_probes(steps, {}, only=h['probe'])
    elif rec['k'] in ('step', 'hstep'):
        replay_steps(h, steps, text)
    elif rec['k'] == 'fmt':
        text.write(fmt_record(float.fromhex(h['x']), h['places'], h['action']))
    elif 'steps' in h:
        replay_steps(h['steps'], steps, text)
    else:
        obj = CLS[h['cls']](*[float.fromhex(x) for x in h['text_of']])
        text.write(str3_record(obj, str(obj), 'str.' + h['cls'], {'replay': True}))


def replay_steps(h: dict, steps: hlib.RecWriter, text: hlib.RecWriter) -> None:
    """Re-execute the stored concrete history (its arguments are already numbers)."""
    global concretise
    old = concretise
    queue = list(h['path']) + [h['a']]
    concretise = lambda a, rng, tcls='': queue.pop(0)  # noqa: E731
    try:
        run_history([c for c in h['path']], dict(h['abstract']), 0 if h['hostile'] else None, h['how'], None,
                    steps, text, {}, 'replay')
    finally:
        concretise = old


def main() -> None:
    mode = sys.argv[1]
    stats: dict = {}
    if mode == 'edges':
        steps, text = hlib.RecWriter(sys.argv[3]), hlib.RecWriter(sys.argv[4])
        mode_edges(sys.argv[2], steps, text, stats)
        stats.update(step_records=steps.n, text_records=text.n)
        steps.close()
        text.close()
    elif mode == 'text':
        out = hlib.RecWriter(sys.argv[3])
        mode_text(sys.argv[2], out, stats)
        stats['records'] = out.n
        out.close()
    elif mode == 'replay':
        steps, text = hlib.RecWriter(sys.argv[3]), hlib.RecWriter(sys.argv[4])
        mode_replay(sys.argv[2], steps, text)
        stats.update(step_records=steps.n, text_records=text.n)
        steps.close()
        text.close()
    else:
        raise SystemExit('unknown mode')
    print(json.dumps(stats))


main()
