"""DeferredWrites driver: TLC-enumerated transitions (sampled in quick) replayed by shortest path on the
real binformat.DeferredWrites over a BytesIO, plus seeded random histories with more keys and sizes."""
from __future__ import annotations

import io
import json
import random
import sys

from vlib import hlib

hlib.require_repo_src()
from srctools.binformat import DeferredWrites  # noqa: E402

KEYCODE = {'p': 0x10, 'q': 0x20, 'r': 0x30, 's': 0x40}
CODEKEY = {v: k for k, v in KEYCODE.items()}


class Impl:
    def __init__(self) -> None:
        self.buf = io.BytesIO()
        self.dw = DeferredWrites(self.buf)

    def project(self) -> dict:
        cells = []
        for b in self.buf.getvalue():
            if b == 0:
                cells.append(['z', 0])
            elif b == 0x62:
                cells.append(['b', 0])
            else:
                cells.append([CODEKEY[b & 0xF0], b & 0x0F])
        loc = [{'k': k, 'pos': off + 1, 'size': fmt.size} for k, (off, fmt) in self.dw.loc.items()]
        return {'file': cells, 'cur': self.buf.tell() + 1, 'loc': loc, 'data': [len(self.dw.data.get(k, b'')) for k in self.dw.loc]}

    def apply(self, a: dict):
        op = a['op']
        try:
            if op == 'body':
                self.buf.write(b'b' * a['n'])
                return 'ok'
            if op == 'defer':
                self.dw.defer(a['k'], 'B' * a['size'], write=a['w'])
                return 'ok'
            if op == 'set':
                try:
                    off, fmt = self.dw.loc[a['k']]
                    size = fmt.size
                except KeyError:
                    size = 1
                self.dw.set_data(a['k'], *[KEYCODE[a['k']] + i for i in range(1, size + 1)])
                return 'ok'
            if op == 'pos':
                try:
                    return self.dw.pos_of(a['k']) + 1
                except KeyError:
                    return -1
            if op == 'write':
                self.dw.write()
                return 'ok'
        except (KeyError, ValueError) as exc:
            return type(exc).__name__
        raise ValueError(op)


def main() -> None:
    mode = sys.argv[1]
    if mode == 'edges':
        edges = json.load(open(sys.argv[2]))
        out = hlib.RecWriter(sys.argv[3])
        key = lambda st: json.dumps(st, sort_keys=True)
        paths = hlib.bfs_paths(edges, key)
        step = 1 if hlib.tier() == 'thorough' else max(1, len(edges) // 12000)
        off = hlib.seed() % step
        for n, e in enumerate(edges):
            if n % step != off:
                continue
            impl = Impl()
            for pa in paths[key(e['s'])]:
                impl.apply(pa)
            pre = impl.project()
            a = {k: v for k, v in e['a'].items() if k != 'res'}
            res = impl.apply(a)
            out.write({'pre': pre, 'a': a, 'res': res, 'post': impl.project(),
                       'sig': {'kind': 'deferred', 'action': a['op'], 'src': 'edge'}, 'hist': paths[key(e['s'])] + [a]})
    else:
        out = hlib.RecWriter(sys.argv[2])
        rng = random.Random(hlib.seed() * 17 + 3)
        for _ in range(3000 if hlib.tier() == 'thorough' else 400):
            impl = Impl()
            hist = []
            for _ in range(rng.randint(2, 14)):
                r = rng.random()
                k = rng.choice('pqrs')
                if r < 0.25:
                    a = {'op': 'body', 'n': rng.randint(1, 5)}
                elif r < 0.5:
                    a = {'op': 'defer', 'k': k, 'size': rng.randint(1, 4), 'w': rng.random() < 0.8}
                elif r < 0.75:
                    a = {'op': 'set', 'k': k}
                elif r < 0.85:
                    a = {'op': 'pos', 'k': k}
                else:
                    a = {'op': 'write'}
                if a['op'] == 'defer' and not a['w']:
                    # the caller promises to write the space itself: do so right away
                    pre = impl.project()
                    res = impl.apply(a)
                    hist.append(a)
                    out.write({'pre': pre, 'a': a, 'res': res, 'post': impl.project(),
                               'sig': {'kind': 'deferred', 'action': 'defer', 'src': 'random'}, 'hist': list(hist)})
                    a = {'op': 'body', 'n': a['size']}
                pre = impl.project()
                res = impl.apply(a)
                hist.append(a)
                out.write({'pre': pre, 'a': a, 'res': res, 'post': impl.project(),
                           'sig': {'kind': 'deferred', 'action': a['op'], 'src': 'random'}, 'hist': list(hist)})
    out.close()
    print(json.dumps({'records': out.n}))


if __name__ == '__main__':
    main()
