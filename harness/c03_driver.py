"""C03 driver: runs the pure-Python Tokenizer (and Keyvalues.parse) of the pinned tree on texts
delivered in every form and logs records for specs/TokenizerTrace.tla.  Modes:
  family <params json> <out>      the model's exhaustive family: every text over the alphabet up to
                                  maxlen x every assignment of the options whose triggers occur
  all128 <alphabet json> <maxlen> <out>   every text x all 128 option sets
  edges <edges.json> <out>        one run per transition of the nd Tokenizer model (direction A)
  cursor <edges.json> <out>       every transition of the Cursor model on the real cursor
  random <out>                    seeded random long texts, cuts at the nasty places, Keyvalues.parse
  kvsoup <out>                    Keyvalues.parse on exhaustive + random token soups
  replay <replay.json> <out>      re-execute the case of a replay file
"""
from __future__ import annotations

import io
import itertools
import json
import multiprocessing
import os
import random
import sys
import traceback
import warnings

from vlib import hlib, toklib
from vlib.toklib import cps, uncps

hlib.require_repo_src()
from srctools.keyvalues import KeyValError, Keyvalues  # noqa: E402
from srctools.tokenizer import Tokenizer, TokenSyntaxError  # noqa: E402

ETYPE = 'TokenSyntaxError'


# ------------------------------------------------------------------ delivery forms
def cut(text: str, mask: int) -> list:
    """Chunks of text: bit k of mask set = cut after character k+1."""
    out, start = [], 0
    for k in range(len(text) - 1):
        if mask >> k & 1:
            out.append(text[start:k + 1])
            start = k + 1
    if text:
        out.append(text[start:])
    return out


def with_empties(chunks: list) -> list:
    out = ['']
    for c in chunks:
        out += [c, '']
    return out


def gen_of(chunks: list):
    yield from chunks


def small_forms(text: str):
    """Every delivery form of a short text: (name, data factory)."""
    yield 'str', lambda: text
    yield 'lines', lambda: text.splitlines(keepends=True)
    yield 'file', lambda: io.StringIO(text)
    n = len(text)
    for mask in range(1 << max(n - 1, 0)):
        ch = cut(text, mask)
        yield f'cut:{mask}', lambda ch=ch: list(ch)
        yield f'cute:{mask}', lambda ch=ch: with_empties(ch)
    full = (1 << max(n - 1, 0)) - 1
    yield f'gen:{full}', lambda: gen_of(cut(text, full))
    yield 'tuple:0', lambda: (text,)


def nasty_cuts(text: str) -> int:
    """Mask cutting inside CR LF, after a backslash, inside '*/', '//' and '/*'."""
    mask = 0
    for k in range(len(text) - 1):
        pair = text[k:k + 2]
        if pair in ('\r\n', '*/', '//', '/*', '**') or text[k] == '\\':
            mask |= 1 << k
    return mask


def big_forms(text: str, rng: random.Random):
    yield 'str', lambda: text
    yield 'lines', lambda: text.splitlines(keepends=True)
    yield 'file', lambda: io.StringIO(text)
    n = len(text)
    if n < 2:
        yield 'cut:0', lambda: cut(text, 0)
        yield 'cute:0', lambda: with_empties(cut(text, 0))
        return
    full = (1 << (n - 1)) - 1
    nasty = nasty_cuts(text)
    masks = {full, nasty, full & ~nasty}
    for dens in (0.1, 0.3, 0.6):
        m = 0
        for k in range(n - 1):
            if rng.random() < dens:
                m |= 1 << k
        masks.add(m)
        masks.add(m | nasty)
    for m in sorted(masks):
        ch = cut(text, m)
        yield f'cut:{m}', lambda ch=ch: list(ch)
    m = sorted(masks)[rng.randrange(len(masks))]
    yield f'cute:{m}', lambda: with_empties(cut(text, m))
    yield f'gen:{nasty}', lambda: gen_of(cut(text, nasty))


def edge_forms(text: str):
    full = (1 << max(len(text) - 1, 0)) - 1
    yield 'str', lambda: text
    yield 'lines', lambda: text.splitlines(keepends=True)
    yield f'cut:{full}', lambda: cut(text, full)
    yield f'cute:{full}', lambda: with_empties(cut(text, full))
    yield 'cute:0', lambda: with_empties(cut(text, 0))
    yield f'cut:{nasty_cuts(text)}', lambda: cut(text, nasty_cuts(text))


class HarnessError(TokenSyntaxError):
    """A caller-supplied error class: the tokenizer must raise exactly this type when given it."""


def lex_record(text: str, o: dict, forms, kind: str, extra_sig: dict | None = None, error_type=TokenSyntaxError) -> dict:
    groups: dict = {}
    for name, make in forms:
        out = toklib.tokenize(make(), o, nchars=len(text), error_type=error_type)
        key = toklib.outcome_key(out)
        if key not in groups:
            groups[key] = dict(out, forms=[])
        groups[key]['forms'].append(name)
    outs = list(groups.values())
    for g in outs:      # keep records small: the first forms are enough to re-execute
        g['nforms'] = len(g['forms'])
        g['forms'] = g['forms'][:6]
    sig = {'kind': kind, 'action': 'tokenize', 'o': ''.join(str(int(o[n])) for n in toklib.OPT_NAMES)}
    sig.update(extra_sig or {})
    return {'k': 'lex', 'text': cps(text), 'o': o, 'fold': toklib.fold_table(text), 'etype': error_type.__name__,
            'outs': outs, 'sig': sig}


# ------------------------------------------------------------------ watching the cursor
class CountIter:
    def __init__(self, chunks) -> None:
        self.it = iter(chunks)
        self.count = 0

    def __iter__(self):
        return self

    def __next__(self):
        v = next(self.it)
        self.count += 1
        return v


StepLimit = toklib.StepLimit


def watched_run(text: str, o: dict, chunks=None) -> tuple:
    """Tokenize with Tokenizer._next_char wrapped from outside.  -> (events, cursor ops, outcome)"""
    src = CountIter(chunks) if chunks is not None else None
    toklib.install_step_counter()
    toklib.set_step_limit(len(text))
    tok = Tokenizer(src if src is not None else text, None, TokenSyntaxError, **toklib.opts_kwargs(o))
    orig = tok._next_char
    ev: list = []
    ops: list = []
    state = {'nt': 0, 'idx': tok._char_index, 'done': False}

    def cur_obs(op: str, res: int) -> dict:
        return {'op': op, 'res': res, 'it': src.count if src is not None else 0, 'idx': tok._char_index,
                'cur': cps(tok._cur_chunk)}

    def wrapper():
        if tok._char_index != state['idx']:
            ops.append(cur_obs('rewind' if tok._char_index == state['idx'] - 1 else 'jump', 0))
        line, cr = tok.line_num, tok._last_was_cr
        c = orig()
        code = ord(c) if c is not None else -1
        if not state['done']:
            ev.append([code, line, int(cr), state['nt']])
        ops.append(cur_obs('next', code))
        state['idx'] = tok._char_index
        return c

    tok._next_char = wrapper
    toks = []
    err, etype, msg = toklib.NO_ERR, '', ''
    try:
        while True:
            t, v = tok()
            state['nt'] += 1
            toks.append({'t': t.name, 'v': cps(v), 'l': tok.line_num})
            if t.name == 'EOF':
                state['done'] = True
                break
    except Exception as exc:  # noqa: BLE001
        err, etype, msg = toklib.classify_error(exc, TokenSyntaxError)
    return ev, ops, {'toks': toks, 'err': err, 'etype': etype, 'msg': msg}


def steps_record(text: str, o: dict, edge: dict | None, kind: str) -> dict:
    ev, _ops, _out = watched_run(text, o)
    return {'k': 'steps', 'text': cps(text), 'o': o, 'fold': toklib.fold_table(text), 'ev': ev,
            'edge': edge or {'k': 0, 'm': '', 'c': 0},
            'sig': {'kind': kind, 'action': 'next_char', 'mode': (edge or {}).get('m', ''),
                    'char': (edge or {}).get('c', 0), 'o': ''.join(str(int(o[n])) for n in toklib.OPT_NAMES)}}


def cursor_record_from_run(text: str, o: dict, chunks: list | None, kind: str) -> dict:
    _ev, ops, _out = watched_run(text, o, chunks)
    return {'k': 'cursor', 'str': chunks is None, 'chunks': [cps(c) for c in (chunks or [])], 'text': cps(text),
            'ops': ops, 'sig': {'kind': kind, 'action': 'cursor'}}


# ------------------------------------------------------------------ modes
def _family_worker(args) -> list:
    texts, base = args
    out = []
    for text in texts:
        rel = toklib.relevant(text)
        for bits in range(1 << len(rel)):
            o = dict(base)
            for i, nm in enumerate(rel):
                o[nm] = bool(bits >> i & 1)
            out.append(json.dumps(lex_record(text, o, small_forms(text), 'family'), separators=(',', ':')))
    return out


def _texts(alphabet: list, maxlen: int):
    for n in range(maxlen + 1):
        for tup in itertools.product(alphabet, repeat=n):
            yield ''.join(tup)


def _pool_write(func, jobs: list, out: str) -> int:
    n = 0
    procs = max(1, min(8, (os.cpu_count() or 2) // 2, len(jobs)))
    with open(out, 'w', encoding='utf-8') as f:
        if procs == 1:
            results = map(func, jobs)
            for lines in results:
                for ln in lines:
                    f.write(ln + '\n')
                    n += 1
        else:
            with multiprocessing.Pool(procs) as pool:
                for lines in pool.imap(func, jobs, chunksize=1):
                    for ln in lines:
                        f.write(ln + '\n')
                        n += 1
    return n


def mode_family(params_json: str, out: str) -> None:
    params = json.loads(params_json)
    alphabet = [chr(c) for c in params['alphabet']]
    texts = list(_texts(alphabet, params['maxlen']))
    step = 400
    jobs = [(texts[k:k + step], params['base']) for k in range(0, len(texts), step)]
    n = _pool_write(_family_worker, jobs, out)
    print(json.dumps({'records': n, 'inputs': n, 'texts': len(texts)}))


def _all128_worker(texts) -> list:
    out = []
    for text in texts:
        for bits in range(128):
            o = toklib.opts_from_bits(bits)
            forms = [('str', lambda: text), ('cut:%d' % ((1 << max(len(text) - 1, 0)) - 1),
                                            lambda: cut(text, (1 << max(len(text) - 1, 0)) - 1)),
                     ('cute:0', lambda: with_empties(cut(text, 0)))]
            out.append(json.dumps(lex_record(text, o, forms, 'all128'), separators=(',', ':')))
    return out


def mode_all128(alpha_json: str, maxlen: str, out: str) -> None:
    alphabet = [chr(c) for c in json.loads(alpha_json)]
    texts = list(_texts(alphabet, int(maxlen)))
    jobs = [texts[k:k + 40] for k in range(0, len(texts), 40)]
    n = _pool_write(_all128_worker, jobs, out)
    print(json.dumps({'records': n, 'inputs': n}))


def mode_edges(edges_path: str, out: str) -> None:
    edges = json.load(open(edges_path, encoding='utf-8'))
    w = hlib.RecWriter(out)
    n_edges = 0
    for e in edges:
        a = e['a']
        if a['op'] != 'step':
            continue
        n_edges += 1
        text = uncps(e['text'])
        o = e['o']
        w.write(steps_record(text, o, {'k': a['k'], 'm': a['m'], 'c': a['c']}, 'edge'))
        w.write(lex_record(text, o, small_forms(text) if len(text) <= 3 else edge_forms(text),
                           'edge', {'mode': a['m'], 'char': a['c']}))
    w.close()
    print(json.dumps({'records': w.n, 'edges_replayed': n_edges}))


def mode_cursor(edges_path: str, out: str) -> None:
    """Drive the real cursor (Tokenizer._next_char, _char_index -= 1) along every transition of the
    Cursor model: shortest path from the initial state of its delivery, then the transition."""
    edges = json.load(open(edges_path, encoding='utf-8'))

    def key(s):
        return json.dumps(s, sort_keys=True)
    succ: dict = {}
    targets = set()
    for e in edges:
        succ.setdefault(key(e['s']), []).append(e)
        targets.add(key(e['t']))
    paths = {}
    todo = []
    for e in edges:     # initial states of the model: nothing delivered, nothing taken from the iterator
        k = key(e['s'])
        s0 = e['s']
        if s0['abs'] == 0 and not s0['canRew'] and s0['idx'] == -1 and s0['it'] == 0 and k not in paths:
            paths[k] = []
            todo.append(k)
    inits = len(todo)
    while todo:
        nxt = []
        for k in todo:
            for e in succ.get(k, ()):
                t = key(e['t'])
                if t not in paths:
                    paths[t] = paths[k] + [e['a']['op']]
                    nxt.append(t)
        todo = nxt
    w = hlib.RecWriter(out)
    for e in edges:
        s = e['s']
        seq = paths[key(s)] + [e['a']['op']]
        text = uncps(s['text'])
        chunks = None if s['str'] else [uncps(c) for c in s['chunks']]
        src = CountIter(chunks) if chunks is not None else None
        tok = Tokenizer(src if src is not None else text)
        ops = []
        for op in seq:
            if op == 'next':
                try:
                    c = tok._next_char()
                    res = ord(c) if c is not None else -1
                except Exception as exc:  # noqa: BLE001 - an exception here is an observation
                    ops.append({'op': 'exception:' + type(exc).__name__, 'res': 0, 'it': 0, 'idx': 0, 'cur': []})
                    break
            else:
                tok._char_index -= 1
                res = 0
            ops.append({'op': op, 'res': res, 'it': src.count if src is not None else 0, 'idx': tok._char_index,
                        'cur': cps(tok._cur_chunk)})
        w.write({'k': 'cursor', 'str': s['str'], 'chunks': s['chunks'], 'text': s['text'], 'ops': ops,
                 'sig': {'kind': 'cursor-edge', 'action': 'cursor', 'op': e['a']['op']}})
    w.close()
    print(json.dumps({'records': w.n, 'edges_replayed': len(edges), 'inits': inits}))


SYNTAX = '"\\/*\r\n a#{}[]():+=,\'\t;n?A\ufeff'


def rand_text(rng: random.Random) -> str:
    n = rng.choice((3, 5, 8, 13, 21, 34, 55)) if rng.random() < 0.9 else rng.randrange(80, 200)
    pieces = []
    while sum(map(len, pieces)) < n:
        r = rng.random()
        if r < 0.55:
            pieces.append(rng.choice(SYNTAX))
        elif r < 0.70:
            pieces.append(rng.choice(['\r\n', '//', '/*', '*/', '**/', '\\"', '\\\n', '\\\r\n', '"a\rb"', '\r{\n',
                                      '#Dir', '[f]', '(p)', '/* x\n*/', '// c\r\n', '"\r\n"', '\\n', 'a:b+c']))
        elif r < 0.9:
            pieces.append(chr(rng.randrange(32, 127)))
        else:
            c = rng.randrange(0x80, 0x110000)
            if not 0xD800 <= c <= 0xDFFF:
                pieces.append(chr(c))
    return ''.join(pieces)


def mode_random(out: str) -> None:
    rng = random.Random(3000 + hlib.seed())
    thorough = hlib.tier() == 'thorough'
    n = 20_000 if thorough else 1_500
    w = hlib.RecWriter(out)
    for k in range(n):
        text = rand_text(rng)
        bits = rng.randrange(128)
        # bias towards options that let the text get far
        o = toklib.opts_from_bits(bits)
        if rng.random() < 0.5:
            o['star'] = True
        w.write(lex_record(text, o, big_forms(text, rng), 'random',
                           error_type=(TokenSyntaxError, KeyValError, HarnessError)[k % 3]))
        if k % 4 == 0:
            w.write(steps_record(text, o, None, 'random'))
    w.close()
    print(json.dumps({'records': w.n}))


# ------------------------------------------------------------------ long repetitive inputs
# (prefix, unit, suffix, options that must hold for the unit to mean something, options to vary)
LONG_UNITS = [
    ('', '/**/', '', {'star': True}, ['keep']),
    ('', '/* x */', '', {'star': True}, ['keep']),
    ('', '/* x */ ', '', {'star': True}, ['keep']),
    ('', '/*\n*/', '', {'star': True}, ['keep']),
    ('', '//c\n', '', {}, ['keep']),
    ('', '\n', '', {}, []),
    ('', '\r\n', '', {}, []),
    ('', ' ', '', {}, []),
    ('', '\t', '', {}, []),
    ('', '{', '', {}, []),
    ('', '}', '', {}, []),
    ('', '"a"', '', {}, ['esc']),
    ('', 'a ', '', {}, []),
    ('', 'a', '', {}, []),
    ('', '[f]', '', {}, ['sb']),
    ('', '(p)', '', {}, ['sp']),
    ('', '+', '', {}, ['plus']),
    ('', '=', '', {}, []),
    ('', ',', '', {}, []),
    ('', ':', '', {}, ['colon']),
    ('', '#', '', {}, []),
    ('', '#d ', '', {}, []),
    ('', '\ufeff', '', {}, []),
    ('"', '\\\n', '"', {'esc': True}, []),
    ('"', '\\n', '"', {}, ['esc']),
    ('"', '\r\n', '"', {}, []),
    ('(', '\n', ')', {'sp': True}, []),
    ('[', 'x', ']', {'sb': True}, []),
    ('/*', '*', '*/', {'star': True}, ['keep']),
    ('/*', '* ', '*/', {'star': True}, ['keep']),
    ('//', '/', '\n', {}, ['keep']),
]
LONG_PAIR_UNITS = ['/**/', '/* x */', '//c\n', '\n', ' ', '{', '"a"', 'a', '[f]', '(p)', '+', ',']


def long_cases(reps: list):
    for pre, unit, suf, need, vary in LONG_UNITS:
        for rep in reps:
            for bits in range(1 << len(vary)):
                o = dict(toklib.TOK_DEFAULTS, **need)
                for i, nm in enumerate(vary):
                    o[nm] = bool(bits >> i & 1)
                yield pre, unit, suf, rep, o
    for a in LONG_PAIR_UNITS:
        for b in LONG_PAIR_UNITS:
            if a == b:
                continue
            for keep in (False, True):
                o = dict(toklib.AllTrueOpts, keep=keep)
                yield '', a + b, '', reps[0], o


def long_record(pre: str, unit: str, suf: str, rep: int, o: dict, limit_s: float) -> dict:
    """One long repetitive text under three delivery forms.  Only a digest of each observation is
    logged (the token list itself is too long to be worth shipping); TLC compares the digests of the
    delivery forms with each other and judges exception type and number of cursor reads."""
    import hashlib
    import time
    text = pre + unit * rep + suf
    forms = [('str', lambda: text), ('lines', lambda: text.splitlines(keepends=True)), ('chars', lambda: list(text))]
    groups: dict = {}
    toklib.WATCHDOG_S = limit_s
    slowest = 0.0
    for name, make in forms:
        toklib._watchdog_hits[0] = 0
        t0 = time.perf_counter()
        out = toklib.tokenize(make(), o, nchars=len(text))
        slowest = max(slowest, time.perf_counter() - t0)
        dig = {'err': out['err'], 'etype': out['etype'], 'msg': out['msg'][:120], 'n': out['n'], 'ntoks': len(out['toks']),
               'digest': hashlib.sha1(json.dumps(out['toks'], separators=(',', ':')).encode()).hexdigest(),
               'tail': out['toks'][-4:]}
        key = json.dumps(dig, sort_keys=True)
        if key not in groups:
            groups[key] = dict(dig, forms=[])
        groups[key]['forms'].append(name)
    return {'k': 'long', 'pre': cps(pre), 'unit': cps(unit), 'suf': cps(suf), 'rep': rep, 'nchars': len(text), 'o': o,
            'etype': ETYPE, 'limit_s': limit_s, 'slowest_ms': int(slowest * 1000), 'outs': list(groups.values()),
            'sig': {'kind': 'long', 'action': 'tokenize', 'unit': pre + '|' + unit + '|' + suf, 'rep': rep,
                    'o': ''.join(str(int(o[n])) for n in toklib.OPT_NAMES)}}


def mode_long(out: str) -> None:
    """Totality on long repetitive inputs: every unit (and pairwise alternations) repeated 2000 times
    (thorough: also 20000), as one str / per line / per character."""
    thorough = hlib.tier() == 'thorough'
    w = hlib.RecWriter(out)
    slow = 0
    for pre, unit, suf, rep, o in long_cases([2000, 20000] if thorough else [2000]):
        rec = long_record(pre, unit, suf, rep, o, 20.0 if rep <= 2000 else 120.0)
        w.write(rec)
        if any(g['etype'] == 'Watchdog' for g in rec['outs']):
            slow += 1
            if slow >= 3:       # enough evidence of a blow-up; do not burn the budget
                break
    w.close()
    print(json.dumps({'records': w.n, 'timeouts': slow}))


# ------------------------------------------------------------------ caller operations
PUSHABLE = ['STRING', 'NEWLINE', 'BRACE_OPEN', 'PROP_FLAG', 'EOF', 'COMMA', 'DIRECTIVE']
EXPECTABLE = ['STRING', 'NEWLINE', 'BRACE_OPEN', 'BRACE_CLOSE', 'EOF', 'PROP_FLAG']


def rand_script(rng: random.Random, n: int) -> list:
    out = []
    for _ in range(n):
        r = rng.random()
        if r < 0.4:
            out.append({'op': 'call'})
        elif r < 0.55:
            out.append({'op': 'peek'})
        elif r < 0.75:
            out.append({'op': 'push', 't': rng.choice(PUSHABLE), 'v': cps(rng.choice(['', 'x', 'p q', '\n']))})
        elif r < 0.9:
            out.append({'op': 'expect', 't': rng.choice(EXPECTABLE), 'skip': rng.random() < 0.6})
        elif r < 0.95:
            out.append({'op': 'skipnl', 'n': rng.randrange(1, 4)})
        else:
            out.append({'op': 'block', 'n': rng.randrange(1, 4), 'brace': rng.random() < 0.5})
    return out


def apply_script(tok, script: list) -> dict:
    """Run caller operations on a tokenizer object; every token handed out is one result entry."""
    from srctools.tokenizer import Token
    res = []
    err, etype, msg = toklib.NO_ERR, '', ''
    toklib.watchdog_on()
    try:
        for op in script:
            if op['op'] == 'call':
                t, v = tok()
                res.append({'t': t.name, 'v': cps(v), 'l': tok.line_num})
            elif op['op'] == 'peek':
                t, v = tok.peek()
                res.append({'t': t.name, 'v': cps(v), 'l': tok.line_num})
            elif op['op'] == 'push':
                tok.push_back(Token[op['t']], uncps(op['v']))
                res.append({'t': '', 'v': [], 'l': tok.line_num})
            elif op['op'] == 'expect':
                v = tok.expect(Token[op['t']], op['skip'])
                res.append({'t': op['t'], 'v': cps(v), 'l': tok.line_num})
            elif op['op'] == 'skipnl':
                it = tok.skipping_newlines()
                for _ in range(op['n']):
                    try:
                        t, v = next(it)
                    except StopIteration:
                        res.append({'t': 'STOP', 'v': [], 'l': tok.line_num})
                        break
                    res.append({'t': t.name, 'v': cps(v), 'l': tok.line_num})
            else:
                it = tok.block('blk', consume_brace=op['brace'])
                for _ in range(op['n']):
                    try:
                        v = next(it)
                    except StopIteration:
                        res.append({'t': 'STOP', 'v': [], 'l': tok.line_num})
                        break
                    res.append({'t': 'STRING', 'v': cps(v), 'l': tok.line_num})
    except Exception as exc:  # noqa: BLE001
        err, etype, msg = toklib.classify_error(exc, TokenSyntaxError)
    finally:
        toklib.watchdog_off()
    return {'res': res, 'err': err, 'etype': etype, 'msg': msg}


def run_script(data, o: dict, script: list) -> dict:
    toklib.install_step_counter()
    return apply_script(Tokenizer(data, None, TokenSyntaxError, **toklib.opts_kwargs(o)), script)


def call_forms(text: str):
    full = (1 << max(len(text) - 1, 0)) - 1
    yield 'str', lambda: text
    yield 'lines', lambda: text.splitlines(keepends=True)
    yield f'cut:{full}', lambda: cut(text, full)
    yield f'cute:{nasty_cuts(text)}', lambda: with_empties(cut(text, nasty_cuts(text)))


def calls_record(text: str, o: dict, script: list, kind: str) -> dict:
    from srctools.tokenizer import IterTokenizer, Token
    src = toklib.tokenize(text, o, nchars=len(text))          # the plain run: the observed source stream
    groups: dict = {}
    for name, make in call_forms(text):
        toklib.set_step_limit(len(text))
        out = run_script(make(), o, script)
        key = json.dumps(out, sort_keys=True)
        if key not in groups:
            groups[key] = dict(out, forms=[])
        groups[key]['forms'].append(name)
    it = {'used': False, 'res': [], 'err': toklib.NO_ERR, 'etype': '', 'msg': ''}
    if src['err']['id'] == 'none':
        pairs = [(Token[t['t']], uncps(t['v'])) for t in src['toks'] if t['t'] != 'EOF']
        it = dict(apply_script(IterTokenizer(pairs, '', TokenSyntaxError), script), used=True)
    return {'k': 'calls', 'text': cps(text), 'o': o, 'fold': toklib.fold_table(text), 'etype': ETYPE,
            'script': script, 'src': {'toks': src['toks'], 'err': src['err'], 'etype': src['etype']},
            'outs': list(groups.values()), 'iter': it,
            'sig': {'kind': kind, 'action': 'call/peek/push_back/expect',
                    'ops': ','.join(sorted({op['op'] for op in script}))}}


CALL_TEXTS = ['a "b"\n{ x [f]\r\n}', '"k" "v" [!f]\n', '"{" "}" ({x}) "{0}" [{] "a{b"', '\n\n a \n', '"unterminated', 'a // c\n b', '{ } , =', '', 'a ]']


def mode_calls(out: str) -> None:
    rng = random.Random(5000 + hlib.seed())
    thorough = hlib.tier() == 'thorough'
    w = hlib.RecWriter(out)
    basic = [{'op': 'call'}, {'op': 'peek'}, {'op': 'push', 't': 'STRING', 'v': cps('p')},
             {'op': 'push', 't': 'NEWLINE', 'v': cps('zz')}, {'op': 'expect', 't': 'STRING', 'skip': True},
             {'op': 'expect', 't': 'NEWLINE', 'skip': True}, {'op': 'expect', 't': 'BRACE_OPEN', 'skip': False}]
    n_exh = 0
    for text in CALL_TEXTS[:9 if thorough else 3]:
        for n in range(1, 4):
            for tup in itertools.product(basic, repeat=n):
                w.write(calls_record(text, toklib.KV_OPTS, list(tup) + [{'op': 'call'}], 'calls-exh'))
                n_exh += 1
    # push-back depth 2-3 of every order of NEWLINE / STRING / { / }, then one consumer, then drain
    pushes = [{'op': 'push', 't': 'NEWLINE', 'v': []}, {'op': 'push', 't': 'STRING', 'v': cps('p')},
              {'op': 'push', 't': 'BRACE_OPEN', 'v': []}, {'op': 'push', 't': 'BRACE_CLOSE', 'v': []}]
    consumers = [{'op': 'expect', 't': 'STRING', 'skip': True}, {'op': 'expect', 't': 'STRING', 'skip': False},
                 {'op': 'expect', 't': 'BRACE_OPEN', 'skip': True}, {'op': 'expect', 't': 'BRACE_CLOSE', 'skip': True},
                 {'op': 'peek'}, {'op': 'block', 'n': 3, 'brace': True}, {'op': 'block', 'n': 3, 'brace': False},
                 {'op': 'skipnl', 'n': 3}]
    drain = [{'op': 'call'}] * 4
    for text in (['a "b"\n{ x [f]\r\n}', '', '\n\n c \n'] + (CALL_TEXTS[1:] if thorough else [])):
        for depth in (2, 3):
            for tup in itertools.product(pushes, repeat=depth):
                for cons in consumers:
                    w.write(calls_record(text, toklib.KV_OPTS, list(tup) + [cons] + drain, 'calls-stack'))
                    n_exh += 1
    for _ in range(20_000 if thorough else 1_500):
        text = rng.choice(CALL_TEXTS) if rng.random() < 0.3 else rand_text(rng)[:40]
        o = toklib.opts_from_bits(rng.randrange(128))
        w.write(calls_record(text, o, rand_script(rng, rng.randrange(1, 16)), 'calls-random'))
    w.close()
    print(json.dumps({'records': w.n, 'exhaustive': n_exh}))


# ------------------------------------------------------------------ Keyvalues.parse
def kv_tree(kv) -> list:
    if kv.has_children():
        return [kv.real_name, kv.line_num, [kv_tree(c) for c in kv]]
    return [kv.real_name, kv.line_num, kv.value]


POPT_NAMES = ('single_line', 'single_block', 'newline_keys', 'newline_values', 'allow_escapes')
POPT_DEFAULT = {'single_line': False, 'single_block': False, 'newline_keys': False, 'newline_values': True, 'allow_escapes': True}


def kv_outcome(data, flags: dict, nchars: int = 1 << 40, popts: dict | None = None) -> dict:
    toklib.install_step_counter()
    toklib.set_step_limit(nchars)
    toklib.watchdog_on()
    try:
        tree = Keyvalues.parse(data, flags=flags, **(popts or {}))
        toklib.watchdog_off()
        return {'etype': '', 'err': toklib.NO_ERR, 'msg': '', 'where': '',
                'tree': json.dumps(kv_tree(tree), separators=(',', ':'))}
    except Exception as exc:  # noqa: BLE001 - every exception type is an observation
        toklib.watchdog_off()
        err, etype, msg = toklib.classify_error(exc, KeyValError)
        tb = traceback.extract_tb(exc.__traceback__)[-1]
        where = f'{os.path.basename(tb.filename)}:{tb.name}:{(tb.line or "").strip()}' if etype != 'KeyValError' else ''
        return {'etype': etype, 'err': err, 'msg': msg, 'where': where, 'tree': ''}


def kv_record(text: str, flags: dict, rng: random.Random, kind: str, popts: dict | None = None) -> dict:
    popts = dict(POPT_DEFAULT, **(popts or {}))
    forms = list(small_forms(text)) if len(text) <= 5 else list(big_forms(text, rng))
    groups: dict = {}
    for name, make in forms:
        out = kv_outcome(make(), flags, len(text), popts)
        key = json.dumps(out, sort_keys=True)
        if key not in groups:
            groups[key] = dict(out, forms=[])
        groups[key]['forms'].append(name)
    outs = list(groups.values())
    for g in outs:
        g['nforms'] = len(g['forms'])
        g['forms'] = g['forms'][:6]
    first = outs[0]
    bad = next((g for g in outs if g['etype'] not in ('', 'KeyValError')), first)
    return {'k': 'kv', 'text': cps(text), 'o': dict(toklib.KV_OPTS, esc=popts['allow_escapes']), 'fold': toklib.fold_table(text),
            'flags': sorted(k for k, v in flags.items() if v), 'popts': popts, 'outs': outs,
            'sig': {'kind': kind, 'action': 'Keyvalues.parse', 'etype': bad['etype'], 'where': bad['where'],
                    'single_block': popts['single_block']}}


def rand_popts(rng: random.Random) -> dict:
    if rng.random() < 0.5:
        return dict(POPT_DEFAULT)
    return {n: (rng.random() < 0.5) for n in POPT_NAMES}


KV_TOKENS = ['"{"', '"{x}"', '"}"', 'a', '"b c"', 'x', '[on]', '[!on]', '[off]', '{', '}', '\n', '\r\n', '//c\n', '"v\\n"', '"', '[', '/', "'", '#d', '(p)']
KV_CORE = ['a', '"b"', '[on]', '[!on]', '{', '}', '\n']


def soup(tokens, rng: random.Random | None = None) -> str:
    out = []
    for t in tokens:
        out.append(t)
        if t[-1] not in '\n' and (rng is None or rng.random() < 0.8):
            out.append(' ')
    return ''.join(out)


def kv_doc(rng: random.Random, depth: int = 0) -> list:
    """Tokens of a mostly well-formed KeyValues1 document with [flags] on leaves and blocks."""
    toks = []
    for _ in range(rng.randrange(0, 4 if depth else 5)):
        name = rng.choice(['a', 'b', '"k k"', 'a'])
        flag = [rng.choice(['[on]', '[!on]', '[off]', '[!off]', '[$X360]', '[!$X360]'])] if rng.random() < 0.45 else []
        if rng.random() < 0.5 or depth >= 3:
            toks += [name, rng.choice(['v', '"w w"', '""'])] + flag + ['\n']
        else:
            toks += [name] + flag + ['\n', '{'] + (['\n'] if rng.random() < 0.8 else [])
            toks += kv_doc(rng, depth + 1)
            toks += ['}'] + (['\n'] if rng.random() < 0.9 else [])
    return toks


def kv_mutate(toks: list, rng: random.Random) -> list:
    toks = list(toks)
    for _ in range(rng.choice((0, 0, 1, 1, 2, 3))):
        r = rng.random()
        if r < 0.3 and toks:
            del toks[rng.randrange(len(toks))]
        elif r < 0.5 and toks:
            k = rng.randrange(len(toks))
            toks.insert(k, toks[k])
        elif r < 0.7 and len(toks) > 1:
            k = rng.randrange(len(toks) - 1)
            toks[k], toks[k + 1] = toks[k + 1], toks[k]
        else:
            toks.insert(rng.randrange(len(toks) + 1), rng.choice(KV_TOKENS))
    return toks


def mode_kvsoup(out: str) -> None:
    rng = random.Random(4000 + hlib.seed())
    thorough = hlib.tier() == 'thorough'
    w = hlib.RecWriter(out)
    flags = {'on': True, 'off': False}
    exh = 5 if thorough else 4
    n_exh = 0
    for n in range(exh + 1):
        for tup in itertools.product(KV_CORE, repeat=n):
            w.write(kv_record(soup(tup), flags, rng, 'kvsoup'))
            n_exh += 1
            if n <= 3 or thorough:
                w.write(kv_record(soup(tup), flags, rng, 'kvsoup', {'single_block': True, 'single_line': n % 2 == 0}))
                n_exh += 1
    # a value token right where the parser expects the end of the line (the expect() helper)
    for text in ['a b [on] "{"\n', 'a [on] "{x}"\n{\n}\n', 'a b [on] "}"', 'a b [on] "{0}"\n', 'a [!on] "{"\n{\n}\n']:
        w.write(kv_record(text, flags, rng, 'kvfixed'))
    for _ in range(20_000 if thorough else 1_200):
        toks = [rng.choice(KV_CORE if rng.random() < 0.7 else KV_TOKENS) for _ in range(rng.randrange(5, 14))]
        w.write(kv_record(soup(toks, rng), flags, rng, 'kvsoup', rand_popts(rng)))
    for _ in range(30_000 if thorough else 2_000):
        w.write(kv_record(soup(kv_mutate(kv_doc(rng), rng), rng), flags, rng, 'kvdoc', rand_popts(rng)))
    for _ in range(4_000 if thorough else 400):
        w.write(kv_record(rand_text(rng), flags, rng, 'kvrandom', rand_popts(rng)))
    w.close()
    print(json.dumps({'records': w.n, 'exhaustive': n_exh}))


def mode_replay(path: str, out: str) -> None:
    rep = json.load(open(path, encoding='utf-8'))
    r = rep['record']
    rng = random.Random(0)
    w = hlib.RecWriter(out)
    text = uncps(r.get('text', []))
    if r['k'] == 'lex':
        forms = small_forms(text) if len(text) <= 6 else big_forms(text, rng)
        w.write(lex_record(text, r['o'], forms, rep.get('kind', 'replay')))
    elif r['k'] == 'steps':
        w.write(steps_record(text, r['o'], r['edge'] if r['edge']['k'] else None, rep.get('kind', 'replay')))
    elif r['k'] == 'long':
        w.write(long_record(uncps(r['pre']), uncps(r['unit']), uncps(r['suf']), r['rep'], r['o'], r['limit_s']))
        w.close()
        return
    elif r['k'] == 'calls':
        w.write(calls_record(text, r['o'], r['script'], rep.get('kind', 'replay')))
    elif r['k'] == 'kv':
        w.write(kv_record(text, {f: True for f in r['flags']}, rng, rep.get('kind', 'replay'), r.get('popts')))
    elif r['k'] == 'cursor':
        chunks = None if r['str'] else [uncps(c) for c in r['chunks']]
        src = CountIter(chunks) if chunks is not None else None
        tok = Tokenizer(src if src is not None else text)
        ops = []
        for op in r['ops']:
            if op['op'] == 'next':
                c = tok._next_char()
                res = ord(c) if c is not None else -1
            else:
                tok._char_index -= 1
                res = 0
            ops.append({'op': op['op'], 'res': res, 'it': src.count if src is not None else 0,
                        'idx': tok._char_index, 'cur': cps(tok._cur_chunk)})
        w.write(dict(r, ops=ops, sig={'kind': rep.get('kind', 'replay'), 'action': 'cursor'}))
    w.close()


if __name__ == '__main__':
    warnings.simplefilter('ignore')
    mode = sys.argv[1]
    {'family': mode_family, 'all128': mode_all128, 'edges': mode_edges, 'cursor': mode_cursor, 'random': mode_random,
     'kvsoup': mode_kvsoup, 'calls': mode_calls, 'long': mode_long, 'replay': mode_replay}[mode](*sys.argv[2:])
