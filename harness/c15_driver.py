"""C15 driver: VTF construction, save, read, pixel access on the real srctools.vtf objects.

Modes
  edges <edges.json> <pix|layout> <out>   replay every TLC-enumerated transition of VtfLayout:
                                          k=ctor per Create, k=access per GetPixel/SetPixel,
                                          k=rt (two variants) per Save
  (edges of the history family: k=hist per Resave - read, load/look/compute/clear, save, read)
  synth <out>                             files laid out by the harness for every format incl. the
                                          compressed ones, read by VTF.read (k=synth)
  random <out>                            seeded random textures far outside the model bounds (k=rt)
  replay <replay.json> <out>              re-execute the case stored in a replay file

Python only runs srctools, projects and serialises; the saved bytes are parsed by an independent
reader of the header / resource table written from the format description.  TLC (VtfLayoutTrace)
produces every verdict.
"""
from __future__ import annotations

import io
import json
import random
import struct
import sys

from vlib import hlib

hlib.require_repo_src()
from srctools.vtf import (  # noqa: E402
    VTF, CubeSide, Frame, ImageFormats, Resource, ResourceID, SheetSequence, TexCoord, VTFFlags,
)

EXACT4 = {'RGBA8888', 'ABGR8888', 'ARGB8888', 'BGRA8888', 'UVWQ8888', 'UVLX8888'}
DEPTH_OF = {'d1': 1, 'd2': 2, 'd4': 4, 'cube': 1}
FMT_INFO = {  # name -> (index on disk (ASW numbering), bits, compressed); written down independently
    'RGBA8888': (0, 32, 0), 'ABGR8888': (1, 32, 0), 'RGB888': (2, 24, 0), 'BGR888': (3, 24, 0), 'RGB565': (4, 16, 0),
    'I8': (5, 8, 0), 'IA88': (6, 16, 0), 'P8': (7, 0, 0), 'A8': (8, 8, 0), 'RGB888_BLUESCREEN': (9, 24, 0),
    'BGR888_BLUESCREEN': (10, 24, 0), 'ARGB8888': (11, 32, 0), 'BGRA8888': (12, 32, 0), 'DXT1': (13, 64, 1),
    'DXT3': (14, 128, 1), 'DXT5': (15, 128, 1), 'BGRX8888': (16, 32, 0), 'BGR565': (17, 16, 0), 'BGRX5551': (18, 16, 0),
    'BGRA4444': (19, 16, 0), 'DXT1_ONEBITALPHA': (20, 64, 1), 'BGRA5551': (21, 16, 0), 'UV88': (22, 16, 0),
    'UVWQ8888': (23, 32, 0), 'RGBA16161616F': (24, 64, 0), 'RGBA16161616': (25, 64, 0), 'UVLX8888': (26, 32, 0),
    'NONE': (-1, 0, 0), 'ATI1N': (35, 64, 1), 'ATI2N': (34, 128, 1),
}


def f32(x: float) -> str:
    """Float32 bit pattern as text (TLC compares these as opaque strings)."""
    return struct.pack('<f', x).hex()


# ------------------------------------------------------------------ independent reader of the bytes
def parse_vtf(data: bytes) -> dict:
    try:
        if data[:4] != b'VTF\0':
            raise ValueError('signature')
        major, minor = struct.unpack_from('<II', data, 4)
        if major != 7:
            raise ValueError('major version')
        (hsize, w, h, flags, frames, first, r0, r1, r2, bump, fmt, mip, low, lw, lh) = struct.unpack_from(
            '<IHHIHH4x3f4xfiBiBB', data, 12)
        pos = 12 + 51
        depth = 1
        if minor >= 2:
            depth, = struct.unpack_from('<H', data, pos)
            pos += 2
        entries = []
        nres = 0
        if minor >= 3:
            nres, = struct.unpack_from('<3xI8x', data, pos)
            pos += 15
            if nres > 64:
                raise ValueError(f'{nres} resources')
            for _ in range(nres):
                rid, rfl, rdata = struct.unpack_from('<3sBI', data, pos)
                pos += 8
                # a data resource points at a block "u32 size, bytes"; what stands there is logged so
                # that the entry is judged by what a reader finds, wherever the writer put the block
                blk = {'size': -1, 'hex': ''}
                if not rfl & 0x02 and rid not in (b'\x01\0\0', b'\x30\0\0') and 0 <= rdata <= len(data) - 4:
                    size, = struct.unpack_from('<I', data, rdata)
                    if rdata + 4 + size <= len(data):
                        blk = {'size': size, 'hex': data[rdata + 4: rdata + 4 + size].hex() if rid != b'\x10\0\0' else ''}
                entries.append({'id': rid.hex(), 'flags': rfl, 'data': rdata, 'blk': blk})
        else:
            pos += 15
        if hsize < pos or hsize > len(data):
            raise ValueError(f'header size field {hsize}, table ends at {pos}, file has {len(data)} bytes')
        return {'err': '', 'minor': minor, 'hsize': hsize, 'w': w, 'h': h, 'frames': frames, 'fmt': fmt, 'mip': mip,
                'low': low, 'lw': lw, 'lh': lh, 'depth': depth, 'nres': nres, 'entries': entries, 'len': len(data),
                'meta': [format(flags, 'x'), first, f32(r0), f32(r1), f32(r2), f32(bump)]}
    except (struct.error, ValueError) as exc:
        return {'err': f'{type(exc).__name__}: {exc}'}


# ------------------------------------------------------------------ projections
def slice_index(s) -> int:
    return s.value if isinstance(s, CubeSide) else int(s)


def frame_keys(vtf: VTF) -> dict:
    """The frame table as the public API shows it: VTF.get() probed for every frame, depth layer or
    cube face and mipmap level (a KeyError means "no such frame"); len(vtf) must agree."""
    cube = VTFFlags.ENVMAP in vtf.flags
    out = {}
    for f in range(vtf.frame_count):
        for s in (list(CubeSide) if cube else range(max(vtf.depth, 1))):
            for m in range(16):
                try:
                    fr = vtf.get(frame=f, side=s, mipmap=m) if cube else vtf.get(frame=f, depth=s, mipmap=m)
                except KeyError:
                    continue
                out[(f, slice_index(s), m)] = fr
    if len(vtf) != len(out):
        out[(-1, -1, -1)] = None          # frames the probing cannot reach: shows up as a key mismatch
    return out


def slice_count(c: dict) -> int:
    return (6 if c['minor'] >= 5 else 7) if c['cube'] else c['depth']


def layout_offsets(hdr: dict, c: dict) -> dict:
    """Where the format puts every image of the file: the harness's own walk over the header fields
    (image block offset from the resource table, or header size + thumbnail before 7.3; smallest
    mipmap first, then frames, then faces / depth layers).  TLC checks it against VtfLayoutOps."""
    bits, comp = FMT_INFO[c['fmt']][1], FMT_INFO[c['fmt']][2]
    if hdr['minor'] >= 3:
        pos = next(e['data'] for e in hdr['entries'] if e['id'] == '300000')
    else:
        lbits, lcomp = FMT_INFO[c['low']][1], FMT_INFO[c['low']][2]
        lsize = (lbits * ((hdr['lw'] + 3) // 4) * ((hdr['lh'] + 3) // 4) // 8 if lcomp else lbits * hdr['lw'] * hdr['lh'] // 8) if c['low'] != 'NONE' else 0
        pos = hdr['hsize'] + lsize
    out = {}
    for m in reversed(range(hdr['mip'])):
        w, h = max(1, hdr['w'] >> m), max(1, hdr['h'] >> m)
        size = bits * ((w + 3) // 4) * ((h + 3) // 4) // 8 if comp else bits * w * h // 8
        for f in range(hdr['frames']):
            for sl in range(slice_count(c)):
                out[f, sl, m] = (pos, size)
                pos += size
    return out


def proj_keys(vtf: VTF, offs: dict | None) -> list:
    out = []
    for (f, s, m), frame in frame_keys(vtf).items():
        row = [f, s, m, frame.width if frame else 0, frame.height if frame else 0]
        if offs is not None:
            row.append(offs.get((f, s, m), (-1, 0))[0])
        out.append(row)
    return sorted(out)


def proj_res(vtf: VTF) -> list:
    out = []
    for rid, res in vtf.resources.items():
        raw = bytes(getattr(rid, 'value', rid))
        if isinstance(res.data, bytes):
            out.append({'id': raw.hex(), 'inline': False, 'flags': res.flags, 'val': 0, 'len': len(res.data), 'hex': res.data.hex()})
        else:
            out.append({'id': raw.hex(), 'inline': True, 'flags': res.flags, 'val': res.data, 'len': 0, 'hex': ''})
    return out


def proj_sheet(vtf: VTF) -> list:
    def tc(t: TexCoord) -> list:
        return [f32(t.left), f32(t.top), f32(t.right), f32(t.bottom)]
    return [{'n': n, 'clamp': bool(seq.clamp), 'dur': f32(seq.duration),
             'frames': [{'t': f32(fr[0]), 'a': tc(fr[1]), 'b': tc(fr[2]), 'c': tc(fr[3]), 'd': tc(fr[4])} for fr in seq.frames]}
            for n, seq in vtf.sheet_info.items()]


def proj_cfg(vtf: VTF, sheet_ver: int, fill: str) -> dict:
    return {'w': vtf.width, 'h': vtf.height, 'frames': vtf.frame_count, 'depth': vtf.depth,
            'cube': VTFFlags.ENVMAP in vtf.flags, 'fill': fill, 'minor': vtf.version[1], 'fmt': vtf.format.name,
            'low': vtf.low_format.name, 'lw': 16, 'lh': 16, 'mip': vtf.mipmap_count,
            'res': proj_res(vtf),
            'sheet': {'has': bool(vtf.sheet_info), 'ver': sheet_ver if vtf.sheet_info else 0,
                      'seqs': [len(s.frames) for s in vtf.sheet_info.values()]}}


def proj_meta(vtf: VTF) -> list:
    return [format(vtf.flags.value, 'x'), vtf.first_frame_index, f32(vtf.reflectivity.x), f32(vtf.reflectivity.y),
            f32(vtf.reflectivity.z), f32(vtf.bumpmap_scale)]


def low_offset(hdr: dict) -> int:
    """Where a reader finds the low-res image: its resource entry, or right after the header before 7.3."""
    for e in hdr.get('entries', []):
        if e['id'] == '010000':
            return e['data']
    return hdr['hsize']


def frame_bytes(frame) -> bytes:
    """The RGBA pixels of a frame through its public buffer interface."""
    return memoryview(frame).tobytes()


def pixels_of(frame) -> list:
    d = frame_bytes(frame)
    return [[d[i], d[i + 1], d[i + 2], d[i + 3]] for i in range(0, len(d), 4)]


# ------------------------------------------------------------------ building
SPECIAL = [(0, 0, 255, 255), (0, 0, 255, 0), (255, 255, 255, 127), (255, 255, 255, 128), (7, 3, 7, 255), (8, 4, 8, 129),
           (250, 253, 249, 1), (0, 0, 0, 0), (255, 0, 0, 255), (1, 2, 3, 4)]


def rand_image(rng: random.Random, n: int) -> bytes:
    out = bytearray()
    for _ in range(n):
        out += bytes(rng.choice(SPECIAL) if rng.random() < 0.35 else (rng.randrange(256), rng.randrange(256), rng.randrange(256), rng.randrange(256)))
    return bytes(out)


def slices_of(vtf: VTF) -> list:
    """Depth layers, or the cube faces the version has (the sphere map ended with 7.4)."""
    if VTFFlags.ENVMAP in vtf.flags:
        return [s for s in CubeSide if s is not CubeSide.SPHERE or vtf.version[1] < 5]
    return list(range(vtf.depth))


def frame_of(vtf: VTF, f: int, s, m: int):
    if isinstance(s, CubeSide):
        return vtf.get(frame=f, side=s, mipmap=m)
    return vtf.get(frame=f, depth=s, mipmap=m)


def make_vtf(a: dict, rng: random.Random) -> VTF:
    flags = VTFFlags.ENVMAP if a['lay'] == 'cube' else VTFFlags.EMPTY
    flags |= rng.choice([VTFFlags.EMPTY, VTFFlags.CLAMP_S | VTFFlags.NO_MIP, VTFFlags.TRILINEAR, VTFFlags.SS_BUMP | VTFFlags.BORDER,
                         VTFFlags(0x40000000)])
    ref = [rng.randint(-64, 64) / 64.0 for _ in range(3)]
    vtf = VTF(a['w'], a['h'], version=(7, a['minor']), ref=tuple(ref), frames=a['frames'],
              bump_scale=rng.randint(0, 512) / 128.0, flags=flags, fmt=ImageFormats[a['fmt']],
              thumb_fmt=ImageFormats[a['low']], depth=DEPTH_OF[a['lay']])
    vtf.first_frame_index = rng.choice([0, 0, 1])
    return vtf


def fill_vtf(vtf: VTF, fill: str, rng: random.Random) -> dict:
    """Give pixel data to level 0 ('l0'), to every level ('all') or to levels 0 and 2 ('mid'); the
    other levels are left to compute_mipmaps.  Returns key -> bytes given."""
    given = {}
    levels = sorted({m for (_, _, m) in frame_keys(vtf)})
    for f in range(vtf.frame_count):
        for s in slices_of(vtf):
            for m in levels:
                if m == 0 or fill == 'all' or (fill == 'mid' and m == 2):
                    fr = frame_of(vtf, f, s, m)
                    img = rand_image(rng, fr.width * fr.height)
                    fr.copy_from(img, ImageFormats.RGBA8888)
                    given[(f, slice_index(s), m)] = img
    return given


def apply_res(vtf: VTF, r: dict, rng: random.Random) -> None:
    raw = bytes.fromhex(r['id'])
    try:
        rid = ResourceID(raw)
    except ValueError:
        rid = raw
    if r['inline']:
        vtf.resources[rid] = Resource(r['flags'], r['val'])
    else:
        vtf.resources[rid] = Resource(r['flags'], bytes(rng.randrange(256) for _ in range(r['len'])))


def apply_sheet(vtf: VTF, seqs: list, rng: random.Random) -> None:
    nums = rng.sample(range(64), len(seqs))
    for n, cnt in zip(nums, seqs):
        frames = []
        for _ in range(cnt):
            tcs = [TexCoord(*[rng.randint(0, 256) / 256.0 for _ in range(4)]) for _ in range(4)]
            frames.append((rng.randint(1, 400) / 16.0, tcs[0], tcs[1], tcs[2], tcs[3]))
        vtf.sheet_info[n] = SheetSequence(frames, rng.random() < 0.5, rng.randint(0, 1000) / 8.0)


def build(path: list, rng_seed: int):
    """Real VTF along a path of model actions.  Returns (vtf, sheet version, fill, given pixels)."""
    rng = random.Random(rng_seed)
    vtf = None
    sheet_ver = 0
    fill = 'l0'
    for a in path:
        if a['op'] == 'create':
            vtf = make_vtf(a, rng)
            fill = a['fill']
        elif a['op'] == 'resource':
            apply_res(vtf, a['r'], rng)
        elif a['op'] == 'sheet':
            apply_sheet(vtf, a['seqs'], rng)
            sheet_ver = a['ver']
    given = fill_vtf(vtf, fill, rng)
    return vtf, sheet_ver, fill, given


# ------------------------------------------------------------------ one save / read
def round_trip(vtf: VTF, sheet_ver: int, fill: str, given: dict, variant: str, with_pix: bool, src: str) -> dict:
    pre_keys = frame_keys(vtf)
    levels = len({m for (_, _, m) in pre_keys})
    if variant == 'adj':
        vtf.mipmap_count = levels         # a texture whose header count matches its table (as one read from a file has)
    c = proj_cfg(vtf, sheet_ver, fill)
    meta = proj_meta(vtf)
    sheet_in = proj_sheet(vtf)
    rec = {'k': 'rt', 'c': c, 'variant': variant, 'levels': levels, 'meta': meta, 'sheet': sheet_in, 'exc': '',
           'hdr': {'err': '-'}, 'out': 0, 'pix': [], 'exact': -1, 'resave': True, 'low2': []}
    sig = {'kind': 'rt', 'action': 'save', 'variant': variant, 'fmt': c['fmt'], 'low': c['low'], 'minor': c['minor'],
           'cube': c['cube'], 'src': src, 'thin': min(c['w'], c['h']) == 1, 'has_res': bool(c['res']),
           'sheet_ver': sheet_ver if c['sheet']['has'] else -1}
    rec['sig'] = sig
    try:
        buf = io.BytesIO()
        vtf.save(buf, sheet_seq_version=sheet_ver)
        data = buf.getvalue()
        hdr = rec['hdr'] = parse_vtf(data)
        if hdr['err']:
            raise ValueError('written header unreadable: ' + hdr['err'])
        c['lw'], c['lh'] = hdr['lw'], hdr['lh']          # the thumbnail's size is observable in the file only
        offs = layout_offsets(hdr, c)
        back = VTF.read(io.BytesIO(data))
        out_c = proj_cfg(back, sheet_ver, fill)
        out_c['lw'], out_c['lh'] = hdr['lw'], hdr['lh']
        rec['out'] = {'c': out_c, 'keys': proj_keys(back, offs), 'meta': proj_meta(back), 'sheet': proj_sheet(back)}
        back_keys = frame_keys(back)
        back.load()
        lsize = FMT_INFO[c['low']][1] * c['lw'] * c['lh'] // 8 if c['low'] != 'NONE' else 0
        lo = low_offset(hdr)
        if c['low'] != 'NONE':
            rec['low2'] = list(data[lo: lo + lsize])
        if with_pix:
            for key in sorted(pre_keys):
                fr = pre_keys[key]
                saved = key in back_keys and key in offs
                raw = list(data[offs[key][0]: offs[key][0] + offs[key][1]]) if saved else []
                outp = pixels_of(back_keys[key]) if saved else []
                img = given.get(key)
                rec['pix'].append({'k': list(key), 'w': fr.width, 'h': fr.height, 'given': img is not None,
                                   'inp': [list(img[i:i + 4]) for i in range(0, len(img), 4)] if img is not None else [],
                                   'saved': saved, 'raw': raw, 'out': outp})
        elif c['fmt'] in EXACT4:
            for key, img in sorted(given.items()):
                if key in back_keys:
                    got = frame_bytes(back_keys[key])
                    if got != img:
                        rec['exact'] = next((i for i in range(min(len(img), len(got))) if got[i] != img[i]), 0)
                        break
        try:
            buf2 = io.BytesIO()
            back.save(buf2, sheet_seq_version=sheet_ver)
            again = buf2.getvalue()
            # "storing them again changes nothing": header, resource blocks and the image block are
            # compared; the thumbnail is regenerated from the (now quantised) main image on every
            # save and is not part of the claim
            rec['resave'] = len(again) == len(data) and again[:lo] == data[:lo] and again[lo + lsize:] == data[lo + lsize:]
        except Exception as exc:  # noqa: BLE001 - a file that cannot be saved again is "not identical"
            rec['resave'] = False
            sig['resave_exc'] = type(exc).__name__
    except Exception as exc:  # noqa: BLE001 - the outcome is data for the specification
        rec['exc'] = f'{type(exc).__name__}: {exc}'
        sig['exc'] = type(exc).__name__
    return rec


def variant_record(path: list, case_seed: int, variant: str, with_pix: bool, src: str) -> dict:
    """asis: the texture as constructed; adj: with the declared mipmap count equal to its levels;
    regen: the adj file read back, clear_mipmaps() called, saved again - every level below the
    first must then be the average chain of the (already quantised) first level."""
    vtf, ver, fill, given = build(path, case_seed)
    if variant != 'regen':
        return round_trip(vtf, ver, fill, given, variant, with_pix, src)
    vtf.mipmap_count = len({m for (_, _, m) in frame_keys(vtf)})
    buf = io.BytesIO()
    vtf.save(buf, sheet_seq_version=ver)
    buf.seek(0)
    back = VTF.read(buf)
    back.load()
    back.clear_mipmaps()
    given2 = {key: frame_bytes(fr) for key, fr in frame_keys(back).items() if key[2] == 0}
    return round_trip(back, ver, 'l0', given2, 'regen', with_pix, src)


def strip(v: dict) -> dict:
    """The model state without what only the driver knows (resource payloads)."""
    c = dict(v)
    c['res'] = [{k: x for k, x in r.items() if k != 'hex'} for r in v['res']]
    return c


def replay_edges(edge_file: str, mode: str, out: hlib.RecWriter, stats: dict) -> None:
    edges = [e for e in json.load(open(edge_file)) if e.get('tag') == 'EDGE']
    key = lambda s: json.dumps(s, sort_keys=True)
    history = any(e['a']['op'] == 'resave' for e in edges)
    build_ops = ('create', 'resource', 'sheet') + (('save', 'read', 'load', 'loadall', 'look', 'poke', 'compute', 'clear') if history else ())
    build_edges = [e for e in edges if e['a']['op'] in build_ops]
    paths = hlib.bfs_paths(build_edges, key)
    seed = hlib.seed()
    for n, e in enumerate(edges):
        a = e['a']
        op = a['op']
        case_seed = seed * 1000003 + n
        if history:
            if op == 'resave':
                path = paths[key(e['s'])]
                ops = []
                for p in path:
                    if p['op'] == 'poke':
                        prng = random.Random(case_seed * 31 + len(ops))
                        ops.append({'op': 'poke', 'm': p['m'], 'px': [prng.randrange(256) for _ in range(4)]})
                    elif p['op'] in ('load', 'loadall', 'look', 'compute', 'clear'):
                        ops.append(p)
                rec = hist_record(hist_cfg(path[0]), ops, case_seed, 'edge')
                out.write(rec)
                stats['resaves'] = stats.get('resaves', 0) + 1
            continue
        if op == 'create':
            vtf = make_vtf(a, random.Random(case_seed))
            c = {'w': a['w'], 'h': a['h'], 'frames': a['frames'], 'depth': DEPTH_OF[a['lay']], 'cube': a['lay'] == 'cube',
                 'minor': a['minor'], 'fmt': a['fmt'], 'low': a['low']}
            out.write({'k': 'ctor', 'c': c, 'keys': proj_keys(vtf, None), 'mip': vtf.mipmap_count, 'hist': [a], 'seed': case_seed,
                       'sig': {'kind': 'ctor', 'action': 'create', 'src': 'edge', 'thin': min(a['w'], a['h']) == 1}})
            stats['ctor'] = stats.get('ctor', 0) + 1
            got = strip(proj_cfg(vtf, 0, a['fill']))
            got['mip'] = e['t']['v']['mip']          # the declared count is judged by TLC (ctor.mipcount), not here
            if got != e['t']['v']:
                stats['pre_state_diverged'] = stats.get('pre_state_diverged', 0) + 1
        elif op in ('resource', 'sheet'):
            path = paths[key(e['s'])] + [a]
            vtf, ver, fill, _ = build(path, case_seed)
            got = strip(proj_cfg(vtf, ver, fill))
            got['mip'] = e['t']['v']['mip']
            if got != e['t']['v']:
                stats['pre_state_diverged'] = stats.get('pre_state_diverged', 0) + 1
            stats['res_steps'] = stats.get('res_steps', 0) + 1
        elif op in ('get', 'set'):
            path = paths[key(e['s'])]
            out.write(access_record(path, case_seed, op, a['x'], a['y']))
            stats['access'] = stats.get('access', 0) + 1
        elif op == 'save':
            path = paths[key(e['s'])]
            fill0 = path[0]['fill']
            for variant in ('asis', 'adj') + (('regen',) if mode == 'pix' and fill0 != 'l0' else ()):
                rec = variant_record(path, case_seed, variant, mode == 'pix', 'edge')
                rec['hist'] = path
                rec['seed'] = case_seed
                rec['mode'] = mode
                out.write(rec)
            stats['saves'] = stats.get('saves', 0) + 1


def access_record(path: list, case_seed: int, op: str, x: int, y: int) -> dict:
    vtf, _, _, given = build(path, case_seed)
    fr = vtf.get()
    w, h = fr.width, fr.height
    before = frame_bytes(fr)
    raised = False
    exc = ''
    val_ok = False
    new = (9, 8, 7, 6)
    try:
        if op == 'get':
            px = fr[x, y]
            val_ok = 0 <= x < w and 0 <= y < h and tuple(px) == tuple(before[4 * (y * w + x): 4 * (y * w + x) + 4])
        else:
            fr[x, y] = new
            after = frame_bytes(fr)
            if 0 <= x < w and 0 <= y < h:
                off = 4 * (y * w + x)
                val_ok = after[off:off + 4] == bytes(new) and after[:off] == before[:off] and after[off + 4:] == before[off + 4:]
    except Exception as e:  # noqa: BLE001
        raised = True
        exc = type(e).__name__
    unchanged = frame_bytes(fr) == before
    return {'k': 'access', 'w': w, 'h': h, 'x': x, 'y': y, 'op': op, 'raised': raised, 'exc': exc, 'val_ok': val_ok,
            'unchanged': unchanged, 'hist': path, 'seed': case_seed,
            'sig': {'kind': 'access', 'action': op, 'src': 'edge', 'exc': exc,
                    'where': ('neg' if x < 0 or y < 0 else 'edge' if x == w or y == h else 'beyond' if x > w or y > h else 'in')}}


# ------------------------------------------------------------------ synthesised files (reader only)
def synth_file(c: dict, contents: dict | None = None, low_bytes: bytes | None = None) -> bytes:
    """A VTF laid out by hand from the format description; images zero filled, or the bytes given
    per (frame, slice, mipmap)."""
    ind, bits, comp = FMT_INFO[c['fmt']]
    lind, lbits, lcomp = FMT_INFO[c['low']]

    def size(bits_: int, comp_: int, w: int, h: int) -> int:
        return bits_ * ((w + 3) // 4) * ((h + 3) // 4) // 8 if comp_ else bits_ * w * h // 8
    slices = (6 if c['minor'] >= 5 else 7) if c['cube'] else c['depth']
    low = bytes(size(lbits, lcomp, c['lw'], c['lh'])) if c['low'] != 'NONE' else b''
    if low_bytes is not None:
        assert len(low_bytes) == len(low), (len(low_bytes), len(low))
        low = low_bytes
    hi = b''
    for m in reversed(range(c['mip'])):
        one = size(bits, comp, max(1, c['w'] >> m), max(1, c['h'] >> m))
        if contents is None:
            hi += bytes(one * c['frames'] * slices)
        else:
            for f in range(c['frames']):
                for sl in range(slices):
                    assert len(contents[f, sl, m]) == one
                    hi += contents[f, sl, m]
    flags = 0x4000 if c['cube'] else 0
    hsize = 80 + (16 if c['minor'] >= 3 else 0)
    head = b'VTF\0' + struct.pack('<II', 7, c['minor'])
    head += struct.pack('<IHHIHH4x3f4xfiBiBB', hsize, c['w'], c['h'], flags, c['frames'], 0, 0.5, 0.25, 1.0, 1.0, ind, c['mip'],
                        lind, c['lw'], c['lh'])
    head += struct.pack('<H', c['depth'])
    if c['minor'] >= 3:
        head += struct.pack('<3xI8x', 2)
        head += struct.pack('<3sBI', b'\x01\0\0', 0, hsize)
        head += struct.pack('<3sBI', b'\x30\0\0', 0, hsize + len(low))
    else:
        head += bytes(15)
    assert len(head) == hsize, (len(head), hsize)
    return head + low + hi


def img_size(fmt: str, w: int, h: int) -> int:
    bits, comp = FMT_INFO[fmt][1], FMT_INFO[fmt][2]
    return bits * ((w + 3) // 4) * ((h + 3) // 4) // 8 if comp else bits * w * h // 8


def synth_record(c: dict, seed: int, src: str) -> dict:
    """A harness-written file with unrelated random bytes in every image, read by VTF.read.  The frame
    table is observed through VTF.get(); that each frame shows the image standing at its place in
    the file is observed by decoding that block of the file separately (Frame.copy_from) and
    comparing the pixels (placed)."""
    rng = random.Random(seed)
    rec = {'k': 'synth', 'c': c, 'exc': '', 'len': 0, 'keys': [], 'fields': [], 'placed': True, 'seed': seed,
           'sig': {'kind': 'synth', 'action': 'read', 'fmt': c['fmt'], 'src': src, 'minor': c['minor']}}
    try:
        contents = {}
        for m in range(c['mip']):
            n = img_size(c['fmt'], max(1, c['w'] >> m), max(1, c['h'] >> m))
            for f in range(c['frames']):
                for sl in range(slice_count(c)):
                    contents[f, sl, m] = bytes(rng.randrange(256) for _ in range(n))
        data = synth_file(c, contents)
        rec['len'] = len(data)
        offs = layout_offsets(parse_vtf(data), c)
        back = VTF.read(io.BytesIO(data))
        rec['keys'] = proj_keys(back, offs)
        rec['fields'] = [back.width, back.height, back.frame_count, back.depth, back.version[1],
                         back.format.name, back.low_format.name, back.mipmap_count]
        if c['fmt'] not in ('RGBA16161616', 'RGBA16161616F'):       # documented: only the metadata of these is read
            for key, fr in frame_keys(back).items():
                if fr is None or key not in offs:
                    continue
                alone = Frame(fr.width, fr.height)
                try:
                    alone.copy_from(data[offs[key][0]: offs[key][0] + offs[key][1]], ImageFormats[c['fmt']])
                except NotImplementedError:      # no pure-Python decoder for this format: layout and metadata only
                    break
                if frame_bytes(alone) != frame_bytes(fr):
                    rec['placed'] = False
                    rec['sig']['misplaced'] = list(key)
                    break
    except Exception as exc:  # noqa: BLE001
        rec['exc'] = f'{type(exc).__name__}: {exc}'
    return rec


def synth_cases(out: hlib.RecWriter, stats: dict) -> None:
    thorough = hlib.tier() == 'thorough'
    sizes = [1, 2, 4, 8, 16] if thorough else [1, 4, 8]
    fmts = [f for f in FMT_INFO if f not in ('NONE', 'P8')]
    for fmt in fmts:
        for w in sizes:
            for h in sizes:
                for lay in (['d1', 'd2', 'cube'] if thorough else ['d1', 'cube']):
                    for minor in (2, 3, 4, 5) if thorough else (2, 5):
                        lv = 1 + min(w.bit_length(), h.bit_length()) - 1
                        valve = 1 + max(w.bit_length(), h.bit_length()) - 1
                        for mip in sorted({1, lv, valve}):
                            for low in ('NONE', 'DXT1'):
                                c = {'w': w, 'h': h, 'frames': 2 if lay == 'd2' else 1, 'depth': DEPTH_OF[lay], 'cube': lay == 'cube',
                                     'fill': 'l0', 'minor': minor, 'fmt': fmt, 'low': low, 'lw': 16 if low != 'NONE' else 0,
                                     'lh': 16 if low != 'NONE' else 0, 'mip': mip, 'res': [],
                                     'sheet': {'has': False, 'ver': 0, 'seqs': []}}
                                rec = synth_record(c, hlib.seed() * 100003 + stats.get('synth', 0), 'exhaustive')
                                out.write(rec)
                                stats['synth'] = stats.get('synth', 0) + 1


# ------------------------------------------------------------------ histories of a texture that was read
def hist_record(c: dict, ops: list, seed: int, src: str) -> dict:
    """A harness-written file whose mipmaps are unrelated random images is read (all frames lazy),
    the steps are applied, then it is saved and read again."""
    rng = random.Random(seed)
    bits = FMT_INFO[c['fmt']][1]
    slices = (6 if c['minor'] >= 5 else 7) if c['cube'] else c['depth']
    contents = {}
    stored = []
    for m in range(c['mip']):
        w, h = max(1, c['w'] >> m), max(1, c['h'] >> m)
        for f in range(c['frames']):
            for sl in range(slices):
                raw = bytes(rng.randrange(256) for _ in range(bits * w * h // 8))
                contents[f, sl, m] = raw
                stored.append({'k': [f, sl, m], 'w': w, 'h': h, 'raw': list(raw)})
    low_raw = bytes(rng.randrange(256) for _ in range(FMT_INFO[c['low']][1] * c['lw'] * c['lh'] // 8)) if c['low'] != 'NONE' else b''
    rec = {'k': 'hist', 'c': c, 'ops': ops, 'stored': stored, 'exc': '', 'hdr': {'err': '-'}, 'keys': [], 'pix': [], 'seed': seed,
           'low': list(low_raw), 'low2': [],
           'sig': {'kind': 'hist', 'action': 'resave', 'fmt': c['fmt'], 'src': src, 'minor': c['minor'], 'cube': c['cube'],
                   'ops': '+'.join(o['op'] for o in ops) or 'none'}}
    try:
        vtf = VTF.read(io.BytesIO(synth_file(c, contents, low_raw if c['low'] != 'NONE' else None)))
        sl_list = slices_of(vtf)
        for o in ops:
            if o['op'] == 'load':
                for (f, sl, m), fr in frame_keys(vtf).items():
                    if (o['sel'] == 'top' and m == 0) or (o['sel'] == 'small' and m >= 1) or o['sel'] == 'all':
                        fr.load()
            elif o['op'] == 'look':
                tuple(frame_of(vtf, 0, sl_list[0], o['m'])[0, 0])
            elif o['op'] == 'poke':
                frame_of(vtf, 0, sl_list[0], o['m'])[0, 0] = tuple(o['px'])
            elif o['op'] == 'loadall':
                vtf.load()
            elif o['op'] == 'compute':
                vtf.compute_mipmaps()
            elif o['op'] == 'clear':
                vtf.clear_mipmaps(after=o['after'])
            else:
                raise ValueError(o)
        buf = io.BytesIO()
        vtf.save(buf)
        data = buf.getvalue()
        rec['hdr'] = parse_vtf(data)
        if rec['hdr']['err']:
            raise ValueError('written header unreadable: ' + rec['hdr']['err'])
        offs = layout_offsets(rec['hdr'], c)
        back = VTF.read(io.BytesIO(data))
        rec['keys'] = proj_keys(back, offs)
        for key, fr in sorted((k, v) for k, v in frame_keys(back).items() if v is not None):
            off, size = offs.get(key, (-1, 0))
            rec['pix'].append({'k': list(key), 'raw': list(data[off: off + size]) if off >= 0 else [], 'out': pixels_of(fr)})
        if c['low'] != 'NONE':
            lo = low_offset(rec['hdr'])
            rec['low2'] = list(data[lo: lo + len(low_raw)])
    except Exception as exc:  # noqa: BLE001 - the outcome is data for the specification
        rec['exc'] = f'{type(exc).__name__}: {exc}'
        rec['sig']['exc'] = type(exc).__name__
    return rec


def hist_cfg(a: dict) -> dict:
    """The file configuration of a model Create action (consistent mipmap count)."""
    lv = 1 + min(a['w'].bit_length(), a['h'].bit_length()) - 1
    return {'w': a['w'], 'h': a['h'], 'frames': a['frames'], 'depth': DEPTH_OF[a['lay']], 'cube': a['lay'] == 'cube', 'fill': 'l0',
            'minor': a['minor'], 'fmt': a['fmt'], 'low': a.get('low', 'NONE'), 'lw': a.get('lw', 16), 'lh': a.get('lh', 16), 'mip': lv,
            'res': [],
            'sheet': {'has': False, 'ver': 0, 'seqs': []}}


THUMB_FMTS = ['BGRA8888', 'RGBA8888', 'ABGR8888', 'IA88', 'A8', 'I8', 'RGB888', 'BGRA4444', 'BGRA5551', 'BGRX5551', 'UV88',
              'RGB888_BLUESCREEN', 'BGRX8888', 'ARGB8888']


def thumb_hist(out: hlib.RecWriter, seed: int, stats: dict) -> None:
    """Read -> (nothing | load() | clear_mipmaps) -> save -> read on textures with the usual 16x16 thumbnail,
    with (32x32, 64x64) and without (16x16, 8x4, 64x32) a level of twice its size."""
    n = 0
    for (w, h) in ((16, 16), (8, 4), (64, 32), (32, 32), (64, 64)):
        for low in ('BGRA8888', 'IA88'):
            for ops in ([], [{'op': 'loadall'}], [{'op': 'clear', 'after': 0}], [{'op': 'load', 'sel': 'small'}]):
                if w * h >= 2048 and ops and ops[0]['op'] == 'load':
                    continue
                a = {'w': w, 'h': h, 'frames': 1, 'lay': 'd1', 'minor': 4 if low == 'IA88' else 5, 'fmt': 'RGBA8888' if low == 'IA88' else 'A8',
                     'low': low, 'lw': 16, 'lh': 16}
                n += 1
                out.write(hist_record(hist_cfg(a), ops, seed * 7 + n, 'thumb'))
                stats['hist_thumb'] = stats.get('hist_thumb', 0) + 1


def random_hist(out: hlib.RecWriter, rng: random.Random, n_cases: int, stats: dict) -> None:
    for _ in range(n_cases):
        a = {'w': rng.choice([1, 2, 4, 8, 16]), 'h': rng.choice([1, 2, 4, 8, 16]), 'frames': rng.choice([1, 1, 2, 3]),
             'lay': rng.choice(['d1', 'd1', 'd2', 'cube']), 'minor': rng.choice([2, 3, 4, 5]), 'fmt': rng.choice(WRITABLE)}
        a['low'] = rng.choice(['NONE'] + THUMB_FMTS * 2)
        if rng.random() < 0.5 and min(a['w'], a['h']) >= 2:     # a thumbnail half the size of some level
            m = rng.randrange(min(a['w'], a['h']).bit_length() - 1)
            a['lw'], a['lh'] = max(1, (a['w'] >> m) // 2), max(1, (a['h'] >> m) // 2)
        else:
            a['lw'], a['lh'] = rng.choice([1, 2, 4, 8, 16]), rng.choice([1, 2, 4, 16])
        c = hist_cfg(a)
        if rng.random() < 0.3:
            c['mip'] = rng.randint(1, c['mip'])          # files need not hold every level
        ops = []
        cleared = c['mip']                               # levels >= cleared are erased (until a compute)
        for _ in range(rng.choice([0, 0, 1, 2, 3, 4])):
            kind = rng.choice(['load', 'loadall', 'look', 'poke', 'compute', 'clear'])
            if kind == 'loadall' and cleared < c['mip']:
                kind = 'compute'
            if kind == 'clear':
                after = rng.randint(0, max(0, c['mip'] - 1))
                ops.append({'op': 'clear', 'after': after})
                cleared = min(cleared, after + 1)
            elif kind == 'loadall':
                ops.append({'op': 'loadall'})
            elif kind == 'compute':
                ops.append({'op': 'compute'})
                cleared = c['mip']
            elif kind == 'look':
                ops.append({'op': 'look', 'm': rng.randrange(cleared)})
            elif kind == 'poke':
                ops.append({'op': 'poke', 'm': rng.randrange(cleared), 'px': [rng.randrange(256) for _ in range(4)]})
            else:
                sel = rng.choice(['top', 'small', 'all'])
                if sel != 'top' and cleared < c['mip']:
                    sel = 'top'
                ops.append({'op': 'load', 'sel': sel})
        out.write(hist_record(c, ops, rng.getrandbits(40), 'random'))
        stats['hist_random'] = stats.get('hist_random', 0) + 1


# ------------------------------------------------------------------ random textures outside the bounds
WRITABLE = ['RGBA8888', 'ABGR8888', 'RGB888', 'BGR888', 'RGB565', 'I8', 'IA88', 'A8', 'RGB888_BLUESCREEN', 'BGR888_BLUESCREEN',
            'ARGB8888', 'BGRA8888', 'BGRX8888', 'BGR565', 'BGRX5551', 'BGRA4444', 'BGRA5551', 'UV88', 'UVWQ8888', 'UVLX8888']


def random_cases(out: hlib.RecWriter, rng: random.Random, n_cases: int, stats: dict) -> None:
    for ci in range(n_cases):
        big = rng.random() < 0.4
        w = rng.choice([16, 32, 64, 128] if big else [1, 2, 4, 8, 16])
        h = rng.choice([16, 32, 64, 128] if big else [1, 2, 4, 8, 16])
        if big and rng.random() < 0.5:
            h = w                                   # square and >= 32: the thumbnail is regenerated
        fmt = rng.choice(WRITABLE if not big else ['RGBA8888', 'BGRA8888', 'ABGR8888', 'RGB888', 'BGRX8888', 'UVLX8888', 'A8', 'I8'])
        lay = rng.choice(['d1', 'd1', 'd2', 'd4', 'cube'])
        a = {'op': 'create', 'w': w, 'h': h, 'frames': rng.choice([1, 1, 2, 3, 5]), 'lay': lay, 'minor': rng.choice([2, 3, 4, 5]),
             'fmt': fmt, 'low': rng.choice(['NONE'] + THUMB_FMTS), 'fill': rng.choice(['l0', 'all', 'mid'])}
        path = [a]
        used = set()
        for _ in range(rng.choice([0, 0, 1, 2, 4])):
            rid = bytes(rng.choice(b'ABCDEFGHXYZ') for _ in range(3))
            if rid in used:
                continue
            used.add(rid)
            if rng.random() < 0.5:
                path.append({'op': 'resource', 'r': {'id': rid.hex(), 'inline': True, 'flags': rng.choice([0, 2, 3, 0x82]),
                                                     'val': rng.randrange(2 ** 31), 'len': 0}})
            else:
                path.append({'op': 'resource', 'r': {'id': rid.hex(), 'inline': False, 'flags': rng.choice([0, 2, 1, 0x80]),
                                                     'val': 0, 'len': rng.choice([0, 1, 7, 64, 1000])}})
        if rng.random() < 0.3:
            path.append({'op': 'sheet', 'ver': rng.choice([0, 1]), 'seqs': [rng.choice([0, 1, 2, 5]) for _ in range(rng.randint(1, 8))]})
        seed = rng.getrandbits(40)
        variant = rng.choice(['adj'] * 6 + ['asis'] * 2 + ['regen'] * 2)
        if rng.random() < 0.08:       # the thumbnail regenerated from the 32x32 level, with the pixels logged
            a.update(w=rng.choice([32, 64]), h=0, frames=1, lay='d1', fmt=rng.choice(['RGBA8888', 'BGRA8888', 'A8']))
            a['h'] = a['w']
            w = h = a['w']
        with_pix = w * h * a['frames'] * (7 if lay == 'cube' else DEPTH_OF[lay]) <= 256 or (a['frames'] == 1 and a['lay'] == 'd1' and w == h and w in (32, 64))
        rec = variant_record(path, seed, variant, with_pix, 'random')
        rec['hist'] = path
        rec['seed'] = seed
        rec['mode'] = 'pix' if with_pix else 'layout'
        out.write(rec)
        stats['random'] = stats.get('random', 0) + 1


def main() -> None:
    mode = sys.argv[1]
    stats: dict = {}
    if mode == 'edges':
        out = hlib.RecWriter(sys.argv[4])
        replay_edges(sys.argv[2], sys.argv[3], out, stats)
    elif mode == 'synth':
        out = hlib.RecWriter(sys.argv[2])
        synth_cases(out, stats)
    elif mode == 'random':
        out = hlib.RecWriter(sys.argv[2])
        random_cases(out, random.Random(hlib.seed() * 7919 + 15), 1500 if hlib.tier() == 'thorough' else 200, stats)
        random_hist(out, random.Random(hlib.seed() * 7919 + 16), 1500 if hlib.tier() == 'thorough' else 300, stats)
        thumb_hist(out, hlib.seed(), stats)
    elif mode == 'replay':
        rp = json.load(open(sys.argv[2]))
        rec = rp['record']
        out = hlib.RecWriter(sys.argv[3])
        if rec['k'] == 'rt':
            out.write(variant_record(rec['hist'], rec['seed'], rec['variant'], rec.get('mode') == 'pix', 'replay'))
        elif rec['k'] == 'hist':
            out.write(hist_record(rec['c'], rec['ops'], rec['seed'], 'replay'))
        elif rec['k'] == 'access':
            out.write(access_record(rec['hist'], rec['seed'], rec['op'], rec['x'], rec['y']))
        elif rec['k'] == 'ctor':
            a = rec['hist'][0]
            vtf = make_vtf(a, random.Random(rec['seed']))
            out.write({'k': 'ctor', 'c': rec['c'], 'keys': proj_keys(vtf, None), 'mip': vtf.mipmap_count,
                       'sig': {'kind': 'ctor', 'action': 'create', 'src': 'replay'}})
        else:
            new = synth_record(rec['c'], rec.get('seed', 0), 'replay')
            out.write(new)
    else:
        raise SystemExit(2)
    out.close()
    stats['records'] = out.n
    print(json.dumps(stats))


if __name__ == '__main__':
    main()
