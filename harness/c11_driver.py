"""C11 driver: every BSP lump writer against its reader.  Modes (records are judged by BspTablesTrace):
  funcs <edges.json> <out>     run-length coder and find_or_insert / find_or_extend: the MC family, every TLC edge
                               of the table machine, seeded random inputs far outside the bounds
  vis <out>                    Visibility views -> VISIBILITY lump, decoded by an independent reader
  graph <part> <parts> <out>   abstract cross-reference worlds realised as objects, assigned, saved, re-read
  props <out>                  static props in every format version
  fits <out>                   boundary values of the integer fields per layout
  transplant <out>             views parsed from synthesised files assigned to an empty BSP of the same layout
  replay <replay.json> <out>   re-create the record of a replay file on the current tree
"""
from __future__ import annotations

import contextlib
import io
import json
import os
import random
import struct
import sys
import tempfile
import weakref

from vlib import hlib

hlib.require_repo_src()
from vlib import bsplib as L  # noqa: E402
from vlib import bspsynth as S  # noqa: E402
import srctools.bsp as B  # noqa: E402
from srctools.binformat import find_or_extend, find_or_insert  # noqa: E402
from srctools.bsp import BSP  # noqa: E402
from srctools.const import SurfFlags  # noqa: E402
from srctools.math import Angle, Vec  # noqa: E402
from srctools.vmf import VMF, Entity  # noqa: E402

TMP = tempfile.mkdtemp(prefix='c11_')
THOROUGH = hlib.tier() == 'thorough'


def quiet_save(bsp: BSP, path: str) -> None:
    with contextlib.redirect_stdout(io.StringIO()):
        bsp.save(path)


def base_bsp(layout: str, name: str = 'base') -> BSP:
    path = os.path.join(TMP, f'{name}_{layout}.bsp')
    if not os.path.exists(path):
        with open(path, 'wb') as f:
            f.write(S.build(S.empty_world(layout)))
    return BSP(path)


# ====================================================================== run-length coding
def runs_of(b: bytes) -> list:
    out: list = []
    for x in b:
        if out and out[-1][0] == x:
            out[-1][1] += 1
        else:
            out.append([x, 1])
    return out


def bytes_of(runs: list) -> bytes:
    return b''.join(bytes([v]) * n for v, n in runs)


RLE_VALS = (0, 1, 255)
RLE_LENS = (1, 2, 254, 255, 256, 511)


def rle_family() -> list:
    atoms = [[v, n] for v in RLE_VALS for n in RLE_LENS]
    fam = [[]]
    for a in atoms:
        fam.append([a])
        for b in atoms:
            if b[0] == a[0]:
                continue
            fam.append([a, b])
            for c in atoms:
                if c[0] != b[0]:
                    fam.append([a, b, c])
    return fam


def rec_rle(out: hlib.RecWriter, runs: list, src: str) -> None:
    data = bytes_of(runs)
    try:
        enc = bytes(B.runlength_encode(data))
    except Exception as exc:    # noqa: BLE001
        out.write({'k': 'rle', 'in': runs, 'out': [[0, 1]], 'error': type(exc).__name__,
                   'sig': {'kind': 'rle', 'action': 'encode', 'src': src}})
        return
    out.write({'k': 'rle', 'in': runs, 'out': runs_of(enc), 'sig': {'kind': 'rle', 'action': 'encode', 'src': src}})
    n = len(data)
    # decode what was encoded, followed by the bytes of a next row, at full and at reduced cluster counts
    tails = ([], [[7, 1]], [[0, 1], [9, 1]])
    if src == 'family' and not THOROUGH:        # quick tier: one of the three continuations per pattern, rotating
        tails = (tails[(len(data) + len(runs) + hlib.seed()) % 3],)
    for tail in tails:
        blob = enc + bytes_of(tail)
        for maxc in {8 * n, max(0, 8 * n - 9), -1 if not tail else 8 * n}:
            if n == 0 and maxc != -1:
                continue
            try:
                dec = bytes(B.runlength_decode(blob, 0, maxc))
            except Exception:   # noqa: BLE001
                dec = b'\x00\x01\x00'      # never a decoder output for these inputs: reported as rle.decode
            out.write({'k': 'unrle', 'in': runs_of(blob), 'start': 0, 'max': maxc, 'out': runs_of(dec),
                       'sig': {'kind': 'rle', 'action': 'decode', 'src': src}})


def rle_records(out: hlib.RecWriter, rng: random.Random) -> dict:
    fam = rle_family()
    for runs in fam:
        rec_rle(out, runs, 'family')
    n_rand = 400 if THOROUGH else 60
    for _ in range(n_rand):
        runs: list = []
        budget = rng.choice([40, 300, 5000, 65536])
        while sum(n for _, n in runs) < budget and len(runs) < 60:
            v = rng.choice([0, 0, 0, 1, 255, rng.randrange(256)])
            if runs and runs[-1][0] == v:
                continue
            runs.append([v, rng.choice([1, 1, 2, 3, 254, 255, 256, 509, 510, 511, 765, rng.randint(1, 3000)])])
        rec_rle(out, runs, 'random')
    # codes the encoder never produces but a file may contain: short zero pairs in a row, count 0, offsets
    for _ in range(300 if THOROUGH else 60):
        code = bytearray()
        for _ in range(rng.randint(1, 12)):
            if rng.random() < 0.5:
                code += bytes([0, rng.choice([1, 1, 2, 3, 255, rng.randrange(1, 256)])])
            else:
                code += bytes(rng.choice([1, 3, 255, rng.randrange(1, 256)]) for _ in range(rng.randint(1, 4)))
        start = rng.choice([0, 0, 2, 4]) if len(code) > 6 else 0
        if start and code[start - 1] == 0:
            start = 0
        maxc = rng.choice([-1, 8, 17, 64, 4000])
        try:
            dec = bytes(B.runlength_decode(bytes(code), start, maxc))
        except Exception:   # noqa: BLE001
            dec = b'\x00\x01\x00'
        out.write({'k': 'unrle', 'in': runs_of(bytes(code)), 'start': start, 'max': maxc, 'out': runs_of(dec),
                   'sig': {'kind': 'rle', 'action': 'decode', 'src': 'foreign'}})
    return {'rle_family': len(fam)}


# ====================================================================== index builders
class Obj:
    __slots__ = ('name', '__weakref__')

    def __init__(self, name: str) -> None:
        self.name = name


def rec_finder(out: hlib.RecWriter, kind: str, tbl: list, arg, src: str, pool: dict | None = None,
               fold: dict | None = None) -> None:
    """One call of a fresh finder on a list of objects named by tbl (identity keys) or of strings (fold keys)."""
    try:
        if fold is None:
            pool = pool if pool is not None else {}
            objs = lambda names: [pool.setdefault(n, Obj(n)) for n in names]
            lst = objs(tbl)
            if kind == 'foi':
                res = find_or_insert(lst)(objs([arg])[0])
            else:
                res = find_or_extend(lst)(objs(arg))
            after = [o.name for o in lst]
        else:
            lst = list(tbl)
            if kind == 'foi':
                res = find_or_insert(lst, fold.__getitem__)(arg)
            else:
                res = find_or_extend(lst, fold.__getitem__)(list(arg))
            after = lst
    except Exception:   # noqa: BLE001 - reported as a non-conforming result
        res, after = -1, list(tbl)
    tail = kind == 'foe' and bool(arg) and res + len(arg) > len(after)
    out.write({'k': kind, 'tbl': list(tbl), 'arg': arg, 'fold': fold or {}, 'res': res, 'out': after,
               'sig': {'kind': 'finder', 'action': kind, 'src': src, 'tailPrefix': tail}})


def finder_records(out: hlib.RecWriter, edges: list, rng: random.Random) -> dict:
    n_edges = 0
    for e in edges:
        a = e['a']
        if a['op'] == 'insert':
            rec_finder(out, 'foi', e['s'], a['x'], 'edge')
        elif a['op'] == 'extend':
            rec_finder(out, 'foe', e['s'], a['items'], 'edge')
        else:
            continue
        n_edges += 1
    names = [f'x{i}' for i in range(1, 9)]
    for _ in range(3000 if THOROUGH else 500):
        tbl = [rng.choice(names[:rng.randint(1, 8)]) for _ in range(rng.randint(0, 14))]
        if rng.random() < 0.5:
            rec_finder(out, 'foi', tbl, rng.choice(names), 'random')
        else:
            if tbl and rng.random() < 0.6:     # a slice of the table, possibly running past its end
                i = rng.randrange(len(tbl))
                items = tbl[i:i + rng.randint(1, 4)] + [rng.choice(names) for _ in range(rng.choice([0, 0, 1, 2]))]
            else:
                items = [rng.choice(names) for _ in range(rng.randint(0, 4))]
            rec_finder(out, 'foe', tbl, items, 'random')
    # key function other than identity: texture names compared case-insensitively
    words = ['Brick', 'BRICK', 'brick', 'metal', 'Metal', 'wood']
    fold = {w: w.casefold() for w in words}
    for _ in range(600 if THOROUGH else 120):
        tbl = [rng.choice(words) for _ in range(rng.randint(0, 6))]
        if rng.random() < 0.5:
            rec_finder(out, 'foi', tbl, rng.choice(words), 'random', fold=fold)
        else:
            rec_finder(out, 'foe', tbl, [rng.choice(words) for _ in range(rng.randint(0, 3))], 'random', fold=fold)
    # one finder used for a whole sequence of calls (the dict it keeps must stay a function of the list)
    for _ in range(400 if THOROUGH else 80):
        pool: dict = {}
        cur = [rng.choice(names[:5]) for _ in range(rng.randint(0, 5))]
        lst = [pool.setdefault(n, Obj(n)) for n in cur]
        kind = rng.choice(['foi', 'foe'])
        finder = find_or_insert(lst) if kind == 'foi' else find_or_extend(lst)
        for _ in range(rng.randint(2, 7)):
            before = [o.name for o in lst]
            if kind == 'foi':
                arg = rng.choice(names)
                res = finder(pool.setdefault(arg, Obj(arg)))
            else:
                arg = [rng.choice(names) for _ in range(rng.randint(0, 3))]
                res = finder([pool.setdefault(n, Obj(n)) for n in arg])
            after = [o.name for o in lst]
            tail = kind == 'foe' and bool(arg) and res + len(arg) > len(after)
            out.write({'k': kind, 'tbl': before, 'arg': arg, 'fold': {}, 'res': res, 'out': after,
                       'sig': {'kind': 'finder', 'action': kind, 'src': 'sequence', 'tailPrefix': tail}})
    return {'finder_edges': n_edges}


# ====================================================================== visibility lump
def vis_records(out: hlib.RecWriter, rng: random.Random) -> None:
    cases = [0, 1, 2, 7, 8, 9, 16, 20, 64] + ([2040, 2041, 4100] if THOROUGH else [2041])
    for n in cases:
        for variant in range(3 if n else 1):
            rowlen = (n + 7) // 8

            def row() -> bytes:
                mode = rng.choice(['zero', 'ones', 'sparse', 'rand', 'edge'])
                if mode == 'rand' and rowlen > 40:       # long rows: a few dozen runs (the spec recurses per run)
                    r = bytearray()
                    while len(r) < rowlen:
                        r += bytes([rng.choice([0, 0, 255, rng.randrange(256)])]) * rng.choice([1, 2, 7, 30, 254, 255, 256, 300])
                    return bytes(r[:rowlen])
                if mode == 'zero':
                    return bytes(rowlen)
                if mode == 'ones':
                    return b'\xff' * rowlen
                if mode == 'sparse':
                    r = bytearray(rowlen)
                    for _ in range(rng.randint(0, 3)):
                        if rowlen:
                            r[rng.randrange(rowlen)] = rng.randrange(1, 256)
                    return bytes(r)
                if mode == 'edge':
                    return bytes([0] * (rowlen - 1) + [1]) if rowlen else b''
                return bytes(rng.choice([0, 0, 0, rng.randrange(256)]) for _ in range(rowlen))
            pvs = [row() for _ in range(n)]
            pas = [row() for _ in range(n)]
            for layout in (['v20'] if not THOROUGH else ['v20', 'chaos']):
                rows = [r for pair in zip(pvs, pas) for r in pair]
                sig = {'kind': 'vis', 'action': 'write', 'layout': layout, 'clusters': n, 'src': 'cases'}
                try:
                    bsp = base_bsp(layout)
                    bsp.visibility = B.Visibility([bytearray(r) for r in pvs], [bytearray(r) for r in pas])
                    path = os.path.join(TMP, 'vis.bsp')
                    quiet_save(bsp, path)
                    back = BSP(path).visibility
                except Exception:   # noqa: BLE001
                    out.write({'k': 'vis', 'rows': [runs_of(r) for r in rows], 'count': -1, 'offsets': [], 'at': [],
                               'rewrite': 'diff', 'indep': 'diff', 'back': 'diff', 'lumplen': 0, 'sig': sig})
                    continue
                with open(path, 'rb') as f:
                    lump = S.read_lumps(f.read())['VISIBILITY'][1]
                count = struct.unpack_from('<i', lump, 0)[0]
                offs = list(struct.unpack_from(f'<{2 * count}i', lump, 4))
                # at[k]: the bytes from offset k as far as a decoder of the format consumes them for one row
                # (no assumption about where the next block starts, or whether blocks are shared)
                at = []
                indep = []
                for o in offs:
                    got = bytearray()
                    i = o
                    try:
                        while len(got) < rowlen:
                            if lump[i]:
                                got.append(lump[i])
                                i += 1
                            else:
                                got += bytes(lump[i + 1])
                                i += 2
                    except IndexError:
                        i = len(lump)
                    at.append(runs_of(lump[o:i]))
                    indep.append(bytes(got[:rowlen]).hex())
                # write(read(write(v))) = write(v): the value read back, written again, gives the same lump
                rewrite = 'diff'
                try:
                    b2 = base_bsp(layout)
                    b2.visibility = back
                    path2 = os.path.join(TMP, 'vis2.bsp')
                    quiet_save(b2, path2)
                    with open(path2, 'rb') as f:
                        rewrite = 'same' if S.read_lumps(f.read())['VISIBILITY'][1] == lump else 'diff'
                except Exception:   # noqa: BLE001
                    pass
                same = (back is not None and [bytes(r) for r in back.potentially_visible] == pvs
                        and [bytes(r) for r in back.potentially_audible] == pas)
                out.write({'k': 'vis', 'rows': [runs_of(r) for r in rows], 'count': count, 'offsets': offs, 'at': at,
                           'rewrite': rewrite, 'indep': 'same' if indep == [r.hex() for r in rows] else 'diff', 'back': 'same' if same else 'diff',
                           'lumplen': len(lump), 'sig': sig})


# ====================================================================== the cross-reference graph
def gen_world(rng: random.Random, small: bool = False) -> dict:
    """An abstract world: tables of object ids and the references between the objects."""
    kind: dict = {}
    one: dict = {}
    many: dict = {}

    def mk(prefix: str, k: str, n: int) -> list:
        ids = [f'{prefix}{i}' for i in range(1, n + 1)]
        for x in ids:
            kind[x] = k
            one[x] = {}
            many[x] = {}
        return ids

    def sub(pool: list, lo: int = 0, dup: float = 0.15) -> list:
        """A table as a user might assign it: some of the pool, any order, now and then an object twice."""
        if not pool:
            return []
        k = rng.randint(min(lo, len(pool)), len(pool))
        res = rng.sample(pool, k)
        if res and rng.random() < dup:
            res.insert(rng.randrange(len(res) + 1), rng.choice(res))
        return res

    def run_of(tbl: list, pool: list) -> list:
        """A reference list: usually a slice of the table (possibly running past its end into new
        objects), sometimes arbitrary objects."""
        if not pool:
            return []
        r = rng.random()
        if tbl and r < 0.6:
            i = rng.randrange(len(tbl))
            res = tbl[i:i + rng.randint(1, 3)]
            if rng.random() < 0.35:
                res = res + [rng.choice(pool)]
            return res
        if r < 0.75:
            return []
        return [rng.choice(pool) for _ in range(rng.randint(1, 3))]
    hi = 2 if small else 3
    names = rng.sample(['BRICK/A', 'brick/a', 'Metal/b', 'wood/c'], rng.randint(1, 3))
    P = mk('p', 'plane', rng.randint(1, hi))
    D = mk('d', 'texdata', rng.randint(1, 2))
    for d in D:
        one[d]['mat'] = rng.choice(names)
    T = mk('t', 'texinfo', rng.randint(1, hi))
    for t in T:
        one[t]['texdata'] = rng.choice(D)
    E = mk('e', 'edge', rng.randint(0, 4))
    ER = []
    for e in E:
        kind[e + 'r'] = 'edge'
        one[e + 'r'] = {}
        many[e + 'r'] = {}
        ER.append(e + 'r')
    Q = mk('q', 'prim', rng.randint(0, 2))
    tables = {
        'planes': sub(P), 'texinfo': sub(T), 'textures': sub(names, dup=0.0),
        'surfedges': [rng.choice(E + ER) for _ in range(rng.randint(0, 5))] if E else [],
        'primitives': sub(Q),
    }

    def face_slots(f: str, origs: list, allow_none_tex: bool) -> None:
        one[f]['plane'] = rng.choice(P)
        one[f]['texinfo'] = '' if (allow_none_tex and rng.random() < 0.3) else rng.choice(T)
        one[f]['orig'] = rng.choice(origs) if origs and rng.random() < 0.85 else ''
        many[f]['edges'] = run_of(tables['surfedges'], E + ER)
        many[f]['prims'] = run_of(tables['primitives'], Q)
    G = mk('g', 'origface', rng.randint(0, 2))
    for g in G:
        face_slots(g, [], True)
    F = mk('f', 'face', rng.randint(0, hi))
    for f in F:
        face_slots(f, G, rng.random() < 0.1)
    H = mk('h', 'hdrface', rng.randint(0, 1))
    for h in H:
        face_slots(h, G, False)
    tables['orig_faces'] = sub(G, dup=0.0)
    tables['faces'] = sub(F, dup=0.0)
    tables['hdr_faces'] = sub(H, lo=len(H), dup=0.0)
    SD = mk('s', 'side', rng.randint(0, 4))
    for s in SD:
        one[s]['plane'] = rng.choice(P)
        one[s]['texinfo'] = rng.choice(T)
    BR = mk('b', 'brush', rng.randint(0, 2))
    side_tbl: list = []
    for b in BR:
        many[b]['sides'] = run_of(side_tbl, SD)
        side_tbl += many[b]['sides']
    tables['brushes'] = sub(BR, dup=0.0)
    LF = mk('l', 'leaf', rng.randint(1, hi))
    for lf in LF:
        many[lf]['faces'] = [rng.choice(F) for _ in range(rng.randint(0, 2))] if F else []
        many[lf]['brushes'] = [rng.choice(BR) for _ in range(rng.randint(0, 2))] if BR else []
    tables['visleafs'] = sub(LF, lo=1, dup=0.0)
    ND = mk('n', 'node', rng.randint(1, hi))
    for i, n in enumerate(ND):
        later = ND[i + 1:]
        for slot in ('child_pos', 'child_neg'):
            one[n][slot] = rng.choice(later) if later and rng.random() < 0.5 else rng.choice(LF)
        one[n]['plane'] = rng.choice(P)
        many[n]['faces'] = run_of(tables['faces'], F)
    tables['nodes'] = [ND[0]] + sub(ND[1:], dup=0.0)
    WT = mk('w', 'water', rng.randint(0, 2))
    for x in WT:
        one[x]['texinfo'] = rng.choice(T)
    tables['water'] = list(WT)
    OV = mk('o', 'overlay', rng.randint(0, 2))
    for x in OV:
        one[x]['texinfo'] = rng.choice(T)
    tables['overlays'] = list(OV)
    MD = mk('m', 'model', rng.randint(1, 3))
    for m in MD:
        one[m]['node'] = rng.choice(ND)
        many[m]['faces'] = run_of(tables['faces'], F)
    # entity k (0 = worldspawn) uses model tables['bmodels'][k]; two entities may share one
    tables['bmodels'] = [MD[0]] + [rng.choice(MD) for _ in range(rng.randint(0, 2))]
    PR = mk('r', 'prop', rng.randint(0, 2))
    for r in PR:
        many[r]['leafs'] = sorted(set(rng.sample(tables['visleafs'], rng.randint(0, len(tables['visleafs'])))))
    tables['props'] = list(PR)
    fold = {n: n.casefold() for n in ['BRICK/A', 'brick/a', 'Metal/b', 'wood/c']}
    return {'ids': sorted(kind) + sorted(fold), 'kind': kind, 'tables': tables, 'one': one, 'many': many, 'fold': fold}


NUM = lambda x: int(''.join(c for c in x if c.isdigit()))


class Realiser:
    """Real srctools objects for the ids of a world; every object carries its id in a scalar field."""
    def __init__(self, w: dict, bsp: BSP) -> None:
        self.w = w
        self.bsp = bsp
        self.objs: dict = {}

    def get(self, x: str):
        if x == '':
            return None
        if x in self.objs:
            return self.objs[x]
        w, k = self.w, self.w['kind'][x]
        one, many = w['one'][x], w['many'][x]
        n = NUM(x)
        if k == 'plane':
            o = B.Plane(Vec(0, 0, 1), float(n))
        elif k == 'texdata':
            o = B.TexData(one['mat'], Vec(float(n), 0.25, 0.5), 64, 32)
        elif k == 'texinfo':
            o = B.TexInfo(Vec(1, 0, 0), float(n), Vec(0, 1, 0), 2.0, Vec(), 0.0, Vec(), 0.0, SurfFlags.NONE, self.get(one['texdata']))
        elif k == 'edge':
            if x.endswith('r'):
                o = self.get(x[:-1]).opposite
            else:
                o = B.Edge(Vec(float(n), 0, 0), Vec(float(n), 1, 0))
        elif k == 'prim':
            o = B.Primitive(False, [n], [Vec(float(n), 0, 0)])
        elif k in ('face', 'origface', 'hdrface'):
            base = {'face': 0, 'origface': 100, 'hdrface': 200}[k]
            o = B.Face(self.get(one['plane']), False, False, [self.get(e) for e in many['edges']], self.get(one['texinfo']),
                       -1, -1, b'\0\0\0\0', -1, float(base + n), (0, 0), (0, 0), self.get(one['orig']),
                       [self.get(q) for q in many['prims']], True, 0, 7, 0)
        elif k == 'side':
            o = B.BrushSide(self.get(one['plane']), self.get(one['texinfo']), n, False, 0)
        elif k == 'brush':
            o = B.Brush(B.BrushContents(n), [self.get(s) for s in many['sides']])
        elif k == 'leaf':
            o = B.VisLeaf(B.BrushContents.EMPTY, n, 0, B.VisLeafFlags.NONE, Vec(), Vec(), [self.get(f) for f in many['faces']],
                          [self.get(b) for b in many['brushes']], -1)
        elif k == 'node':
            o = B.VisTree(self.get(one['plane']), Vec(), Vec(), [self.get(f) for f in many['faces']], n)
            self.objs[x] = o
            o.child_pos = self.get(one['child_pos'])
            o.child_neg = self.get(one['child_neg'])
        elif k == 'water':
            o = B.LeafWaterInfo(float(n), 0.0, self.get(one['texinfo']))
        elif k == 'overlay':
            o = B.Overlay(n, Vec(), Vec(0, 0, 1), self.get(one['texinfo']), 0, [])
        elif k == 'model':
            o = B.BModel(Vec(), Vec(), Vec(float(n), 0, 0), self.get(one['node']), [self.get(f) for f in many['faces']])
        elif k == 'prop':
            o = B.StaticProp('models/a.mdl', Vec(), visleafs={self.get(lf) for lf in many['leafs']}, skin=n)
        else:
            raise KeyError(k)
        self.objs[x] = o
        return o


def tag(o) -> str:
    """The id an object was created with, read back from its scalar field."""
    if o is None:
        return ''
    if isinstance(o, B.Plane):
        return f'p{int(o.dist)}'
    if isinstance(o, B.TexInfo):
        return f't{int(o.s_shift)}'
    if isinstance(o, B.RevEdge):
        return f'e{int(o.b.x)}r' if o.b.y == 0 else f'e{int(o.a.x)}?'
    if isinstance(o, B.Edge):
        return f'e{int(o.a.x)}' if o.a.y == 0 else f'e{int(o.a.x)}?'
    if isinstance(o, B.Primitive):
        return f'q{o.indexed_verts[0]}'
    if isinstance(o, B.Face):
        a = int(o.area)
        return f'h{a - 200}' if a > 200 else (f'g{a - 100}' if a > 100 else f'f{a}')
    if isinstance(o, B.BrushSide):
        return f's{o._dispinfo}'
    if isinstance(o, B.Brush):
        return f'b{o.contents.value}'
    if isinstance(o, B.VisLeaf):
        return f'l{o.cluster_id}'
    if isinstance(o, B.VisTree):
        return f'n{o.area_ind}'
    if isinstance(o, B.LeafWaterInfo):
        return f'w{int(o.surface_z)}'
    if isinstance(o, B.Overlay):
        return f'o{o.id}'
    if isinstance(o, B.BModel):
        return f'm{int(o.origin.x)}'
    if isinstance(o, B.StaticProp):
        return f'r{o.skin}'
    raise TypeError(o)


VIEW_OF_TABLE = {'planes': 'planes', 'texinfo': 'texinfo', 'surfedges': 'surfedges', 'primitives': 'primitives',
                 'orig_faces': 'orig_faces', 'faces': 'faces', 'hdr_faces': 'hdr_faces', 'brushes': 'brushes',
                 'visleafs': 'visleafs', 'nodes': 'nodes', 'water': 'water_leaf_info', 'overlays': 'overlays', 'props': 'props'}
ASSIGN_ORDER = ['planes', 'texinfo', 'surfedges', 'primitives', 'orig_faces', 'faces', 'hdr_faces', 'brushes', 'visleafs', 'nodes',
                'water', 'overlays', 'props']


def run_world(w: dict, layout: str = 'v20') -> dict:
    """Assign the world to an empty BSP, save, re-read, and project tables and references back to ids."""
    bsp = base_bsp(layout)
    rz = Realiser(w, bsp)
    bsp.textures = list(w['tables']['textures'])
    bsp.vertexes = [Vec()]
    for t in ASSIGN_ORDER:
        setattr(bsp, VIEW_OF_TABLE[t], [rz.get(x) for x in w['tables'][t]])
    vmf = VMF()
    ents = [vmf.spawn]
    vmf.spawn['classname'] = 'worldspawn'
    bm: weakref.WeakKeyDictionary = weakref.WeakKeyDictionary()
    for k, m in enumerate(w['tables']['bmodels']):
        if k:
            ent = Entity(vmf, {'classname': 'func_brush', 'targetname': f'ent{k}'})
            vmf.add_ent(ent)
            ents.append(ent)
        bm[ents[k]] = rz.get(m)
    bsp.ents = vmf
    bsp.bmodels = bm
    bsp.static_prop_version = B.StaticPropVersion.V10
    bsp.game_lumps[b'sprp'].version = 10
    path = os.path.join(TMP, f'world_{os.getpid()}.bsp')
    obs: dict = {'tables': {}, 'refs': {}, 'ix': {}, 'entmodels': [], 'error': ''}
    try:
        quiet_save(bsp, path)
    except Exception as exc:
        obs['error'] = f'save:{type(exc).__name__}'
        return obs
    new = BSP(path)
    try:
        views = {t: getattr(new, v) for t, v in VIEW_OF_TABLE.items()}
        views['textures'] = new.textures
        models = new.bmodels
    except Exception as exc:
        obs['error'] = f'read:{type(exc).__name__}'
        return obs
    for t, lst in views.items():
        obs['tables'][t] = list(lst) if t == 'textures' else [tag(o) for o in lst]

    def index_in(tbl: list, o) -> int:
        for i, x in enumerate(tbl):
            if x is o:
                return i
        return -1

    def note(x: str, slot: str, val, target: str | None = None, ref=None) -> None:
        obs['refs'].setdefault(x, {})[slot] = val
        if target is not None and ref is not None:
            obs['ix'].setdefault(x, {})[slot] = index_in(views[target], ref)
    seen: set = set()

    def visit(o) -> None:
        x = tag(o)
        if x in seen or o is None:
            return
        seen.add(x)
        if isinstance(o, B.Face):
            note(x, 'plane', [tag(o.plane)], 'planes', o.plane)
            note(x, 'texinfo', [tag(o.texinfo)] if o.texinfo is not None else [], 'texinfo', o.texinfo)
            if not x.startswith('g'):
                note(x, 'orig', [tag(o.orig_face)] if o.orig_face is not None else [], 'orig_faces', o.orig_face)
            note(x, 'edges', [tag(e) for e in o.edges])
            note(x, 'prims', [tag(q) for q in o.primitives])
        elif isinstance(o, B.Brush):
            note(x, 'sides', [tag(s) for s in o.sides])
            for s in o.sides:
                visit(s)
        elif isinstance(o, B.BrushSide):
            note(x, 'plane', [tag(o.plane)], 'planes', o.plane)
            note(x, 'texinfo', [tag(o.texinfo)], 'texinfo', o.texinfo)
        elif isinstance(o, B.VisLeaf):
            note(x, 'faces', [tag(f) for f in o.faces])
            note(x, 'brushes', [tag(b) for b in o.brushes])
        elif isinstance(o, B.VisTree):
            for slot in ('child_pos', 'child_neg'):
                c = getattr(o, slot)
                note(x, slot, [tag(c)], 'visleafs' if isinstance(c, B.VisLeaf) else 'nodes', c)
            note(x, 'plane', [tag(o.plane)], 'planes', o.plane)
            note(x, 'faces', [tag(f) for f in o.faces])
        elif isinstance(o, B.LeafWaterInfo):
            note(x, 'texinfo', [tag(o.surface_texinfo)], 'texinfo', o.surface_texinfo)
        elif isinstance(o, B.Overlay):
            note(x, 'texinfo', [tag(o.texture)], 'texinfo', o.texture)
        elif isinstance(o, B.TexInfo):
            note(x, 'texdata', [f'd{int(o._info.reflectivity.x)}'])
            note(f'd{int(o._info.reflectivity.x)}', 'mat', [o._info.mat])
        elif isinstance(o, B.BModel):
            note(x, 'node', [tag(o.node)], 'nodes', o.node)
            note(x, 'faces', [tag(f) for f in o.faces])
        elif isinstance(o, B.StaticProp):
            note(x, 'leafs', sorted(tag(lf) for lf in o.visleafs))
    for t, lst in views.items():
        if t != 'textures':
            for o in lst:
                visit(o)
    ent_list = [new.ents.spawn] + list(new.ents.entities)
    for ent in ent_list:
        mdl = models.get(ent)
        obs['entmodels'].append(tag(mdl) if mdl is not None else '')
        if mdl is not None:
            visit(mdl)
    return obs


def graph_records(out: hlib.RecWriter, part: int, parts: int, worlds_file: str | None) -> dict:
    n = 0
    if worlds_file:
        with open(worlds_file) as f:
            tlc_worlds = json.load(f)
        for k, w in enumerate(tlc_worlds):
            if k % parts != part:
                continue
            if not THOROUGH and (k // parts + hlib.seed()) % 2:
                continue        # quick tier: every second enumerated world (which half depends on the seed)
            w = complete_world(w)
            write_graph(out, w, 'v20', 'tlc')
            n += 1
    total = 2400 if THOROUGH else 320
    for k in range(total):
        if k % parts != part:
            continue
        rng = random.Random(f'{hlib.seed()}/world/{k}')
        w = gen_world(rng, small=k % 3 == 0)
        layout = ['v20', 'v20', 'v19', 'v21', 'l4d2', 'infra', 'chaos'][k % 7]
        write_graph(out, w, layout, 'random')
        n += 1
    return {'worlds': n}


def complete_world(w: dict) -> dict:
    """Worlds enumerated by TLC name only the tables/slots that vary; fill in the rest."""
    kind = dict(w['kind'])
    one = {k: dict(v) for k, v in w['one'].items()}
    many = {k: {s: list(x) for s, x in v.items()} for k, v in w['many'].items()}
    tables = {t: list(v) for t, v in w['tables'].items()}
    for t in list(VIEW_OF_TABLE) + ['textures', 'bmodels']:
        tables.setdefault(t, [])
    for x in kind:
        one.setdefault(x, {})
        many.setdefault(x, {})
    fold = dict(w.get('fold', {}))
    return {'ids': sorted(kind) + sorted(fold), 'kind': kind, 'tables': tables, 'one': one, 'many': many, 'fold': fold}


_WATER_SELF: list = []


def water_self() -> bool:
    """Measured, not assumed: does the LEAFWATERDATA writer write the list it is given, or the view it
    reads back from the BSP?  (Probe: hand it one entry while the BSP's own view is empty.)"""
    if not _WATER_SELF:
        bsp = base_bsp('v20', 'probe')
        ti = bsp.create_texinfo('tools/probe', reflectivity=Vec(0.5, 0.5, 0.5), width=16, height=16)
        bsp.water_leaf_info = []
        res = bsp._lmp_write_water_leaf_info([B.LeafWaterInfo(1.0, 0.0, ti)])
        data = res if isinstance(res, bytes) else b''.join(res)
        _WATER_SELF.append(len(data) == 0)
    return _WATER_SELF[0]


def write_graph(out: hlib.RecWriter, w: dict, layout: str, src: str) -> None:
    obs = run_world(w, layout)
    orig_none = any(w['one'][x].get('orig') == '' for x in w['kind'] if w['kind'][x] in ('face', 'hdrface')
                    and (x in w['tables']['faces'] or x in w['tables']['hdr_faces']))
    none_refs = any(w['one'][x].get('orig') == '' or w['one'][x].get('texinfo') == ''
                    for x in w['kind'] if w['kind'][x] in ('face', 'hdrface'))
    out.write({'k': 'graph', 'w': w, 'obs': obs, 'waterSelf': water_self(), 'noneRefs': none_refs,
               'sig': {'kind': 'graph', 'action': 'save', 'layout': layout, 'src': src, 'origNone': orig_none,
                       'error': obs['error']}})


# ====================================================================== static props
PROP_DEFAULT = {'fade_scale': '1.0', 'min_dx_level': '0', 'max_dx_level': '0', 'min_cpu_level': '0', 'max_cpu_level': '0',
                'min_gpu_level': '0', 'max_gpu_level': '0', 'tint': '255 255 255', 'renderfx': '255',
                'disable_on_xbox': 'False', 'lightmap_x': '32', 'lightmap_y': '32'}


def prop_attr(p, name: str) -> str:
    v = getattr(p, name)
    if isinstance(v, Vec):
        return f'{int(v.x)} {int(v.y)} {int(v.z)}' if name == 'tint' else f'{v.x!r} {v.y!r} {v.z!r}'
    if isinstance(v, Angle):
        return f'{v.pitch!r} {v.yaw!r} {v.roll!r}'
    if isinstance(v, bool):
        return str(v)
    if isinstance(v, float):
        return repr(float(v))
    if isinstance(v, int):
        return str(v) if name != 'fade_scale' else repr(float(v))
    return str(v)


def props_records(out: hlib.RecWriter, rng: random.Random) -> None:
    f32 = lambda lo, hi: rng.randint(lo * 8, hi * 8) / 8.0
    plan = []
    for fmt in sorted(S.SPRP):
        layouts = ['chaos'] if 'CHAOS' in fmt else (['v21', 'l4d2'] if fmt == 'V11' else (['v20'] if fmt == 'V_LIGHTMAP_MESA'
                                                                                         else ['v20', 'v19', 'infra']))
        plan += [(fmt, layout, 'set') for layout in layouts]
    # 'blind': the view is replaced without having been read, and the format is left to the writer
    # (StaticPropVersion.DEFAULT = V5); the file's game lump says whatever the original file used
    plan += [('V5', layout, 'blind') for layout in ('v19', 'v20', 'v21', 'chaos')]
    for fmt, layout, scenario in plan:
        ver, size = S.SPRP[fmt]
        if True:
            for trial in range(6 if THOROUGH else 2):
                bsp = base_bsp(layout)
                leaf = bsp.visleafs[0]
                props = []
                for i in range(rng.randint(1, 3)):
                    scaling = rng.choice([Vec(f32(0, 4), f32(0, 4), f32(0, 4)), f32(0, 4)])
                    props.append(B.StaticProp(
                        model=rng.choice(['models/a.mdl', 'models/props/b.mdl', 'm' * 127 + 'x', 'models/a.mdl']),
                        origin=Vec(f32(-999, 999), f32(-999, 999), f32(-999, 999)),
                        angles=Angle(f32(0, 359), f32(0, 359), f32(0, 359)), scaling=scaling,
                        visleafs={leaf} if rng.random() < 0.7 else set(), solidity=rng.choice([0, 2, 6, 255]),
                        flags=B.StaticPropFlags(rng.choice([0, 1, 0x10 | 0x80, 0xFF, 0x100, 0x400 | 0x4, 0x1FF, 0x8000 | 0x2])),
                        skin=rng.choice([0, 1, -1, 70000]), min_fade=f32(0, 100), max_fade=f32(100, 900),
                        lighting=Vec(f32(-99, 99), f32(-99, 99), f32(-99, 99)), fade_scale=rng.choice([-1.0, 1.0, 0.5, 7.25]),
                        min_dx_level=rng.choice([0, 70, 65535]), max_dx_level=rng.choice([0, 95]),
                        min_cpu_level=rng.choice([0, 1, 255]), max_cpu_level=rng.choice([0, 3]),
                        min_gpu_level=rng.choice([0, 2]), max_gpu_level=rng.choice([0, 255]),
                        tint=Vec(rng.choice([0, 255, 17]), rng.choice([0, 255, 128]), rng.choice([1, 254])),
                        renderfx=rng.choice([0, 255, 9]), disable_on_xbox=rng.random() < 0.5,
                        lightmap_x=rng.choice([32, 0, 65535, 48]), lightmap_y=rng.choice([32, 1, 1024])))
                bsp.props = props
                if scenario == 'set':
                    bsp.static_prop_version = B.StaticPropVersion[fmt]
                    bsp.game_lumps[b'sprp'].version = ver
                path = os.path.join(TMP, 'props.bsp')
                err = ''
                back: list = []
                detected = ''
                lumpver = -1
                try:
                    quiet_save(bsp, path)
                    new = BSP(path)
                    lumpver = new.game_lumps[b'sprp'].version
                    back = new.props
                    detected = new.static_prop_version.name
                except Exception as exc:
                    err = type(exc).__name__
                always = ['model', 'origin', 'angles', 'solidity', 'skin', 'min_fade', 'max_fade', 'lighting']
                rows = []
                for i, p in enumerate(props):
                    q = back[i] if i < len(back) else None
                    sc = p.scaling if isinstance(p.scaling, Vec) else Vec(p.scaling, p.scaling, p.scaling)
                    row = {'always': [[a, prop_attr(p, a), prop_attr(q, a) if q else '?'] for a in always],
                           'attrs': [[a, prop_attr(p, a), prop_attr(q, a) if q else '?'] for a in sorted(PROP_DEFAULT)],
                           'default': [[a, PROP_DEFAULT[a]] for a in sorted(PROP_DEFAULT)],
                           'flags': [p.flags.value, q.flags.value if q else -1],
                           'scaling': [[repr(sc.x), repr(sc.y), repr(sc.z)],
                                       [repr(q.scaling.x), repr(q.scaling.y), repr(q.scaling.z)] if q else []],
                           'leafs': [len(p.visleafs), len(q.visleafs) if q else -1]}
                    rows.append(row)
                out.write({'k': 'prop', 'fmt': fmt, 'size': B.StaticPropVersion[fmt].size, 'lumpver': lumpver, 'detected': detected,
                           'n': [len(props), len(back)], 'rows': rows, 'error': err,
                           'sig': {'kind': 'prop', 'action': 'roundtrip', 'fmt': fmt, 'layout': layout, 'src': 'random',
                                   'scenario': scenario}})


# ====================================================================== Fits
def limbs(v: int) -> list:
    hi, lo = divmod(v, 65536)
    return [hi, lo]


def fits_cases(layout: str) -> list:
    """(field of the spec's code table, build(bsp, v) -> (view name, getter(new bsp) -> value read back))."""
    def leaf(**kw):
        args = dict(contents=B.BrushContents.EMPTY, cluster_id=0, area=0, flags=B.VisLeafFlags.NONE, mins=Vec(), maxes=Vec(),
                    faces=[], brushes=[], water_id=-1)
        args.update(kw)
        return B.VisLeaf(**args)

    def with_leaf(attr, conv=lambda v: v, get=None):
        def build(bsp, v):
            lf = leaf(**{attr: conv(v)})
            bsp.visleafs = [lf]
            bsp.nodes[0].child_pos = bsp.nodes[0].child_neg = lf
            return lambda new: (get or (lambda x: getattr(x, attr)))(new.visleafs[0])
        return build

    def with_node(setter, getter):
        def build(bsp, v):
            setter(bsp.nodes[0], v)
            return lambda new: getter(new.nodes[0])
        return build

    def face(bsp, **kw):
        args = dict(plane=bsp.planes[0], same_dir_as_plane=False, on_node=False, edges=[], texinfo=None, dispinfo_ind=-1,
                    surf_fog_volume_id=-1, light_styles=b'\0\0\0\0', lightmap_off=-1, area=1.0, lightmap_mins=(0, 0),
                    lightmap_size=(0, 0), orig_face=None, primitives=[], dynamic_shadows=True, smoothing_groups=0,
                    hammer_id=None, vitamin_flags=0)
        args.update(kw)
        return B.Face(**args)

    def with_face(view, attr, conv=lambda v: v, get=None):
        def build(bsp, v):
            setattr(bsp, view, [face(bsp, **{attr: conv(v)})])
            return lambda new: (get or (lambda x: getattr(x, '_' + attr if attr in ('dispinfo_ind', 'lightmap_off') else attr)))(
                getattr(new, view)[0])
        return build

    def with_prop(fmt, attr):
        def build(bsp, v):
            bsp.static_prop_version = B.StaticPropVersion[fmt]
            bsp.game_lumps[b'sprp'].version = S.SPRP[fmt][0]
            bsp.props = [B.StaticProp('models/a.mdl', Vec(), **{attr: v})]
            return lambda new: getattr(new.props[0], attr)
        return build

    def with_detail(attr):
        def build(bsp, v):
            kw = dict(origin=Vec(), angles=Angle(), orientation=B.DetailPropOrientation.NORMAL, leaf=0, lighting=(1, 2, 3, 4),
                      light_styles=(0, 0), sway_amount=0, model='models/d.mdl')
            kw[attr] = v
            bsp.detail_props = [B.DetailPropModel(**kw)]
            return lambda new: getattr(new.detail_props[0], attr)
        return build

    def cube(attr):
        def build(bsp, v):
            bsp.cubemaps = [B.Cubemap(Vec(float(v), 0, 0), 0) if attr == 'origin' else B.Cubemap(Vec(), v)]
            return lambda new: int(new.cubemaps[0].origin.x) if attr == 'origin' else new.cubemaps[0].size
        return build

    def overlay(attr):
        def build(bsp, v):
            ti = bsp.create_texinfo('tools/x', reflectivity=Vec(0.5, 0.5, 0.5), width=16, height=16)
            bsp.overlays = [B.Overlay(**{'id': 1, 'origin': Vec(), 'normal': Vec(0, 0, 1), 'texture': ti, 'face_count': 0, attr: v})]
            return lambda new: getattr(new.overlays[0], attr)
        return build

    def side_disp(bsp, v):
        ti = bsp.create_texinfo('tools/x', reflectivity=Vec(0.5, 0.5, 0.5), width=16, height=16)
        bsp.brushes = [B.Brush(B.BrushContents.SOLID, [B.BrushSide(bsp.planes[0], ti, v, False, 0)])]
        return lambda new: new.brushes[0].sides[0]._dispinfo

    def brush_contents(bsp, v):
        bsp.brushes = [B.Brush(B.BrushContents(v), [])]
        return lambda new: new.brushes[0].contents.value

    def texdata_size(bsp, v):
        bsp.texinfo = []
        bsp.create_texinfo('tools/y', reflectivity=Vec(0.5, 0.5, 0.5), width=v, height=4)
        return lambda new: new.texinfo[0].tex_size[0]

    def model_name(kind):
        def build(bsp, v):
            name = 'm' * v
            if kind == 'prop':
                bsp.static_prop_version = B.StaticPropVersion.V10
                bsp.game_lumps[b'sprp'].version = 10
                bsp.props = [B.StaticProp(name, Vec())]
                return lambda new: len(new.props[0].model)
            if kind == 'detail':
                bsp.detail_props = [B.DetailPropModel(Vec(), Angle(), B.DetailPropOrientation.NORMAL, 0, (1, 2, 3, 4), (0, 0), 0, name)]
                return lambda new: len(new.detail_props[0].model)
            bsp.textures = [name]
            return lambda new: len(new.textures[0])
        return build

    def styles(bsp, v):
        bsp.orig_faces = [face(bsp, light_styles=bytes(range(1, v + 1)))]
        return lambda new: len(new.orig_faces[0].light_styles.rstrip(b'\0')) if v <= 4 else -1

    def node_bound(n, v):
        n.mins = Vec(float(v), 0, 0)
    cases = [
        ('node_area', with_node(lambda n, v: setattr(n, 'area_ind', v), lambda n: n.area_ind)),
        ('node_bound', with_node(node_bound, lambda n: int(n.mins.x))),
        ('leaf_cluster', with_leaf('cluster_id')),
        ('leaf_water', with_leaf('water_id')),
        ('leaf_min_water_dist', with_leaf('min_water_dist')),
        ('leaf_bound', with_leaf('mins', lambda v: Vec(float(v), 0, 0), lambda lf: int(lf.mins.x))),
        ('face_dispinfo', with_face('orig_faces', 'dispinfo_ind')),
        ('face_fog', with_face('orig_faces', 'surf_fog_volume_id')),
        ('face_lightofs', with_face('orig_faces', 'lightmap_off')),
        ('face_lm', with_face('orig_faces', 'lightmap_mins', lambda v: (v, 0), lambda f: f.lightmap_mins[0])),
        ('face_smoothing', with_face('orig_faces', 'smoothing_groups')),
        ('side_dispinfo', side_disp),
        ('brush_contents', brush_contents),
        ('cubemap_size', cube('size')),
        ('cubemap_origin', cube('origin')),
        ('overlay_id', overlay('id')),
        ('overlay_level', overlay('min_cpu')),
        ('prop_skin', with_prop('V10', 'skin')),
        ('prop_solidity', with_prop('V10', 'solidity')),
        ('prop_dx', with_prop('V6', 'min_dx_level')),
        ('prop_cpu_gpu', with_prop('V10', 'max_gpu_level')),
        ('prop_renderfx', with_prop('V10', 'renderfx')),
        ('prop_lightmap', with_prop('V_LIGHTMAP_v10', 'lightmap_x')),
        ('detail_leaf', with_detail('leaf')),
        ('detail_sway', with_detail('sway_amount')),
        ('texdata_size', texdata_size),
        ('len_prop_model', model_name('prop')),
        ('len_detail_model', model_name('detail')),
        ('len_texture', model_name('texture')),
        ('len_face_styles', styles),
    ]
    if layout == 'vitamin':
        cases = [c for c in cases if not c[0].startswith('face_') and c[0] != 'len_face_styles']
    if layout == 'chaos':       # float fields in this layout
        cases = [c for c in cases if c[0] not in ('node_bound', 'leaf_bound')]
    return cases


def count_cases(layout: str) -> list:
    """(field, build(bsp, n) -> getter, values, quick?) for count / index / packed fields.  Large lists are n references
    to ONE object, so building them is cheap."""
    vit = layout == 'vitamin'

    def mkface(bsp, **kw):
        args = dict(plane=bsp.planes[0], same_dir_as_plane=False, on_node=False, edges=[], texinfo=None, dispinfo_ind=-1,
                    surf_fog_volume_id=-1, light_styles=b'\0\0\0\0', lightmap_off=-1, area=1.0, lightmap_mins=(0, 0),
                    lightmap_size=(0, 0), orig_face=None, primitives=[], dynamic_shadows=True, smoothing_groups=0,
                    hammer_id=None, vitamin_flags=0)
        args.update(kw)
        return B.Face(**args)
    tex = lambda bsp: bsp.create_texinfo('tools/cnt', reflectivity=Vec(0.5, 0.5, 0.5), width=16, height=16)

    def face_prims(shadows):
        def build(bsp, n):
            prim = B.Primitive(False, [], [])
            bsp.orig_faces = [mkface(bsp, primitives=[prim] * n, dynamic_shadows=shadows)]

            def get(new):
                f = new.orig_faces[0]
                return len(f.primitives) if bool(f.dynamic_shadows) == shadows else -1
            return get
        return build

    def face_edges(bsp, n):
        e = B.Edge(Vec(1, 0, 0), Vec(1, 1, 0))
        kind = 'faces' if vit else 'orig_faces'
        setattr(bsp, kind, [mkface(bsp, edges=[e] * n, texinfo=tex(bsp) if vit else None)])
        return lambda new: len(getattr(new, kind)[0].edges)

    def prim_verts(bsp, n):
        v = Vec(1.5, 2, 3)
        bsp.primitives = [B.Primitive(True, [], [v] * n)]
        return lambda new: len(new.primitives[0].verts)

    def prim_inds(bsp, n):
        bsp.primitives = [B.Primitive(True, [7] * n, [])]
        return lambda new: len(new.primitives[0].indexed_verts)

    def leaf_area(bsp, n):
        lf = B.VisLeaf(B.BrushContents.EMPTY, 0, n, B.VisLeafFlags(0x7f if not vit else 1), Vec(), Vec(), [], [], -1)
        bsp.visleafs = [lf]
        bsp.nodes[0].child_pos = bsp.nodes[0].child_neg = lf
        return lambda new: new.visleafs[0].area if new.visleafs[0].flags.value == (0x7f if not vit else 1) else -1

    def overlay_faces(bsp, n):
        bsp.overlays = [B.Overlay(5, Vec(), Vec(0, 0, 1), tex(bsp), n, list(range(n)), 3)]
        return lambda new: len(new.overlays[0].faces) if new.overlays[0].render_order == 3 else -1

    def overlay_order(bsp, n):
        bsp.overlays = [B.Overlay(5, Vec(), Vec(0, 0, 1), tex(bsp), 64, list(range(64)), n)]
        return lambda new: new.overlays[0].render_order if len(new.overlays[0].faces) == 64 else -1

    def node_faces(bsp, n):
        bsp.orig_faces = [mkface(bsp)]
        f = mkface(bsp, texinfo=tex(bsp), orig_face=bsp.orig_faces[0])
        bsp.faces = []
        bsp.nodes[0].faces = [f] * n
        return lambda new: len(new.nodes[0].faces)

    def leaf_faces(bsp, n):
        bsp.orig_faces = [mkface(bsp)]
        f = mkface(bsp, texinfo=tex(bsp), orig_face=bsp.orig_faces[0])
        lf = B.VisLeaf(B.BrushContents.EMPTY, 0, 0, B.VisLeafFlags.NONE, Vec(), Vec(), [f] * n, [], -1)
        bsp.faces = [f]
        bsp.visleafs = [lf]
        bsp.nodes[0].child_pos = bsp.nodes[0].child_neg = lf
        return lambda new: len(new.visleafs[0].faces)

    def prop_leafs(bsp, n):
        leafs = [B.VisLeaf(B.BrushContents.EMPTY, 0, 0, B.VisLeafFlags.NONE, Vec(), Vec(), [], [], -1) for _ in range(n)]
        bsp.visleafs = leafs or [bsp.visleafs[0]]
        bsp.nodes[0].child_pos = bsp.nodes[0].child_neg = bsp.visleafs[0]
        bsp.static_prop_version = B.StaticPropVersion.V10
        bsp.game_lumps[b'sprp'].version = 10
        bsp.props = [B.StaticProp('models/a.mdl', Vec(), visleafs=set(leafs))]
        return lambda new: len(new.props[0].visleafs)

    def face_texinfo(bsp, n):
        first = tex(bsp)
        bsp.texinfo = [first] * n + [B.TexInfo(Vec(1, 0, 0), 9.0, Vec(0, 1, 0), 2.0, Vec(), 0.0, Vec(), 0.0, SurfFlags.NONE, first._info)]
        bsp.orig_faces = [mkface(bsp)]
        bsp.faces = [mkface(bsp, texinfo=bsp.texinfo[-1], orig_face=bsp.orig_faces[0])]
        return lambda new: n if new.faces[0].texinfo.s_shift == 9.0 else -1

    def water_texinfo(bsp, n):
        first = tex(bsp)
        bsp.texinfo = [first] * n + [B.TexInfo(Vec(1, 0, 0), 9.0, Vec(0, 1, 0), 2.0, Vec(), 0.0, Vec(), 0.0, SurfFlags.NONE, first._info)]
        bsp.water_leaf_info = [B.LeafWaterInfo(1.5, 0.5, bsp.texinfo[-1])]
        return lambda new: n if new.water_leaf_info[0].surface_texinfo.s_shift == 9.0 else -1

    def first_prim(bsp, n):
        p, q = B.Primitive(False, [], []), B.Primitive(True, [4], [])
        bsp.primitives = [p] * n + [q]
        bsp.orig_faces = [mkface(bsp, primitives=[q])]
        return lambda new: n if [x.indexed_verts for x in new.orig_faces[0].primitives] == [[4]] else -1
    edge_max = 32767 if layout in ('v20', 'infra') else None
    cases = []
    if not vit:
        cases += [('cnt_face_prims', face_prims(True), [0, 1, 32767, 32768, 65535, 65536], True),
                  ('cnt_face_prims_noshadow', face_prims(False), [0, 1, 32767, 32768, 65535, 65536], True),
                  ('cnt_overlay_faces', overlay_faces, [0, 1, 63, 64, 65, 16383, 16384], True),
                  ('overlay_render_order', overlay_order, [0, 3, 4], True)]
    cases += [('pack_leaf_area', leaf_area, {'chaos': [0, 255, 256, 16383, 16384], 'vitamin': [0, 255, 256, 32767, 32768]}.get(
        layout, [0, 1, 255, 256, 511, 512]), True)]
    if edge_max:
        cases += [('cnt_face_edges', face_edges, [0, 32767, 32768], True)]
    if layout in ('v20', 'infra', 'vitamin') and not vit:
        cases += [('cnt_prim_verts', prim_verts, [0, 65535, 65536], True)]
    if layout == 'v20':
        cases += [('cnt_prim_inds', prim_inds, [0, 65535, 65536], True),
                  ('cnt_leaf_faces', leaf_faces, [0, 65535, 65536], True),
                  ('cnt_node_faces', node_faces, [65535, 65536], True),
                  ('cnt_prop_leafs', prop_leafs, [65535, 65536], True),
                  ('idx_face_texinfo', face_texinfo, [32767, 32768], True),
                  ('idx_water_texinfo', water_texinfo, [65535, 65536], True),
                  ('idx_face_first_prim', first_prim, [65535, 65536], True)]
    return cases


BOUNDS = [-(2 ** 31) - 1, -(2 ** 31), -65536, -32769, -32768, -129, -128, -1, 0, 1, 127, 128, 254, 255, 256, 32767, 32768, 65535,
          65536, 2 ** 31 - 1, 2 ** 31, 2 ** 32 - 1, 2 ** 32]


def fits_records(out: hlib.RecWriter, rng: random.Random) -> None:
    for layout in ('v20', 'chaos', 'vitamin', 'infra'):
        plan = [(field, build, None) for field, build in fits_cases(layout)]
        plan += [(field, build, vals) for field, build, vals, quick in count_cases(layout) ]
        for field, build, vals in plan:
            if vals is not None:
                values = vals
            elif field.startswith('len_'):
                values = [0, 1, 4, 5, 127, 128, 129, 300] if field != 'len_face_styles' else [4, 5, 8]
            else:
                values = BOUNDS
            if field == 'brush_contents':
                values = [v for v in values if v >= 0]
            for v in values:
                bsp = base_bsp(layout)
                path = os.path.join(TMP, 'fits.bsp')
                err = ''
                try:
                    getter = build(bsp, v)
                    quiet_save(bsp, path)
                    got = getter(BSP(path))
                    outcome = 'same' if got == v else 'changed'
                except Exception as exc:
                    outcome = 'error'
                    err = type(exc).__name__
                    got = None
                out.write({'k': 'fits', 'layout': layout, 'field': field, 'v': limbs(v), 'outcome': outcome, 'exc': err,
                           'got': limbs(got) if isinstance(got, int) else [0, 0],
                           'sig': {'kind': 'fits', 'action': 'assign', 'layout': layout, 'field': field, 'outcome': outcome,
                                   'value': str(v), 'src': 'bounds'}})


# ====================================================================== transplant
def transplant_records(out: hlib.RecWriter, rng: random.Random) -> None:
    """Every view of a populated file (parsed by the reader under test from the independent encoder's
    bytes) is assigned to an EMPTY BSP of the same layout; the file saved from that must project equal."""
    jobs = []
    for layout in S.LAYOUTS:
        for seed in range(3 if THOROUGH else 1):
            jobs.append((layout, hlib.seed() * 100 + seed, None))
    for k, fmt in enumerate(sorted(S.SPRP)):
        lay = 'chaos' if 'CHAOS' in fmt else ('v21' if fmt == 'V11' else 'v20')
        jobs.append((lay, 1000 + hlib.seed(), fmt))
    for layout, wseed, fmt in jobs:
        world = S.make_world(layout, wseed, sprp=fmt)
        src_path = os.path.join(TMP, 'tp_src.bsp')
        with open(src_path, 'wb') as f:
            f.write(S.build(world))
        ref = L.project_file(src_path)
        a = BSP(src_path)
        b = base_bsp(layout, 'tp')
        err = ''
        diff: list = []
        try:
            order = ['textures', 'texinfo', 'planes', 'vertexes', 'surfedges', 'primitives', 'orig_faces', 'faces', 'hdr_faces',
                     'brushes', 'visleafs', 'water_leaf_info', 'nodes', 'visibility', 'ents', 'bmodels', 'cubemaps', 'overlays',
                     'pakfile', 'props', 'detail_props']
            vals = {v: getattr(a, v) for v in order}
            for v in order:
                setattr(b, v, vals[v])
            b.static_prop_version = a.static_prop_version
            b.game_lumps[b'sprp'].version = a.game_lumps[b'sprp'].version
            b.out_comma_sep = a.out_comma_sep
            dst = os.path.join(TMP, 'tp_dst.bsp')
            quiet_save(b, dst)
            new = L.project_file(dst)
            for name in L.PROJECT_ORDER:
                for lab in sorted(L.diff_labels(ref['views'][name], new['views'][name], name, set())):
                    diff.append([name, lab])
        except Exception as exc:
            err = f'{type(exc).__name__}'
        out.write({'k': 'rt', 'layout': layout, 'wseed': wseed, 'fmt': fmt or world['sprp']['fmt'], 'diff': diff, 'error': err,
                   'sig': {'kind': 'rt', 'action': 'transplant', 'layout': layout, 'src': 'synth'}})


def empty_compressed_records(out: hlib.RecWriter) -> None:
    """A view of an LZMA-compressed lump replaced by a legal value that serialises to nothing
    (visibility = None: VVIS has not run; cubemaps = [])."""
    for layout in ('v20', 'l4d2'):
        for view, value, lump in (('visibility', None, 'VISIBILITY'), ('cubemaps', [], 'CUBEMAPS')):
            world = S.make_world(layout, 7)
            src_path = os.path.join(TMP, 'ec_src.bsp')
            with open(src_path, 'wb') as f:
                f.write(S.build(world, compress='all'))
            ref = L.project_file(src_path)
            ref['views'][view] = value
            err = ''
            diff: list = []
            try:
                b = BSP(src_path)
                setattr(b, view, value)
                dst = os.path.join(TMP, 'ec_dst.bsp')
                quiet_save(b, dst)
                new = L.project_file(dst)
                for name in L.PROJECT_ORDER:
                    for lab in sorted(L.diff_labels(ref['views'][name], new['views'][name], name, set())):
                        diff.append([name, lab])
                if new['errors']:
                    diff.append([view, 'unreadable'])
            except Exception as exc:    # noqa: BLE001
                err = type(exc).__name__
            out.write({'k': 'rt', 'layout': layout, 'wseed': 7, 'fmt': view, 'diff': diff, 'error': err,
                       'sig': {'kind': 'rt', 'action': 'emptyCompressed', 'layout': layout, 'src': 'synth', 'view': view}})


def ents_records(out: hlib.RecWriter, rng: random.Random) -> None:
    """Entity lumps built through the VMF API: keys, values with every character the escape table
    knows, outputs with either separator."""
    from srctools.vmf import Output
    values = ['', '0', 'a b', '1 2 3', 'models/props/a.mdl', 'say "hi"', 'back\\slash', 'tab\there', 'line\nbreak',
              "it's", ' lead', 'trail ', 'a,b,c', 'ümlaut'.encode('utf8').decode('ascii', 'surrogateescape'), '{brace}', '// no comment',
              '\\"', '*12', 'x' * 300]
    keys = ['targetname', 'origin', 'angles', 'message', 'spawnflags', 'Mixed_Case', 'rendercolor', 'parentname', 'k9', 'model_alt']
    for n in range(240 if THOROUGH else 40):
        layout = rng.choice(['v20', 'v21', 'v19', 'chaos'])
        sep_mode = rng.choice([True, False, None])
        bsp = base_bsp(layout)
        vmf = VMF()
        vmf.spawn['classname'] = 'worldspawn'
        for k in rng.sample(keys, rng.randint(0, 3)):
            vmf.spawn[k] = rng.choice(values)
        for _ in range(rng.randint(0, 4)):
            ent = Entity(vmf, {'classname': rng.choice(['info_target', 'logic_relay', 'func_button'])})
            for k in rng.sample(keys, rng.randint(0, 5)):
                ent[k] = rng.choice(values)
            for _ in range(rng.randint(0, 3)):
                comma = rng.random() < 0.5 if sep_mode is None else sep_mode
                param = rng.choice(['', '1', 'a b', 'say "x"', 'p\\q'] + ([] if comma else ['a,b', '1,2,3,4']))
                ent.add_out(Output(rng.choice(['OnTrigger', 'OnUser1', 'OnMapSpawn']), rng.choice(['tgt', '!self', 'a*']),
                                   rng.choice(['Kill', 'FireUser1', 'SetValue']), param, rng.choice([0.0, 0.5, 1.25, 10.0, 0.015625]),
                                   times=rng.choice([-1, 1, 3]), comma_sep=comma,
                                   inst_out=rng.choice([None, None, 'inner']), inst_in=rng.choice([None, None, 'rel'])))
            vmf.add_ent(ent)
        err = ''
        diff: list = []
        try:
            bsp.ents = vmf
            bsp.out_comma_sep = sep_mode
            path = os.path.join(TMP, 'ents.bsp')
            quiet_save(bsp, path)
            want = L.Projector(bsp)
            bsp.ents = vmf      # (save() popped the view; project the very objects that were written)
            exp = want.view('ents')
            got = L.Projector(BSP(path)).view('ents')
            diff = [['ents', lab] for lab in sorted(L.diff_labels(exp, got, 'ents', set()))]
        except Exception as exc:    # noqa: BLE001
            err = type(exc).__name__
        out.write({'k': 'rt', 'layout': layout, 'wseed': n, 'fmt': 'ents', 'diff': diff, 'error': err,
                   'sig': {'kind': 'rt', 'action': 'ents', 'layout': layout, 'src': 'random', 'sep': str(sep_mode)}})


# ====================================================================== optional parts, independently
def realise_part(c: dict, bsp: BSP):
    """Builds the value of combination c (generic, non-default numbers) on the empty BSP, assigns it and
    returns (views to compare, describe(new bsp) -> the same description of what was re-read)."""
    from zipfile import ZipFile
    from srctools.keyvalues import Keyvalues
    from srctools.vmf import Output
    lump = c['lump']
    tex = lambda name='tools/part': bsp.create_texinfo(name, reflectivity=Vec(0.25, 0.5, 0.75), width=64, height=32)
    if lump == 'bmodels':
        kv = {'none': None, 'empty': Keyvalues.root(),
              'full': Keyvalues.root(Keyvalues('solid', [Keyvalues('index', '0'), Keyvalues('mass', '12.5')]))}[c['kv']]
        solids = [b'VPHY' + bytes([k + 1] * (5 + 3 * k)) for k in range(c['solids'])]
        mdl = B.BModel(Vec(-8.5, -16, -1), Vec(8, 16.25, 64), Vec(1.5, -2, 3), bsp.nodes[0], [], kv, solids)
        vmf = bsp.ents
        bm = bsp.bmodels
        if c['where'] == 'world':
            bm[vmf.spawn] = mdl
            key = -1
        else:
            ent = Entity(vmf, {'classname': 'func_brush', 'targetname': 'part'})
            vmf.add_ent(ent)
            bm[ent] = mdl
            key = 0
        bsp.bmodels = bm

        def describe(new: BSP) -> dict:
            ents = [new.ents.spawn] + list(new.ents.entities)
            m = new.bmodels[ents[key + 1]]
            k = 'none' if m.phys_keyvalues is None else ('full' if len(list(m.phys_keyvalues)) else 'empty')
            return dict(c, kv=k, solids=len(m._phys_solids))
        return ['bmodels'], describe
    if lump == 'overlays':
        ov = B.Overlay(77, Vec(1.5, 2, 3), Vec(0, 0.5, 1), tex(), c['faces'], list(range(5, 5 + c['faces'])), c['order'],
                       0.125, 0.875, 0.25, 0.75, Vec(-3, -4, 0), Vec(-3, 4.5, 0), Vec(3, 4, 1), Vec(3.5, -4, 0))
        if c['fades'] == 'set':
            ov.fade_min_sq, ov.fade_max_sq = 100.5, 40000.0
        if c['levels'] == 'set':
            ov.min_cpu, ov.max_cpu, ov.min_gpu, ov.max_gpu = 1, 3, 2, 254
        bsp.overlays = [ov]

        def describe(new: BSP) -> dict:
            o = new.overlays[0]
            return dict(c, faces=len(o.faces), order=o.render_order,
                        fades='default' if (o.fade_min_sq, o.fade_max_sq) == (-1.0, 0.0) else 'set',
                        levels='zero' if (o.min_cpu, o.max_cpu, o.min_gpu, o.max_gpu) == (0, 0, 0, 0) else 'set')
        return ['overlays'], describe
    if lump == 'cubemaps':
        bsp.cubemaps = [B.Cubemap(Vec(128 * k - 7, 33, -5), c['size']) for k in range(c['count'])]
        return ['cubemaps'], lambda new: dict(c, count=len(new.cubemaps), size=new.cubemaps[0].size if new.cubemaps else c['size'])
    if lump == 'props':
        leafs = [bsp.visleafs[0], B.VisLeaf(B.BrushContents.EMPTY, 5, 1, B.VisLeafFlags.NONE, Vec(-1, -2, -3), Vec(4, 5, 6), [], [], -1)]
        bsp.visleafs = leafs
        bsp.static_prop_version = B.StaticPropVersion[c['fmt']]
        bsp.game_lumps[b'sprp'].version = S.SPRP[c['fmt']][0]
        bsp.props = [B.StaticProp(f'models/part{k}.mdl', Vec(10.5 + k, -3, 7), Angle(15, 270, 0.5), visleafs=set(leafs[:c['leafs']]),
                                  solidity=2, skin=3 + k, min_fade=10.5, max_fade=200.0, lighting=Vec(1, 2, 3.5), fade_scale=0.5)
                     for k in range(c['count'])]

        def describe(new: BSP) -> dict:
            pr = new.props
            return dict(c, count=len(pr), leafs=len(pr[0].visleafs) if pr else c['leafs'],
                        fmt=new.static_prop_version.name if pr else c['fmt'])
        return ['props'], describe
    if lump == 'detail_props':
        def mk(kind: str, k: int):
            base = dict(origin=Vec(1.5 * k, 2, -3), angles=Angle(0, 45.5, 0), orientation=B.DetailPropOrientation.SCREEN_ALIGNED,
                        leaf=k, lighting=(10, 20, 30 + k, 255), light_styles=(65537, 2), sway_amount=9)
            if kind == 'model':
                return B.DetailPropModel(model=f'models/detail{k}.mdl', **base)
            spr = dict(sprite_scale=1.5, dims_upper_left=(0.5, 1.0), dims_lower_right=(2.0, 0.25),
                       texcoord_upper_left=(0.125, 0.25), texcoord_lower_right=(0.75, 0.875))
            if kind == 'sprite':
                return B.DetailPropSprite(**base, **spr)
            return B.DetailPropShape(**base, **spr, is_cross=kind == 'cross', shape_angle=30, shape_size=12)
        bsp.detail_props = [mk(kind, k) for k, kind in enumerate(c['kinds'])]

        def kind_of(p) -> str:
            if isinstance(p, B.DetailPropShape):
                return 'cross' if p.is_cross else 'shape'
            return 'sprite' if isinstance(p, B.DetailPropSprite) else 'model'
        return ['detail_props'], lambda new: dict(c, kinds=[kind_of(p) for p in new.detail_props])
    if lump == 'ents':
        vmf = VMF()
        vmf.spawn['classname'] = 'worldspawn'
        for k in range(c['spawnkeys'] - 1):
            vmf.spawn[f'world_key{k}'] = f'{k} 2.5 x'
        ent = Entity(vmf)
        for k in range(c['keys']):
            ent[f'key{k}'] = ['value one', '-1 0.5 7'][k % 2]
        comma = c['sep'] == 'comma'
        for k in range(c['outs']):
            ent.add_out(Output('OnUser%d' % (k + 1), 'tgt', 'FireUser2', 'p q', 1.25, times=3, comma_sep=comma))
        vmf.add_ent(ent)
        bsp.ents = vmf
        bsp.out_comma_sep = comma

        def describe(new: BSP) -> dict:
            e = list(new.ents.entities)[0]
            outs = list(e.outputs)
            return dict(c, keys=len(list(e.items())), outs=len(outs), spawnkeys=len(list(new.ents.spawn.items())),
                        sep=('comma' if outs[0].comma_sep else 'esc') if outs else c['sep'])
        return ['ents'], describe
    if lump == 'visibility':
        n = c['clusters']
        rl = (n + 7) // 8
        bsp.visibility = None if n < 0 else B.Visibility([bytearray([k + 1] + [0] * (rl - 1)) for k in range(n)],
                                                        [bytearray([0] * (rl - 1) + [255 - k]) for k in range(n)])
        return ['visibility'], lambda new: dict(c, clusters=-1 if new.visibility is None else len(new.visibility.potentially_visible))
    if lump == 'texinfo':
        datas: dict = {}
        infos = []
        for k, lab in enumerate(c['pattern']):
            if lab not in datas:
                mat = 'part/same' if c['mats'] == 'same' else f'part/mat{lab}'
                datas[lab] = B.TexData(mat, Vec(0.125 * lab, 0.5, 0.25), 64 * lab, 32)
            infos.append(B.TexInfo(Vec(1, 0, 0), float(k) + 0.5, Vec(0, 1, 0), 2.0, Vec(0, 0, 1), 3.0, Vec(1, 1, 0), 4.0,
                                   SurfFlags.NOLIGHT, datas[lab]))
        bsp.texinfo = infos

        def describe(new: BSP) -> dict:
            seen: list = []
            pat = []
            for t in new.texinfo:
                for i, d in enumerate(seen):
                    if d is t._info:
                        pat.append(i + 1)
                        break
                else:
                    seen.append(t._info)
                    pat.append(len(seen))
            return dict(c, pattern=pat)
        return ['texinfo'], describe
    if lump == 'brushes':
        ti = tex()
        bsp.brushes = [B.Brush(B.BrushContents.WATER | B.BrushContents.SOLID,
                               [B.BrushSide(bsp.planes[0], ti, 10 * k + j, bool(j & 1), 2) for j in range(n)])
                       for k, n in enumerate(c['sides'])]
        return ['brushes'], lambda new: dict(c, sides=[len(b.sides) for b in new.brushes])
    if lump == 'primitives':
        bsp.primitives = [B.Primitive(bool(k & 1), list(range(3, 3 + ni)), [Vec(k + 0.5, j, -1) for j in range(nv)])
                          for k, (nv, ni) in enumerate(zip(c['verts'], c['inds']))]
        return ['primitives'], lambda new: dict(c, verts=[len(q.verts) for q in new.primitives],
                                                inds=[len(q.indexed_verts) for q in new.primitives])
    if lump == 'pakfile':
        zf = ZipFile(io.BytesIO(), 'w')
        for k in range(c['files']):
            zf.writestr(f'materials/part/file{k}.vmt', b'"Generic"\n{\n}\n' * (k + 1))
        bsp.pakfile = zf
        return [], lambda new: dict(c, files=len(new.pakfile.namelist()))
    if lump == 'textures':
        bsp.textures = list(c['names'])
        return ['textures'], lambda new: dict(c, names=list(new.textures))
    raise KeyError(lump)


def parts_records(out: hlib.RecWriter, parts_file: str) -> dict:
    with open(parts_file) as f:
        combos = json.load(f)
    n = 0
    for c in combos:
        layouts = ['v20'] + (['chaos', 'v19'] if THOROUGH and c['lump'] not in ('props',) else [])
        for layout in layouts:
            err = ''
            diff: list = []
            obs: dict = {}
            try:
                bsp = base_bsp(layout, 'part')
                views, describe = realise_part(c, bsp)
                proj = L.Projector(bsp)
                exp = {v: proj.view(v) for v in views}
                path = os.path.join(TMP, 'part.bsp')
                quiet_save(bsp, path)
                new = BSP(path)
                obs = describe(new)
                got = L.Projector(new)
                for v in views:
                    diff += [[v, lab] for lab in sorted(L.diff_labels(exp[v], got.view(v), v, set()))]
            except Exception as exc:    # noqa: BLE001
                err = type(exc).__name__
            out.write({'k': 'part', 'c': c, 'obs': obs, 'diff': diff, 'error': err,
                       'sig': {'kind': 'part', 'action': 'roundtrip', 'lump': c['lump'], 'layout': layout, 'src': 'tlc'}})
            n += 1
    return {'parts': len(combos)}


def main() -> None:
    mode = sys.argv[1]
    rng = random.Random(f'{hlib.seed()}/{mode}')
    stats: dict = {}
    out = None
    try:
        try:
            out = run_mode(mode, rng, stats)
        except SystemExit:
            raise
        except Exception as exc:    # noqa: BLE001 - the code under test broke down outside a guarded call
            # (e.g. it cannot read the synthesised base file): reported as a record, judged by TLC
            import traceback
            sys.stderr.write(traceback.format_exc())
            path = {'funcs': 3, 'graph': 4, 'parts': 3}.get(mode, 2)
            if mode == 'replay':
                path = 3
            out = hlib.RecWriter(sys.argv[path] + '.crash')
            out.write({'k': 'rt', 'layout': '', 'wseed': 0, 'fmt': mode, 'diff': [], 'error': f'{mode}:{type(exc).__name__}',
                       'sig': {'kind': 'rt', 'action': 'crash', 'mode': mode, 'src': 'driver'}})
            stats['crashed'] = True
        out.close()
        stats['records'] = out.n
        stats.setdefault('rle_family', 0)
        stats.setdefault('finder_edges', 0)
        stats.setdefault('worlds', 0)
        stats.setdefault('parts', 0)
        print(json.dumps(stats))
    finally:
        import shutil
        shutil.rmtree(TMP, ignore_errors=True)


def run_mode(mode: str, rng: random.Random, stats: dict) -> hlib.RecWriter:
    if True:
        if mode == 'funcs':
            out = hlib.RecWriter(sys.argv[3])
            with open(sys.argv[2]) as f:
                edges = json.load(f)
            stats.update(rle_records(out, rng))
            stats.update(finder_records(out, edges, rng))
        elif mode == 'vis':
            out = hlib.RecWriter(sys.argv[2])
            vis_records(out, rng)
        elif mode == 'graph':
            out = hlib.RecWriter(sys.argv[4])
            wf = sys.argv[5] if len(sys.argv) > 5 else None
            stats.update(graph_records(out, int(sys.argv[2]), int(sys.argv[3]), wf))
        elif mode == 'props':
            out = hlib.RecWriter(sys.argv[2])
            props_records(out, rng)
        elif mode == 'fits':
            out = hlib.RecWriter(sys.argv[2])
            fits_records(out, rng)
        elif mode == 'parts':
            out = hlib.RecWriter(sys.argv[3])
            stats.update(parts_records(out, sys.argv[2]))
        elif mode == 'transplant':
            out = hlib.RecWriter(sys.argv[2])
            transplant_records(out, rng)
            empty_compressed_records(out)
            ents_records(out, rng)
        elif mode == 'replay':
            with open(sys.argv[2]) as f:
                rp = json.load(f)
            rec = rp['record']
            out = hlib.RecWriter(sys.argv[3])
            if rec['k'] == 'graph':
                write_graph(out, rec['w'], rp.get('layout', 'v20'), 'replay')
            elif rec['k'] in ('foi', 'foe'):
                rec_finder(out, rec['k'], rec['tbl'], rec['arg'], 'replay', fold=rec['fold'] or None)
            elif rec['k'] == 'rle':
                rec_rle(out, rec['in'], 'replay')
            elif rec['k'] == 'unrle':
                dec = bytes(B.runlength_decode(bytes_of(rec['in']), rec['start'], rec['max']))
                out.write(dict(rec, out=runs_of(dec), sig=rp.get('sig', {'kind': 'rle', 'action': 'decode', 'src': 'replay'})))
            else:
                # whole-family records (props, fits, vis, transplant) are regenerated and filtered by the caller
                sub = {'prop': props_records, 'fits': fits_records, 'vis': vis_records, 'rt': transplant_records}[rec['k']]
                sub(out, random.Random(f'{hlib.seed()}/{ {"prop": "props", "rt": "transplant"}.get(rec["k"], rec["k"]) }'))
        else:
            raise SystemExit(2)
    return out


if __name__ == '__main__':
    main()
